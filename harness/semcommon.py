"""Shared pieces of the semantic checks (C01 C02 C03): the scalar typed grammar restricted to the fragment with a
formal semantics (Spec/ODataSem.lean), rows over the adversarial value domain, and the wire format of rows."""
import itertools
from odata_query import ast
import gens_typed, dbenv, driver
from sexpr import enc, hexs

SEM_FEATURES = {"cmp_int", "cmp_str", "nulltest", "in_int", "in_str", "and", "or", "not", "boolfn", "boolfn_eq", "boolfield", "boollit", "cmp_bool",
                "lit", "field", "arith", "length", "indexof", "neg", "concat", "substring", "case", "trim"}
SEM_FIELDS = {"str": ["s1", "s2"], "int": ["i1", "i2"], "bool": ["b1"]}
STR_POOL = ["", "a", "ab", "abc", "ABC", "aXb", "O'B", "100%", "a_c", "a\\b", " a ", "é", "x''y", "--", "%", "_", "b", "Ab", "'", "''",
            "%41", "%25", "a%20b", "a+b", "%2F", "&amp;",
            # texts a Unicode normaliser would rewrite: decomposed / precomposed pairs and compatibility singletons (comparison is code point by code point)
            "Cafe\u0301", "Caf\u00e9", "\u212b", "\u00c5", "\u212a",
            # whitespace INSIDE a value: runs of blanks, a tab, a line break, only blanks (a re-layout of the filter text must not reach into literals)
            "a  b", "a b", "a\tb", "a\nb", "  ", " a", "a "]      # texts a decoder (URL, HTML) would rewrite: the filter text reaches the shorthands already decoded

INTS = [None, -7, -1, 0, 1, 2, 7, 3]
STRS = [None, "", "a", "ab", "abc", "ABC", "aXb", "O'B", "100%", "a_c", "a\\b", " a ", "é", "b", "Ab", "%", "x''y", "'", "''", "%41", "A", "%25", "a%20b", "a b", "a+b", "/", "&amp;", "&", "Cafe\u0301", "Caf\u00e9", "\u212b", "\u00c5", "\u212a", "K", "a  b", "a\tb", "a\nb", "  ", " ", " a", "a "]
BOOLS = [None, 0, 1]

class SemGen(gens_typed.TypedGen):
    def __init__(self, rng):
        super().__init__(rng, features=SEM_FEATURES, str_pool=STR_POOL, fields=SEM_FIELDS)

def rows_for(rng, n):
    """a coverage block (every value of the string domain occurs in s1 and in s2, every integer in i1 and i2 — detection must not depend on the
    luck of the draw) followed by random rows up to n"""
    rows = []
    for i, v in enumerate(STRS):
        rows.append({"id": len(rows) + 1, "i1": INTS[i % len(INTS)], "i2": INTS[(i * 3 + 1) % len(INTS)], "s1": v, "s2": STRS[(i * 7 + 3) % len(STRS)], "b1": BOOLS[i % len(BOOLS)]})
    while len(rows) < n:
        rows.append({"id": len(rows) + 1, "i1": rng.choice(INTS), "i2": rng.choice(INTS), "s1": rng.choice(STRS), "s2": rng.choice(STRS), "b1": rng.choice(BOOLS)})
    return rows

def product_rows():
    """all rows over a reduced product (exhaustive for two int and two string columns of 4 values each + bool)"""
    rows = []
    i = 0
    for i1, i2, s1, s2, b1 in itertools.product([None, -1, 0, 2], [None, 0, 7], [None, "", "ab", "A%"], [None, "a", "_b"], [None, 0, 1]):
        i += 1
        rows.append({"id": i, "i1": i1, "i2": i2, "s1": s1, "s2": s2, "b1": b1})
    return rows

def enc_cell(k, v):
    if v is None:
        return f"{k}:n"
    if isinstance(v, bool):
        return f"{k}:i{int(v)}"
    if isinstance(v, int):
        return f"{k}:i{v}"
    return f"{k}:s" + v.encode("utf-8", "surrogatepass").hex()

def enc_rows(rows, cols=("i1", "i2", "s1", "s2", "b1")):
    return "|".join(";".join(enc_cell(c, r.get(c)) for c in cols) for r in rows)

def sqlite_table(rows):
    import sqlite3
    c = sqlite3.connect(":memory:")
    c.execute("CREATE TABLE t (id INTEGER PRIMARY KEY, i1 INTEGER, i2 INTEGER, s1 TEXT, s2 TEXT, b1 BOOLEAN, f1 REAL, d1 DATE, dt1 DATETIME)")
    c.executemany("INSERT INTO t (id, i1, i2, s1, s2, b1, f1, d1, dt1) VALUES (?,?,?,?,?,?,?,?,?)",
                  [(r["id"], r["i1"], r["i2"], r["s1"], r["s2"], r["b1"], r.get("f1"), r["d1"].isoformat() if r.get("d1") else None,
                    r["dt1"].isoformat(sep=" ") if r.get("dt1") else None) for r in rows])
    return c


# --- numeric stream: floor / ceiling / round over a FRACTIONAL column, judged against Spec/NumFn.lean --------------------------
QUARTERS = list(range(-13, 14))          # f1 = q / 4: exact binary fractions in [-3.25, 3.25]
ROUND_FNS = ["floor", "ceiling", "round"]
CMP_WORDS = ["eq", "ne", "lt", "le", "gt", "ge"]

def numeric_rows(with_null=True):
    rows = [{"id": k + 1, "i1": None, "i2": None, "s1": None, "s2": None, "b1": None, "f1": q / 4, "_q": q} for k, q in enumerate(QUARTERS)]
    if with_null:
        rows.append({"id": len(rows) + 1, "i1": None, "i2": None, "s1": None, "s2": None, "b1": None, "f1": None, "_q": None})
    return rows

def numeric_cases():
    return [(fn, cmp, n, f"{fn}(f1) {cmp} {n}") for fn in ROUND_FNS for cmp in CMP_WORDS for n in range(-3, 4)]

def numeric_expect(cases, rows):
    """Spec.numFnHolds (Lean) per case: list of 'T' / 'F' / 'U' per row"""
    cells = ",".join("n" if r["_q"] is None else str(r["_q"]) for r in rows)
    outs = driver.run_batch([driver.req("numfn", fn, cmp, str(n), cells) for fn, cmp, n, t in cases])
    return [o.split(" ") for o in outs]

def judge_numeric(ctx, ids_fn, rows, kf=None):
    """ids_fn(text) -> set of ids, or a string outcome.  Returns (violations, tally); a violation is (text, row, why).
    kf(fn, row) -> True when a listed known finding covers this (function, row)."""
    import collections
    cases = numeric_cases()
    exp = numeric_expect(cases, rows)
    viol, tally = [], collections.Counter()
    for (fn, cmp, n, t), want in zip(cases, exp):
        got = ids_fn(t)
        ctx.evaluations += 1
        if not isinstance(got, set):
            tally["refused-or-error:" + str(got)[:40]] += 1
            viol.append((t, None, f"not translated / not executed: {str(got)[:120]}"))
            continue
        sel = 0
        for r, w in zip(rows, want):
            a = r["id"] in got
            if a != (w == "T"):
                if kf and kf(fn, r):
                    tally["under-known-finding"] += 1
                else:
                    tally["SPEC-MISMATCH"] += 1
                    viol.append((t, {"id": r["id"], "f1": r["f1"]}, f"backend {'selects' if a else 'does not select'} the row, OData semantics (Spec.NumFn) says {w}"))
            else:
                tally["spec-agree"] += 1
                sel += 1 if a else 0
        if 0 < sel < len(rows):
            ctx.nontrivial.add("num:" + t)
    # the same functions applied to a LITERAL (a backend may evaluate those itself): the filter must select what it selects with the value written out -
    # round is half AWAY FROM ZERO (OData 4.01 5.1.1.9.1), floor / ceiling toward -inf / +inf
    from fractions import Fraction
    import math
    def spec_val(fn, lit):
        q = Fraction(lit)
        if fn == "floor":
            return math.floor(q)
        if fn == "ceiling":
            return math.ceil(q)
        return int(q + Fraction(1, 2)) if q >= 0 else -int(-q + Fraction(1, 2))
    for fn in ROUND_FNS:
        for lit in ("2.5", "0.5", "-0.5", "-2.5", "1.5", "3.49", "-3.5", "2.0", "-1.25", "0.25", "4.5"):
            val = spec_val(fn, lit)
            for tmpl in ("f1 eq {x}", "f1 lt {x}", "not (f1 ge {x})", "round(f1) eq {x}", "{x} eq f1"):
                a, b = tmpl.format(x=f"{fn}({lit})"), tmpl.format(x=str(val))
                ga, gb = ids_fn(a), ids_fn(b)
                ctx.evaluations += 1
                if not isinstance(ga, set) or not isinstance(gb, set):
                    tally["literal:refused-or-error"] += 1
                    if isinstance(ga, set) != isinstance(gb, set) and "skip" not in (str(ga) + str(gb)):
                        viol.append((a, None, f"{a!r} gives {str(ga)[:60]} but {b!r} gives {str(gb)[:60]}"))
                    continue
                if ga != gb:
                    if kf and kf(fn, {"_q": int(Fraction(lit) * 4)}):
                        tally["under-known-finding"] += 1
                    else:
                        tally["SPEC-MISMATCH"] += 1
                        viol.append((a, None, f"{fn}({lit}) is {val}: the filter selects ids {sorted(ga)[:8]} but {b!r} selects {sorted(gb)[:8]}"))
                else:
                    tally["literal:agree"] += 1
    return viol, tally


# --- date stream: Edm.Date comparison / membership / year month day, clock parts of a date-time; judged against Spec/DateSem.lean -----
import datetime as _dt
DATE_CELLS = [_dt.date(2020, 1, 1), _dt.date(1999, 12, 31), _dt.date(2020, 2, 29), _dt.date(2021, 10, 9), _dt.date(999, 12, 31), _dt.date(1000, 1, 1),
              _dt.date(9999, 12, 31), _dt.date(2020, 1, 31), _dt.date(1, 1, 1), None]
CLOCKS = [(10, 5, 59), (23, 59, 59), (0, 0, 0), (9, 8, 7), (12, 0, 1), (0, 59, 0), (1, 1, 1), (13, 30, 30), (6, 6, 6), None]
DATE_LITS = ["2020-01-01", "2020-02-29", "0999-12-31", "1000-01-01", "9999-12-31", "0001-01-01", "2020-01-31", "2010-06-15"]

def date_rows():
    rows = []
    for k, (d, c) in enumerate(zip(DATE_CELLS, CLOCKS)):
        dtv = _dt.datetime(d.year, d.month, d.day, *c) if (d is not None and c is not None) else None
        rows.append({"id": k + 1, "i1": None, "i2": None, "s1": None, "s2": None, "b1": None, "f1": None, "d1": d, "dt1": dtv, "_clock": c if dtv is not None else None})
    return rows

def date_cases():
    """(driver request builder, filter text)"""
    cases = []
    for cmp in CMP_WORDS:
        for lit in DATE_LITS:
            cases.append((("datecmp", cmp, lit), "d", f"d1 {cmp} {lit}"))
            cases.append((("datecmp", {"lt": "gt", "gt": "lt", "le": "ge", "ge": "le"}.get(cmp, cmp), lit), "d", f"{lit} {cmp} d1"))
    for cmp in CMP_WORDS:
        for lit in ("2020-01-01", "1999-12-31", "2020-02-29"):
            cases.append((("datecmp", cmp, lit), "dt", f"date(dt1) {cmp} {lit}"))      # the date part of a date-time column
    for a, b in [("2020-01-01", "1999-12-31"), ("0999-12-31", "2020-02-29"), ("2010-06-15", "2010-06-16")]:
        cases.append((("datein", a + ";" + b), "d", f"d1 in ({a}, {b})"))
    for part, ns in (("year", [1, 999, 1000, 1999, 2020, 9999]), ("month", [1, 2, 10, 12]), ("day", [1, 9, 29, 31])):
        for cmp in CMP_WORDS:
            for n in ns:
                cases.append((("datepart", part, cmp, str(n)), "d", f"{part}(d1) {cmp} {n}"))
                cases.append((("datepart", part, cmp, str(n)), "dt", f"{part}(dt1) {cmp} {n}"))
    for part, ns in (("hour", [0, 9, 10, 23]), ("minute", [0, 5, 59]), ("second", [0, 7, 59])):
        for cmp in CMP_WORDS:
            for n in ns:
                cases.append((("clockpart", part, cmp, str(n)), "c", f"{part}(dt1) {cmp} {n}"))
    return cases

def date_expect(cases, rows):
    dcells = ",".join("n" if r["d1"] is None else r["d1"].isoformat() for r in rows)
    dtcells = ",".join("n" if r["dt1"] is None else r["dt1"].date().isoformat() for r in rows)
    ccells = ",".join("n" if r["_clock"] is None else ":".join(map(str, r["_clock"])) for r in rows)
    outs = driver.run_batch([driver.req(*req, {"d": dcells, "dt": dtcells, "c": ccells}[which]) for req, which, t in cases])
    return [o.split(" ") for o in outs]

def judge_dates(ctx, ids_fn, rows, skip=None, kf=None):
    """as judge_numeric, for the date stream; skip(text, outcome) -> True when the backend's refusal is outside the supported fragment"""
    import collections
    cases = date_cases()
    exp = date_expect(cases, rows)
    viol, tally = [], collections.Counter()
    for (req, which, t), want in zip(cases, exp):
        got = ids_fn(t)
        ctx.evaluations += 1
        if not isinstance(got, set):
            if skip and skip(t, got):
                tally["outside-supported:" + str(got)[:50]] += 1
                continue
            tally["refused-or-error:" + str(got)[:40]] += 1
            viol.append((t, None, f"not translated / not executed: {str(got)[:120]}"))
            continue
        sel = 0
        for r, w in zip(rows, want):
            a = r["id"] in got
            if w == "bad-cell":
                viol.append((t, None, "harness: malformed cell")); break
            if a != (w == "T"):
                if kf and kf(t):
                    tally["under-known-finding"] += 1; continue
                tally["SPEC-MISMATCH"] += 1
                viol.append((t, {"id": r["id"], "d1": str(r["d1"]), "dt1": str(r["dt1"])}, f"backend {'selects' if a else 'does not select'} the row, OData semantics (Spec.DateSem) says {w}"))
            else:
                tally["spec-agree"] += 1
                sel += 1 if a else 0
        if 0 < sel < len(rows):
            ctx.nontrivial.add("date:" + t)
    return viol, tally


# --- the DATE fragment as a typed grammar (Spec/DateFilters.lean DateF): generator, wire form, filter text ---------------------------
DATEF_LITS = ["2020-01-01", "2020-02-29", "0999-12-31", "1000-01-01", "9999-12-31", "0001-01-01", "2020-01-31", "2010-06-15", "1999-12-31", "2021-10-09"]
DATEF_CMPS = {"eq": "eq", "ne": "ne", "lt": "lt", "le": "le", "gt": "gt", "ge": "ge"}

def gen_datef(rng, depth):
    """-> (wire, text)"""
    if depth <= 0 or rng.random() < 0.35:
        k = rng.randrange(4)
        c = "d1"
        cmp = rng.choice(CMP_WORDS)
        if k == 0:
            l = rng.choice(DATEF_LITS); return f"cmp {cmp} {c} {l}", f"{c} {cmp} {l}"
        if k == 1:
            l = rng.choice(DATEF_LITS); return f"cmpr {cmp} {l} {c}", f"{l} {cmp} {c}"
        if k == 2:
            ls = [rng.choice(DATEF_LITS) for _ in range(rng.randint(1, 3))]
            return f"in {c} {len(ls)} " + " ".join(ls), f"{c} in (" + ", ".join(ls) + ("," if len(ls) == 1 else "") + ")"
        p = rng.choice(["year", "month", "day"])
        n = rng.choice({"year": [1, 999, 1000, 1999, 2020, 9999], "month": [1, 2, 6, 10, 12], "day": [1, 9, 15, 29, 31]}[p])
        return f"part {p} {cmp} {c} {n}", f"{p}({c}) {cmp} {n}"
    op = rng.choice(["and", "or", "not"])
    if op == "not":
        w, t = gen_datef(rng, depth - 1)
        return f"not {w}", f"not ({t})"
    (w1, t1), (w2, t2) = gen_datef(rng, depth - 1), gen_datef(rng, depth - 1)
    return f"{op} {w1} {w2}", f"({t1}) {op} ({t2})"

def datef_rows():
    return [{"id": k + 1, "i1": None, "i2": None, "s1": None, "s2": None, "b1": None, "f1": None, "d1": d, "dt1": None} for k, d in enumerate(DATE_CELLS)]

def enc_date_rows(rows):
    return "|".join("d1:n" if r["d1"] is None else "d1:s" + r["d1"].isoformat().encode().hex() for r in rows)
