#!/bin/bash
# usage: harness/seedtest_iso.sh <dir with patch.diff> <Cxx> [slot] [tier]
# Like seedtest.sh, but isolated: the patch is applied in a scratch worktree of /repo and the check runs in a scratch copy of /verif
# (own generated tables and build output), so /repo and /verif are not touched and several seeds can be tested in parallel.
set -u
d="$1"; pid="$2"; slot="${3:-0}"; tier="${4:-quick}"
root=/tmp/mut/s$slot
mkdir -p $root
[ -d $root/repo ] || { git -C /repo worktree prune; git -C /repo worktree add --detach $root/repo HEAD >/dev/null 2>&1; }
git -C $root/repo checkout --detach -q $(git -C /repo rev-parse HEAD) 2>/dev/null; git -C $root/repo checkout -- . 
rsync -a --exclude .git --exclude replays /verif/ $root/verif/
( cd $root/repo && git apply "$d/patch.diff" ) || { echo "APPLY-FAILED $d"; exit 3; }
out=$(cd $root/verif && PYTHONPATH=$root/repo ODATA_QUERY_REPO=$root/repo /venv/bin/python harness/verif.py check "$pid" --tier "$tier" 2>&1); rc=$?
git -C $root/repo checkout -- .
echo "$out" | grep -v KNOWN-FINDING | tail -4 | cut -c1-400
echo "seedtest_iso $(basename $d) $pid rc=$rc $(echo "$out" | grep VIOLATION | head -1)"
