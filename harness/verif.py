#!/venv/bin/python
"""CLI of the verification machinery:  verif.py check <Cxx> [--tier quick|thorough]   |   verif.py replay <file>"""
import argparse, importlib, json, os, sys, time, traceback
HERE = os.path.dirname(os.path.abspath(__file__))
sys.path.insert(0, HERE)
os.environ.setdefault("ODATA_QUERY_VERIF", "1")
import common

def main():
    ap = argparse.ArgumentParser()
    sub = ap.add_subparsers(dest="cmd", required=True)
    c = sub.add_parser("check"); c.add_argument("pid"); c.add_argument("--tier", default=os.environ.get("VERIF_TIER", "quick"))
    r = sub.add_parser("replay"); r.add_argument("path")
    a = ap.parse_args()
    if a.cmd == "replay":
        d = json.load(open(a.path))
        print(json.dumps(d, indent=1)[:4000])
        mod = importlib.import_module("checks." + d["property"].lower())
        if hasattr(mod, "replay"):
            return mod.replay(d)
        return 0
    seed = int(os.environ.get("VERIF_SEED", "0") or 0)
    tier = a.tier if a.tier in ("quick", "thorough") else "quick"
    ctx = common.Ctx(a.pid, tier, seed)
    try:
        mod = importlib.import_module("checks." + a.pid.lower())
        return mod.run(ctx)
    except Exception:
        traceback.print_exc()
        return 2

if __name__ == "__main__":
    sys.exit(main())
