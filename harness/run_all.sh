#!/bin/bash
# run every registered check (quick by default) on the current tree; prints one line per check
tier="${1:-quick}"
cd /verif
for pid in $(/venv/bin/python -c "import json;print(' '.join(c['property_id'] for c in json.load(open('MANIFEST.json'))['checks']))"); do
  start=$(date +%s)
  out=$(/venv/bin/python harness/verif.py check $pid --tier $tier 2>&1); rc=$?
  echo "$pid rc=$rc $(( $(date +%s) - start ))s $(echo "$out" | grep -c 'KNOWN-FINDING') known $(echo "$out" | grep VIOLATION | head -1)"
done
