"""Typed filter grammar (DESIGN Appendix C): terms are generated *by type*, so the generator knows each
term's OData type by construction.  Produces odata_query.ast objects.

Field naming convention (shared with Driver.lean's Γ): s1 s2 str | i1 i2 int | f1 float | b1 bool |
d1 date | dt1 datetime | tm1 time | du1 duration | g1 guid | c1 c2 collection | geo1 geography."""
from odata_query import ast

STR_POOL = ["", "a", "ab", "abc", "ABC", "aXb", "O'B", "100%", "a_c", "a\\b", " a ", "é", "x''y", "--", ";", "%", "_"]
INT_POOL = ["0", "1", "2", "7", "-1", "-7", "10", "3"]
FLOAT_POOL = ["1.5", "0.5", "-2.25", "2.0", "1e2"]
DATE_POOL = ["2020-01-01", "2020-02-29", "1999-12-31", "2021-06-15"]
DT_POOL = ["2020-01-01T10:00:00Z", "2020-02-29T23:59:59Z", "1999-12-31T00:00:00Z"]
TIME_POOL = ["12:30:00", "00:00:00", "23:59:59"]

FIELDS = {"str": ["s1", "s2"], "int": ["i1", "i2"], "float": ["f1"], "bool": ["b1"], "date": ["d1"],
          "datetime": ["dt1"], "time": ["tm1"], "duration": ["du1"], "guid": ["g1"], "coll": ["c1", "c2"], "geo": ["geo1"]}

def I(n): return ast.Identifier(n)
def call(n, *a):
    *ns, nm = n.split(".")
    return ast.Call(ast.Identifier(nm, tuple(ns)), list(a))

CMP = [ast.Eq, ast.NotEq, ast.Lt, ast.LtE, ast.Gt, ast.GtE]
ARITH = [ast.Add, ast.Sub, ast.Mult, ast.Div, ast.Mod]

class TypedGen:
    """features: set of production names that may be used (None = all)"""
    def __init__(self, rng, features=None, str_pool=None, fields=None):
        self.rng, self.features = rng, features
        self.str_pool = str_pool or STR_POOL
        self.fields = fields or FIELDS

    def ok(self, f):
        return self.features is None or f in self.features

    def pick(self, opts):
        opts = [o for o in opts if self.ok(o[0])]
        return self.rng.choice(opts)

    def gen(self, ty, d):
        return getattr(self, "g_" + ty)(d)

    def field(self, ty):
        return I(self.rng.choice(self.fields[ty]))

    def g_bool(self, d):
        r = self.rng
        if d <= 0:
            k = self.pick([("cmp_int",), ("cmp_str",), ("nulltest",), ("boolfield",), ("boollit",)])[0]
        else:
            k = self.pick([("cmp_int",), ("cmp_int",), ("cmp_str",), ("cmp_date",), ("cmp_float",), ("nulltest",), ("in_int",), ("in_str",),
                           ("and",), ("and",), ("or",), ("or",), ("not",), ("boolfn",), ("boolfn_eq",), ("boolfield",),
                           ("boollit",), ("cmp_bool",), ("cmp_dt",), ("hassubset",)])[0]
        if k == "cmp_int":
            return ast.Compare(r.choice(CMP)(), self.gen("int", d - 1), self.gen("int", d - 1))
        if k == "cmp_float":
            return ast.Compare(r.choice(CMP)(), self.gen("float", d - 1), self.gen("float", d - 1))
        if k == "cmp_str":
            return ast.Compare(r.choice(CMP)(), self.gen("str", d - 1), self.gen("str", d - 1))
        if k == "cmp_date":
            return ast.Compare(r.choice(CMP)(), self.gen("date", d - 1), self.gen("date", d - 1))
        if k == "cmp_dt":
            return ast.Compare(r.choice(CMP)(), self.gen("datetime", d - 1), self.gen("datetime", d - 1))
        if k == "cmp_bool":
            return ast.Compare(r.choice([ast.Eq, ast.NotEq])(), self.gen("bool", d - 1), self.gen("bool", d - 1))
        if k == "nulltest":
            ty = r.choice(["int", "str", "bool"] if not self.ok("cmp_date") else ["int", "str", "bool", "date"])
            return ast.Compare(r.choice([ast.Eq, ast.NotEq])(), self.field(ty), ast.Null())
        if k == "in_int":
            return ast.Compare(ast.In(), self.gen("int", d - 1), ast.List([self.gen("int", 0) for _ in range(r.randint(1, 3))]))
        if k == "in_str":
            return ast.Compare(ast.In(), self.gen("str", d - 1), ast.List([self.gen("str", 0) for _ in range(r.randint(1, 3))]))
        if k == "and":
            return ast.BoolOp(ast.And(), self.gen("bool", d - 1), self.gen("bool", d - 1))
        if k == "or":
            return ast.BoolOp(ast.Or(), self.gen("bool", d - 1), self.gen("bool", d - 1))
        if k == "not":
            return ast.UnaryOp(ast.Not(), self.gen("bool", d - 1))
        if k == "boolfn":
            return call(r.choice(["contains", "startswith", "endswith"]), self.gen("str", d - 1), self.gen("str", d - 1))
        if k == "boolfn_eq":
            f = call(r.choice(["contains", "startswith", "endswith"]), self.gen("str", d - 1), self.gen("str", d - 1))
            return ast.Compare(r.choice([ast.Eq, ast.NotEq])(), f, ast.Boolean(r.choice(["true", "false"])))
        if k == "hassubset":
            return call(r.choice(["hassubset", "hassubsequence"]), self.gen("coll", d - 1), self.gen("coll", d - 1))
        if k == "boolfield":
            return self.field("bool")
        return ast.Boolean(r.choice(["true", "false"]))

    def g_int(self, d):
        r = self.rng
        if d <= 0:
            k = r.choice(["lit", "field", "field"])
        else:
            k = self.pick([("lit",), ("field",), ("field",), ("arith",), ("arith",), ("length",), ("indexof",), ("datepart",), ("neg",), ("timepart",)])[0]
        if k == "lit":
            return ast.Integer(r.choice(INT_POOL))
        if k == "field":
            return self.field("int")
        if k == "arith":
            return ast.BinOp(r.choice(ARITH)(), self.gen("int", d - 1), self.gen("int", d - 1))
        if k == "length":
            return call("length", self.gen("str", d - 1))
        if k == "indexof":
            return call("indexof", self.gen("str", d - 1), self.gen("str", d - 1))
        if k == "datepart":
            return call(r.choice(["year", "month", "day"]), self.gen(r.choice(["date", "datetime"]), d - 1))
        if k == "timepart":
            return call(r.choice(["hour", "minute", "second"]), self.gen(r.choice(["datetime", "time"]), d - 1))
        return ast.UnaryOp(ast.USub(), self.gen("int", d - 1))

    def g_float(self, d):
        r = self.rng
        if d <= 0:
            k = r.choice(["lit", "field"])
        else:
            k = self.pick([("lit",), ("field",), ("arithf",), ("round",), ("negf",)])[0]
        if k == "lit":
            return ast.Float(r.choice(FLOAT_POOL))
        if k == "field":
            return self.field("float")
        if k == "arithf":
            a, b = r.choice([("float", "float"), ("float", "int"), ("int", "float")])
            return ast.BinOp(r.choice(ARITH[:4])(), self.gen(a, d - 1), self.gen(b, d - 1))
        if k == "round":
            return call(r.choice(["round", "floor", "ceiling"]), self.gen("float", d - 1))
        return ast.UnaryOp(ast.USub(), self.gen("float", d - 1))

    def g_str(self, d):
        r = self.rng
        if d <= 0:
            k = r.choice(["lit", "field", "field"])
        else:
            k = self.pick([("lit",), ("field",), ("field",), ("concat",), ("substring",), ("case",), ("trim",)])[0]
        if k == "lit":
            return ast.String(r.choice(self.str_pool))
        if k == "field":
            return self.field("str")
        if k == "concat":
            return call("concat", self.gen("str", d - 1), self.gen("str", d - 1))
        if k == "substring":
            if r.random() < 0.5:
                return call("substring", self.gen("str", d - 1), self.gen("int", min(d - 1, 1)))
            return call("substring", self.gen("str", d - 1), self.gen("int", min(d - 1, 1)), self.gen("int", min(d - 1, 1)))
        if k == "case":
            return call(r.choice(["tolower", "toupper"]), self.gen("str", d - 1))
        return call("trim", self.gen("str", d - 1))

    def g_date(self, d):
        r = self.rng
        k = r.choice(["lit", "field"]) if d <= 0 else self.pick([("lit",), ("field",), ("datefn",)])[0]
        if k == "lit":
            return ast.Date(r.choice(DATE_POOL))
        if k == "field":
            return self.field("date")
        return call("date", self.gen("datetime", d - 1))

    def g_datetime(self, d):
        r = self.rng
        k = r.choice(["lit", "field"]) if d <= 0 else self.pick([("lit",), ("field",), ("now",)])[0]
        if k == "lit":
            return ast.DateTime(r.choice(DT_POOL))
        if k == "field":
            return self.field("datetime")
        return call(r.choice(["now", "mindatetime", "maxdatetime"]) if self.ok("minmax") else "now")

    def g_time(self, d):
        r = self.rng
        if d > 0 and self.ok("timefn") and r.random() < 0.3:
            return call("time", self.gen("datetime", d - 1))
        return ast.Time(r.choice(TIME_POOL)) if r.random() < 0.5 else self.field("time")

    def g_coll(self, d):
        r = self.rng
        k = r.choice(["lit", "field"]) if d <= 0 else self.pick([("lit",), ("field",), ("concatc",), ("substringc",)])[0]
        if k == "lit":
            ty = r.choice(["int", "str"])
            return ast.List([self.gen(ty, 0) for _ in range(r.randint(1, 3))])
        if k == "field":
            return self.field("coll")
        if k == "concatc":
            return call("concat", self.gen("coll", d - 1), self.gen("coll", d - 1))
        return call("substring", self.gen("coll", d - 1), self.gen("int", 0))

def node_kinds(n, acc=None):
    import dataclasses
    acc = acc if acc is not None else []
    acc.append(type(n).__name__)
    for f in dataclasses.fields(n):
        v = getattr(n, f.name)
        if isinstance(v, list):
            for x in v:
                if isinstance(x, ast._Node):
                    node_kinds(x, acc)
        elif isinstance(v, ast._Node):
            node_kinds(v, acc)
    return acc

def depth(n):
    import dataclasses
    ds = [0]
    for f in dataclasses.fields(n):
        v = getattr(n, f.name)
        if isinstance(v, list):
            ds += [depth(x) for x in v if isinstance(x, ast._Node)]
        elif isinstance(v, ast._Node):
            ds.append(depth(v))
    return 1 + max(ds)
