"""Regenerates DESIGN.md section 0.5 (seeded changes and which checks catch them) from seeded/*/meta.json, seeded/RESULTS.tsv and the notes below."""
import json, glob, os, re

NOTES = {
 'C12-4': 'first missed: relational filters with unknown fields on the child model added to c12', 'C12-2': 'first missed: wrong_model_field cases added',
 'C12-3': 'C09 first missed it too: duration shapes added to c09', 'C03-3': 'first missed: numeric stream (Spec/NumFn.lean) added to c01/c02/c03',
 'C08-3': 'first caught only by the tie theorem (no failing input): boundary literal pairs (beyond 64 bit, year 0001/9999) added to c08 - which also exposed the genuine year<1000 defect (fix b8a3ae1)',
 'C10-1': 'catastrophic regex backtracking: per-case budget, shortened after three exhausted budgets (regressed to tie-only for one run when the search began to re-run differing inputs in fresh processes and a non-terminating input hung the child; such inputs are now left to the in-process scan)',
 'C10-3': 'first caught only by the tie theorem: Unicode case twins of every keyword letter (ſ ı İ K) added to c10',
 'C13-3': 'first missed: geography / string literals with doubled quotes as TEXT and in AstGen added',
 'C14-3': 'first missed: nested lambdas re-binding the same variable x every alias map added',
 'C16-3': 'first missed: non-mutation now compares the instance state (__dict__) of every node and re-traverses the same object after each backend translation; ORM visitors rooted at the scalar table with every literal kind',
 'C02-4': 'C02 itself sees it through the broken tie only (null inside an in-list is outside the typed grammar); C12\'s in-list completeness judge reports it with a failing input',
 'C03-4': 'first missed: the Boolean-spelling matrix (8 spellings x eq/ne x 5 operand kinds x both sides); Spec.elabB now elaborates any letter case, so these filters are JUDGED (before, upper-case spellings were silently outside the elaborated fragment)',
 'C04-4': 'first missed: a refusal as "unknown field" was accepted for every filter; now only for filters the generator knows to name a lacking column; lambda-in-lambda followed by outer-row predicates added',
 'C07-4': 'first missed: string contents that begin like a literal of another kind (date, time, GUID, duration, number, true, null) and string literals opposite operands of another kind (date(x) eq \'…\', in-lists, arithmetic) added',
 'C08-4': 'first caught only through the tie: literals as the DIRECT argument of a function (floor({f}), length({s}), year({d}) …) added to the templates',
 'C10-4': 'first missed: 500-3000 random full-grammar trees rendered by the reference printer (calls / lists / lambdas inside in-lists and arguments) and their mutations added',
 'C12-5': 'first missed: in-list completeness judge (every element of the filter\'s list, incl. null, is an element of the compiled IN list) on Django / SQLAlchemy',
 'C14-4': 'first missed: identity aliases on paths next to aliases on their owner prefixes added to the maps',
 'C15-3': 'first missed: needed a foreign key that references a unique non-primary key; the relational reference semantics, the verification schema and the C04 proofs were generalised to natural keys (RelKind.toOne fk key, keysOk) - which exposed the genuine Django defect D39 (fix 32ff21e)',
 'C16-4': 'first missed: handlers attached after the class was used (instance / class / reverse order) added as sequences',
 'C18-4': 'first caught only through the tie: each built-in now gets a literal, a field and a computed term of every kind; Spec.Types gained the numeric-promotion rows round/floor/ceiling(int)',
 'C01-5': 'first crashed the T-gen translator (the refactor removed the table it extracts): a translator failure is now a broken tie followed by the failing-input search, which finds the input',
 'C03-5': 'first missed: strings a URL / HTML decoder would rewrite (%41, %25, a%20b, a+b, &amp;) and their decodings as row values added',
 'C08-5': 'first caught only through the tie: literal pairs that BOTH need LIKE escaping but hold different metacharacters (50%-50 vs 50%/50) added',
 'C09-5': 'first missed: LIKE patterns holding a wildcard AND a quote / backslash added',
 'C10-5': 'first caught only through the tie: corpus filters are parsed in other letter cases first, and the corpus parsed after the whole run is compared with each filter in a fresh process',
 'C11-5': 'first missed: named parameters whose names are not in ascending order added',
 'C12-6': 'first missed: field names that are attributes of the lookup objects (items, values, keys, get, registry, metadata ...) judged on Core and ORM - which exposed the genuine ORM defect D40 (fix 71c633b); the seed was re-made on the fixed tree (Core half only)',
 'C13-5': 'first missed: lambda range variables with a namespace added to AstGen and the text corpus',
 'C15-4': 'first missed: pre-joined Core statements whose FROM clause is anchored at another table added as bases',
 'C20-5': 'first missed: probes whose AST could depend on the hash seed (in-lists with repeats, many named parameters) added to the cross-process digests',
 'C02-6': 'first caught only through the tie: the FIRST thing each semantic check now translates are float / string / Boolean spellings of the values the integer filters use (state carried between calls by value-keyed caches), and integer div / mod by literals against every small quotient were added',
 'C03-6': 'first missed: or-chains of three and four eq terms on one field with a null test at every position (and right-nested) added',
 'C07-6': 'first caught only through the tie: contents that look like template placeholders ($1 $2 {0} %s \\1 :param_1 ?) and calls holding two string literals added',
 'C08-6': 'first caught only through the tie: literals nested inside two functions (length(trim({s})), concat(trim({s}), ..)) added to the templates',
 'C10-6': 'first missed: every identifier-like string constant of the parser\'s own source (re-harvested on every run) is tried as a call with 0-3 arguments, a one-element trailing-comma list, named parameters, under a namespace, and as a field',
 'C15-5': 'first missed: null tests / or / not as OPERANDS of a comparison with true / false added to the filters; the judge removes the wrappers with Spec.unwrapBoolCmp (Kleene identities) before elaborating',
 'C16-6': 'first missed: built-ins called with named parameters through the ORM visitors added to the non-mutation run',
 'C18-6': 'first missed: every single-kind allowed set (a class passed as such, not as a tuple) added',
 'C20-6': 'first missed: building an AliasRewriter (incl. with aliases that raise) on caller-supplied instances is now part of the history before the probes',
 'C03-7': 'first missed: arithmetic with the constants 0 and 1 on either side (x add 0, 0 add x, x mul 1, x mul 0, x sub 0, x div 1, x mod 1 ...) over NULL-holding columns added to c02 / c03',
 'C12-8': 'first missed: the named-parameter built-in matrix (length(x=s1), contains(s1, y=..)) ran on the SQL dialects only; it now runs on all seven backends - which exposed the genuine Django defect D42 (fix cf3d3cd)',
 'C15-6': 'first missed: the same filter TEXT applied through the shorthand to different models (Tag / O / W, same column names) in one process added',
 'C06-7': 'first caught only through the tie: the identifier judge counted the dots towards the 128-character limit; it now counts identifier characters, and namespaced identifiers at the limit (ns1.ns2.<121>, n.n.n...) are in the corpus',
 'C08-7': 'first caught only through the tie: templates comparing a literal with a LITERAL (no column on either side), alone and under and / or / not / in, added',
 'C10-7': 'first caught only through the tie: digit runs beyond CPython\'s int <-> str conversion limit (4299 / 4301 / 5000 digits) as integers, decimals, exponents, list elements and arguments added',
 'C18-7': 'first caught only through the tie: Spec.typeOf gained the temporal arithmetic rows (date sub date and datetime sub datetime are durations; date / datetime add / sub duration; duration add / sub duration; duration mul / div number) and c18 generates arithmetic over every pair of representative terms of every kind',
 'C14-8': 'first missed: alias keys whose first segment carries a namespace (geo.length, author.info, author.info/name, x.y.z) added to the maps, with filters that use them as fields, path roots, owners, arguments and lambda variables',
 'C10-8': 'first missed: the harness had raised the interpreter recursion limit for its own encoder, which hid RecursionError in the library; long inputs are now parsed under the default limit, and long paths that END in a lambda / sit inside one / are arguments were added',
 'C15-7': 'first missed: every comparison was on de-duplicated ids; base queries that select a NON-UNIQUE column (select(P.s), query(P.s), values_list) are now compared as multisets, on a database with at most one child per parent where navigating through a collection has the meaning of any()',
 'C03-8': 'first missed: filters of one shape that differ only in a literal inside a function of literals (tolower(\'ABC\') / tolower(\'AB\') ...) are now applied one after the other on the same engine',
 'C12-9': 'first missed: null as a built-in\'s argument was outside the strict typed grammar, so contains(s1, null) never reached the ORM backends; Spec.TypesStrict matches null against every primitive parameter, and the finite node-kind matrix is no longer sub-sampled in the quick tier',
 'C08-8': 'first missed: templates that repeat one call (with the literal) inside one filter - indexof(s1, {s}) ge 0 and indexof(s1, {s}) lt 5 ... - added',
 'C19-2': 'first missed: string / geography literals whose CONTENT holds whitespace runs, and re-layouts that use one whitespace kind everywhere (line feeds only, CR LF only, tabs only) added',
 'C06-8': 'first caught only through the tie: identifiers that differ only in letter case are now judged one after the other in one process (Title / title / TITLE, Sales.Region / sales.region)',
 'C15-8': 'first missed: the registry probe compiled the host\'s func.<name> calls with the default dialect only; it now also compiles them (one, two and three arguments) for SQLite, PostgreSQL and MySQL, over 33 names',
 'C11-9': 'first missed: calls in namespaces whose segments are spelled like keywords / operators (null.f, true.check, all.items, Null.f, not.f, my.null.f ...) added',
 'C18-9': 'first missed: literals at the extremes of their spelling (-9223372036854775808, 00000000000000000042, 60 digits, 1e400, P999...D) alone, as arguments and in the literal judge',
 'C03-9': 'first missed: filters of one shape that differ only in an INTEGER literal inside a function (substring(s1, 1) / substring(s1, 2), lengths, offsets) applied one after the other',
 'C07-9': 'first missed: C07 fed trees to the dialects; it now also writes the filter as TEXT (with and without blanks) around contents a decoder would rewrite (%27, %20, a%27)%20or%20..., &#39;, +), parses it with the real lexer / parser and judges the SQL the same way',
 'C19-8': 'first missed: long filters (100-450 clauses, 1 500-element lists; thousands of tokens) with a whitespace run at EVERY optional position added',
 'C20-9': 'first missed: the process digests now list per-probe outcomes (so the differing probe is the replay), import orders include the SQLAlchemy / Django backends first, and every built-in is probed with 0-4 arguments against arities typed in from the specification',
 'C01-10': 'first missed: C01 lacked the or-chains of eq / in terms with a null test at every position (either operand order) that C02 / C03 had; adding them exposed the genuine defect D44 on the clean tree (fix d7f5487)',
 'C04-10': 'first missed: pairs of sibling lambdas over ONE collection with one operator and one variable, joined by and / or, plain and negated (any-and-any, all-or-all ...) added for kids, tags, o/ps',
 'C11-10': 'first missed: names one compatibility character away from a built-in (long s, full-width and superscript letters, ordinal indicators) and g\u1d49o namespaces added',
 'C12-11': 'first missed: lambdas whose body is a bare field / path / literal (not a condition) added to the relational filters of C12',
 'C15-9': 'first missed: Django bases were the default manager and QuerySets only; a secondary manager with its own conditions (P.live), a related manager (o1.ps) and a many-to-many manager added',
 'C16-10': 'first missed: == was compared with structural identity on random pairs only; two spellings of one value per literal kind (GUID letter case, +5 / 5, 1.0 / 1.00, P1D / PT24H, Z / +00:00 ...) added, through ==, != and set membership',
 'C20-10': 'first missed: histories with TWO errors in one string (a call that would be rejected, then a syntax / tokenising error later in the text) added',
 'C03-10': 'first caught only through the tie: decomposed / precomposed pairs and compatibility singletons (Cafe + U+0301 / Caf\u00e9, ANGSTROM SIGN / \u00c5, KELVIN SIGN / K) added to the string pools, as literals and as row values',
 'C05-10': 'first caught only through the tie: every rendering is also parsed with its OPERATOR keywords in upper / title / alternating letter case',
 'C07-10': 'first caught only through the tie: field spellings are now also written as TEXT (\"a\", \"a\"\" OR 1=1 --\", [a], `a` ...): whatever the lexer accepts must end up inside exactly one quoted identifier',
 'C08-10': 'first caught only through the tie: a Boolean literal before / after a numeric literal in one filter, with the values 1 / 0 / 1.0 / 0.0 among the assignments (true == 1 in Python)',
 'C19-9': 'first caught only through the tie: whitespace runs of 64, 65, 500, 5 000 characters (blanks, tabs, line breaks) at every whitespace position added',
 'C01-11': 'first missed: the string pools had no value with a RUN of blanks, a tab or a line break inside; added (as literals and as row values) for all semantic checks',
 'C03-11': 'first missed: in-lists of 999 / 1 001 / 1 500 / 2 500 elements whose only row values sit at the END added (int and string columns, plain and negated)',
 'C05-11': 'first missed: chains of 64 / 65 / 100 / 200 operands of one operator (left-nested, right-nested with parentheses, under not, mixed and / or, arithmetic) added',
 'C06-11': 'first missed: duration seconds with MORE than six fraction digits whose value is exact in microseconds (PT0.5000000S, PT1.50000000S ...) are judged on every run',
 'C07-11': 'first missed: lists of 15 / 16 / 17 / 40 / 300 string elements holding the hostile content once (first, middle, last) added to the string positions',
 'C13-11': 'first missed: identifiers spelled like operator keywords (add ... or) in every identifier position - path root / segment, lambda owner and variable, parameter name, function name',
 'C15-10': 'first missed: base queries whose root entity is an ALIAS of the model (select(aliased(P)), query(aliased(P)), pre-filtered / ordered) added',
 'C16-11': 'first missed: trees in which one node OBJECT sits at several positions (hand-built, interned random trees, AliasRewriter output) with a numbering override, judged against a document-order reference',
 'C19-10': 'first missed: spellings just outside today\'s grammar (not( , )and( , in( ...) added to the corpus: rejected ones are skipped, an accepted one must be accepted in every keyword case',
 'C01-12': 'first missed: the Boolean-spelling matrix (TRUE, True, tRuE ... x eq / ne x operand kinds x sides, in-lists) existed for C02 / C03 only; added to C01',
 'C03-12': 'first missed: floor / ceiling / round applied to a LITERAL (2.5, 0.5, -0.5, -2.5 ...) must select what the written-out value selects (round is half away from zero)',
 'C06-12': 'first missed: string contents that are not in Unicode normal form C (decomposed accents, ANGSTROM / OHM SIGN, conjoining jamo, compatibility ideographs, ligatures) added',
 'C08-12': 'first missed: duration literals were not among the literal kinds of C08; added next to a column, a call, a literal (SQLAlchemy binds the timedelta, Django its microseconds)',
 'C10-12': 'first missed: string CONTENTS another parser would choke on (regex repetition bounds beyond 2^32, 1 500 nested groups, format fields, 70 000 characters) as arguments of every built-in',
 'C11-12': 'first missed: the call matrix is also parsed on a parser instance that has just FAILED on another input (an invalid call followed by a syntax / tokenising error)',
 'C13-12': 'first missed: every duration SHAPE the lexer accepts (T designator with nothing after it, bare P, signs, leading zeros, fractions, lower case) added to the round-trip corpus',
 'C14-12': 'first missed: first-use sequences in FRESH processes (a lambda-less any() before a lambda, a call without arguments before one with ...) compared with the substitution',
 'C15-11': 'first missed: base queries with loader options (joinedload, selectinload, join + contains_eager) added; the ids of ORM statements are now read from entities',
 'C16-12': 'first missed: visitors with a handler for ONE kind only (the others through generic_visit) must meet the handled nodes in depth-first field order',
 'C18-12': 'first missed: the null, geography and duration literals were missing from the literal-rejection judge',
 'C20-12': 'first missed: inputs that fail strictly INSIDE a lambda body (function, tokenising, syntax error; nested), each followed by every probe that declares a lambda variable',
 'C02-12': 'first caught only through the tie: built-ins called with NAMED parameters in and out of declaration order must select what the positional call selects',
 'C09-12': 'first caught only through the tie: in-lists of 499 / 500 / 501 / 1 001 / 1 700 options alone and as an operand of and / or / not / a comparison',
 'C02-13': 'first missed: a null guard joined with a comparison on the same operand (x ne null and x gt 3, either order / side) alone and under not / eq false / ne true',
 'C04-13': 'first missed: a lambda COMPARED with a Boolean literal (eq / ne x true / false x either side), alone, under and / or / not and inside another lambda body, judged as L / not L',
 'C08-13': 'first missed: matchesPattern (and indexof / endswith / concat) templates with plain-text against regex-metacharacter literal pairs added',
 'C11-13': 'first missed: namespaced built-ins with the dot MANGLED into identifier characters (geo__distance, geo_length, GEO__LENGTH, my.geo__length ...) added to the unknown names',
 'C12-14': 'first missed: a refused sub-term (unknown field, unknown function, lambda) at every operand position next to a Boolean literal that already settles the and / or',
 'C07-13': 'first caught only through the tie: contents spelling the keywords the dialects emit ( LIKE ,  NOT ,  AND ,  IS NULL ...) and negated pattern functions with the content in the first argument',
 'C10-13': 'first caught only through the tie: wrong-arity and unknown calls of every built-in are parsed after the whole run and compared with a fresh process; differing inputs are re-run in fresh processes',
 'C03-14': 'first missed: a pattern stream (matchesPattern with plain-text and anchored patterns over rows that differ from the pattern only in letter case) judged against re.search',
 'C08-14': 'first missed: every environment variable the library source reads is set in a process of its own and the judge repeated there (none on the pinned source)',
 'C11-14': 'first missed: a namespaced built-in WITHOUT its namespace (distance, intersects, DISTANCE, odata.distance) added to the unknown names',
 'C14-14': 'first missed: alias targets that are CALLS of the function the filter applies to the alias (tolower(name) with name -> tolower(nm)), for eight functions and both unary operators',
 'C16-14': 'first missed: calls nested in the same call (left, right, three deep) and one-operator chains added to the translate-then-compare corpus',
 'C17-14': 'first missed: the strip correspondence is repeated on trees whose computed attributes (py_val, full_name) have been read, hashed, printed and traversed before',
 'C01-14': 'first caught only through the tie: the same unary operator applied two to four times to operands that bind more loosely than their context (not not (a or b) and c, -(-(a add b)) mul c)',
 'C20-11': 'regressed to not reported when the probe pool grew (the draw no longer repeated a failing text); now every failing text is parsed twice / three times on one lexer, one parser, both',
 'C08-15': 'first missed: columns of other declared types (Uuid, Numeric, Enum, Interval, Text, BigInteger, Date / DateTime / Time) on Core and ORM, compiled for SQLite and PostgreSQL',
 'C11-15': 'first missed: a parameter name REPEATED in one call (s=1, s=2; p, q, p; three times) for every name of the call matrix: every written argument counts and keeps its place',
 'C12-16': 'first missed: literals whose value is falsy in Python (0, 0.0, empty string) in every argument position must give the SQL skeleton and parameter count a truthy literal gives',
 'C09-15': 'first missed: one sub-expression occurring TWICE in a filter in every pair of operand contexts (parent operator x side, arithmetic and Boolean; sqlcommon.repeated_subterms, also fed to c01 / c02 / c03 where the rows decide) - state a printer keeps per node between two visits',
 'C06-15': 'first missed: geography contents with a lower / mixed-case SRID prefix, whitespace at the ends and around the semicolon, several semicolons, mixed-case WKT and random pieces - the content is carried verbatim',
 'C12-17': 'first missed: the function matrix fills the OTHER arguments with typed terms too (a call that returns a string, a string literal), not only a bare field of unknown type (contains(tolower(s1), null))',
 'C16-15': 'first missed: one visitor / transformer / dialect instance reused after 1, 30, 300+ traversals aborted by an exception from a handler must handle legal trees as a fresh instance does',
 'C19-11': 'first caught only through the tie: the re-layout recognises punctuation by its TEXT, so a tree that re-types the comma token is judged by the same whitespace-before-comma variants',
 'C20-4': 'first missed: accumulation histories (40-120 repetitions of one input, nine kinds that leave a parenthesis open) and extreme single inputs added',
}

def main():
    res = {}
    for l in open('/verif/seeded/RESULTS.tsv').read().splitlines()[1:]:
        s, p, rc, v = l.split('\t'); res[s] = (rc, v)
    n = len(res); caught = sum(1 for rc, v in res.values() if rc == '1'); inp = sum(1 for rc, v in res.values() if rc == '1' and 'no-failing' not in v)
    out = ["### 0.5 Seeded changes and which checks catch them", "",
    "Every seeded change below compiles, leaves the pinned suite at 648 passed / 10 xfailed / 4 errors, and was confirmed in a scratch worktree (its own `demo.py` passes on HEAD and fails with the patch;",
    "`harness/confirm_seed.sh`). They were written in fifteen rounds (the last one for eight properties only) by fresh sub-agents that saw only the property text, a scratch worktree of /repo and (from round 2 on) one-line summaries of the",
    "earlier seeds for the same property so as to differ in mechanism - nothing from /verif. `harness/seed_matrix.sh` applies each in an isolated scratch worktree, runs the quick check of its",
    f"property in a scratch copy of /verif and writes `seeded/RESULTS.tsv`: {caught} of {n} are reported, {inp} with a failing input. Where a change was first missed (or caught only through a broken",
    "tie), the generator or the judge was strengthened (last column, regenerated by `harness/mkseedtable.py`) - the properties and the pass criteria were not touched. First-time detection per round",
    "(own check, before any strengthening): rounds 1-2 (47 seeds): the first misses are the ones marked in the last column (C03-3, C08-3, C12-2, C12-3, C12-4); round 3 (11 seeds): 7 with a failing input,",
    "1 through the tie only, 3 missed; round 4 (20 seeds): 8 with a failing input, 3 through the tie only, 9 missed; round 5 (20 seeds): 10 with a failing input, 2 through the tie only, 7 missed, 1 crashed the translator; round 6 (20 seeds): 11 with a failing input, 3 through the tie only, 6 missed; round 7 (20 seeds): 13 with a failing input, 4 through the tie only, 3 missed; round 8 (20 seeds): 12 with a failing input, 1 through the tie only, 7 missed; round 9 (20 seeds): 13 with a failing input, 7 missed; round 10 (20 seeds): 8 with a failing input, 5 through the tie only, 7 missed; round 11 (20 seeds): 11 with a failing input, 9 missed; round 12 (20 seeds): 5 with a failing input, 3 through the tie only, 12 missed; round 13 (20 seeds): 13 with a failing input, 2 through the tie only, 5 missed; round 14 (20 seeds): 13 with a failing input, 1 through the tie only, 6 missed; round 15 (8 seeds, the properties with the most recent misses): 4 with a failing input, 4 missed; round 16 (12 seeds: C05 C06 C07 C09 C11 C12 C13 C14 C16 C17 C18 C20): 9 with a failing input, 3 missed - rounds 3 to 16 were asked to avoid every mechanism used before, and each miss named a",
    "blind spot of a GENERATOR or of a judge's scope (literal spellings, type-confusable contents, sequences on one instance, accumulation, an over-broad refusal rule, a schema feature), never of a theorem.", "",
    "| seed | file(s) | what it changes | caught by | note |", "|---|---|---|---|---|"]
    for d in sorted(glob.glob('/verif/seeded/*/')):
        s = os.path.basename(d.rstrip('/'))
        if not os.path.exists(d + 'meta.json'):
            continue
        m = json.load(open(d + 'meta.json'))
        files = m.get('files_changed') or sorted(set(re.findall(r'^\+\+\+ b/(.*)$', open(d + 'patch.diff').read(), re.M)))
        summ = (m.get('summary') or '').replace('|', '/').replace('\n', ' ')
        summ = summ[:230] + ('…' if len(summ) > 230 else '')
        rc, v = res.get(s, ('?', '?'))
        c = (s[:3] + ' quick' + (' (tie only)' if 'no-failing' in v else '')) if rc == '1' else 'NOT CAUGHT'
        out.append(f"| {s} | {', '.join(x.replace('odata_query/', '') for x in files)} | {summ} | {c} | {NOTES.get(s, '')} |")
    out += ["", "Seeds that went stale because the defect they were planted next to was repaired (`C12-1`, `C19-2`: after fix 531c925 the lexer normalises the datetime spelling, so the planted",
            "lower-case `z` bug can no longer manifest) were removed; the sequence numbers are kept.", ""]
    p = '/verif/DESIGN.md'
    s = open(p).read()
    i = s.index("### 0.5 Seeded changes and which checks catch them")
    j = s.index("---------------------------------------------------------------------------------------------", i)
    k = s.find("### 0.6", i)
    if 0 < k < j:
        j = k
    s = s[:i] + "\n".join(out) + "\n" + s[j:]
    open(p, 'w').write(s)
    print(n, caught, inp)

if __name__ == "__main__":
    main()
