#!/bin/bash
# usage: harness/confirm_seed.sh <dir with patch.diff demo.py meta.json> <name>
# Confirms in a scratch worktree: demo passes on HEAD, patch applies, suite = baseline, demo fails with patch.
# On success copies to /verif/seeded/<name>/ and records what was run.
set -u
d="$1"; name="$2"
wt=$(mktemp -d /tmp/confirm-XXXXXX)
rmdir "$wt"
git -C /repo worktree add --detach "$wt" HEAD >/dev/null 2>&1 || { echo "worktree failed"; exit 3; }
cleanup() { git -C /repo worktree remove --force "$wt" >/dev/null 2>&1; rm -rf "$wt"; }
trap cleanup EXIT
cd "$wt"
cp "$d/demo.py" "$wt/_demo.py"
PYTHONPATH="$wt" /venv/bin/python _demo.py >/tmp/confirm-clean.$$ 2>&1; rc_clean=$?
git apply "$d/patch.diff" || { echo "CONFIRM $name: patch does not apply"; exit 4; }
suite=$(PYTHONPATH="$wt" /venv/bin/python -m pytest -q -p no:cacheprovider --no-cov --continue-on-collection-errors 2>&1 | tail -1)
PYTHONPATH="$wt" /venv/bin/python _demo.py >/tmp/confirm-mut.$$ 2>&1; rc_mut=$?
ok=1
[ "$rc_clean" = 0 ] || ok=0
[ "$rc_mut" != 0 ] || ok=0
echo "$suite" | grep -q "648 passed, 10 xfailed, 4 errors" || ok=0
echo "CONFIRM $name: clean_rc=$rc_clean mutated_rc=$rc_mut suite='$suite' ok=$ok"
if [ "$ok" = 1 ]; then
  mkdir -p "/verif/seeded/$name"
  cp "$d/patch.diff" "$d/demo.py" "/verif/seeded/$name/"
  /venv/bin/python - "$d/meta.json" "/verif/seeded/$name/meta.json" "$suite" "$rc_clean" "$rc_mut" <<'PY'
import json, sys
src, dst, suite, rc_clean, rc_mut = sys.argv[1:6]
try:
    m = json.load(open(src))
except Exception:
    m = {}
m["confirmed"] = {"in": "scratch git worktree of /repo HEAD (removed afterwards)",
                  "demo_on_clean_tree_exit": int(rc_clean), "demo_on_patched_tree_exit": int(rc_mut),
                  "suite_on_patched_tree": suite}
json.dump(m, open(dst, "w"), indent=1)
PY
fi
rm -f /tmp/confirm-clean.$$ /tmp/confirm-mut.$$
