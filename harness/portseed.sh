#!/bin/bash
# usage: portseed.sh <seed id>  : re-creates the seed's patch on /repo HEAD with 3-way apply; verifies demo + suite; updates seeded/<id>/patch.diff
s=$1
rm -rf /tmp/wt-port; git -C /repo worktree prune; git -C /repo worktree add --detach /tmp/wt-port HEAD >/dev/null 2>&1
cd /tmp/wt-port
if ! git apply -3 /verif/seeded/$s/patch.diff 2>/tmp/port.err; then echo "PORT $s: 3-way apply failed: $(tail -2 /tmp/port.err | tr '\n' ' ')"; cd /; git -C /repo worktree remove --force /tmp/wt-port; exit 1; fi
if git diff --name-only --diff-filter=U | grep -q .; then echo "PORT $s: conflicts"; git diff | head -40; cd /; git -C /repo worktree remove --force /tmp/wt-port; exit 1; fi
git diff HEAD > /tmp/port.new
git reset -q --hard HEAD; git apply /tmp/port.new
PYTHONPATH=/tmp/wt-port /venv/bin/python /verif/seeded/$s/demo.py >/dev/null 2>&1; d1=$?
suite=$(PYTHONPATH=/tmp/wt-port /venv/bin/python -m pytest -q -p no:cacheprovider --no-cov --continue-on-collection-errors 2>&1 | tail -1)
git checkout -- .
PYTHONPATH=/tmp/wt-port /venv/bin/python /verif/seeded/$s/demo.py >/dev/null 2>&1; d0=$?
echo "PORT $s: demo clean=$d0 patched=$d1 suite='$suite'"
if [ "$d0" = 0 ] && [ "$d1" != 0 ] && echo "$suite" | grep -q "648 passed, 10 xfailed, 4 errors"; then cp /tmp/port.new /verif/seeded/$s/patch.diff; echo "PORT $s: updated"; fi
cd /; git -C /repo worktree remove --force /tmp/wt-port
