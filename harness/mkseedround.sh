#!/bin/bash
# prepares worktrees + prompts for a new seed round
for i in ${SEEDPROPS:-$(seq -w 1 20)}; do
  pid=C$i
  rm -rf /tmp/seedout-$pid; mkdir -p /tmp/seedout-$pid
  git -C /repo worktree remove --force /tmp/wt-$pid >/dev/null 2>&1; rm -rf /tmp/wt-$pid
  git -C /repo worktree add --detach /tmp/wt-$pid HEAD >/dev/null 2>&1
  extra=$(/venv/bin/python - $pid <<'PY'
import json, glob, sys
pid = sys.argv[1]
print("## Changes other people have already made for this property (do something DIFFERENT in mechanism and location; prefer a clause of the statement or a part of the quantifier none of them touches; interactions between two features, unusual-but-legal spellings, state carried between calls, behaviour at boundaries, and code paths only one backend / dialect / entry style takes are good places to look)")
for d in sorted(glob.glob(f"/verif/seeded/{pid}-*/meta.json")):
    try:
        print("- " + json.load(open(d))["summary"][:200].replace("\n", " "))
    except Exception:
        pass
PY
)
  /venv/bin/python /verif/harness/seed_prompt.py $pid /tmp/wt-$pid /tmp/seedout-$pid "$extra" > /tmp/seedprompt-$pid.txt
done
git -C /repo worktree list | wc -l
