"""Adapters for the ORM backends (Django Q, SQLAlchemy ORM, SQLAlchemy Core): run the real visitor /
shorthand on an AST or a filter text, compile (never execute unless asked) and canonicalise the outcome."""
import dbenv, impl
from odata_query import ast, exceptions as ex

INTERNAL = ("AttributeError", "TypeError", "KeyError", "IndexError", "NotImplementedError", "ValueError", "AssertionError",
            "RecursionError", "UnboundLocalError", "NameError", "ZeroDivisionError", "StopIteration")

def canon(e):
    """library exception -> 'lib …' ; NotImplementedError -> 'notimpl' ; environment (Django / SQLAlchemy / sqlite3) exception -> 'env:<Class>' ;
    anything else -> 'foreign <Class>'"""
    if isinstance(e, ex.ODataException):
        return impl.canon_exc(e)
    if isinstance(e, NotImplementedError):
        return "notimpl"
    mod = type(e).__module__ or ""
    if type(e).__name__ in INTERNAL or mod == "builtins":
        return "foreign " + type(e).__name__
    if mod.startswith("django") or mod.startswith("sqlalchemy") or mod.startswith("sqlite3"):
        return "env:" + type(e).__name__
    return "foreign " + type(e).__name__

# ------------------------------------------------------------------ Django
def django_build(node, model="T"):
    """-> (outcome, queryset or None)"""
    env = dbenv.django_env()
    from odata_query.django.django_q import AstToDjangoQVisitor
    M = env[model]
    try:
        v = AstToDjangoQVisitor(M)
        q = v.visit(node)
        qs = M.objects.all()
        if v.queryset_annotations:
            qs = qs.annotate(**v.queryset_annotations)
        qs = qs.filter(q)
        return "ok", qs
    except Exception as e:  # noqa
        return canon(e), None

def django_compile(node, model="T"):
    out, qs = django_build(node, model)
    if qs is None:
        return out, None, None
    try:
        sql, params = qs.query.sql_with_params()
        return "ok", sql, list(params)
    except Exception as e:  # noqa
        return canon(e), None, None

def django_ids(node, model="T"):
    out, qs = django_build(node, model)
    if qs is None:
        return out
    try:
        return "ids " + " ".join(str(i) for i in sorted(set(qs.values_list("id", flat=True))))
    except Exception as e:  # noqa
        return canon(e)

# ------------------------------------------------------------------ SQLAlchemy
def sa_build(node, style="orm", model="T"):
    """style: orm (select(Model)), legacy (session.query(Model)), core (select(table)) -> (outcome, statement, session?)"""
    env = dbenv.sa_env(); sa = env["sa"]
    from odata_query.sqlalchemy.orm import AstToSqlAlchemyOrmVisitor
    from odata_query.sqlalchemy.core import AstToSqlAlchemyCoreVisitor
    from odata_query.sqlalchemy.shorthand import _get_joined_attrs
    M = env[model]
    try:
        if style == "core":
            tbl = M.__table__
            clause = AstToSqlAlchemyCoreVisitor(tbl).visit(node)
            return "ok", sa.select(tbl).filter(clause)
        v = AstToSqlAlchemyOrmVisitor(M)
        clause = v.visit(node)
        q = sa.select(M)
        existing = _get_joined_attrs(q)
        for rj in v.join_relationships:
            if str(rj) not in existing and str(rj.key) not in existing:
                q = q.join(rj)
                existing = _get_joined_attrs(q)
        return "ok", q.filter(clause)
    except Exception as e:  # noqa
        return canon(e), None

def sa_compile(node, style="orm", model="T"):
    out, stmt = sa_build(node, style, model)
    if stmt is None:
        return out, None, None
    env = dbenv.sa_env()
    try:
        c = stmt.compile(dialect=env["engine"].dialect)
        return "ok", str(c), dict(c.params)
    except Exception as e:  # noqa
        return canon(e), None, None

def sa_ids(node, style="orm", model="T"):
    out, stmt = sa_build(node, style, model)
    if stmt is None:
        return out
    env = dbenv.sa_env()
    try:
        with env["engine"].connect() as c:
            rows = c.execute(stmt).fetchall()
        return "ids " + " ".join(str(i) for i in sorted({r[0] for r in rows}))
    except Exception as e:  # noqa
        return canon(e)

# ------------------------------------------------------------------ shorthands on filter TEXT (the public entry points)
def dj_shorthand(text, model="T", base=None):
    env = dbenv.django_env()
    from odata_query.django import apply_odata_query
    M = env[model]
    qs = base if base is not None else M.objects.all()
    try:
        return "ok", apply_odata_query(qs, text)
    except Exception as e:  # noqa
        return canon(e), None

def dj_shorthand_ids(text, model="T", base=None):
    out, qs = dj_shorthand(text, model, base)
    if qs is None:
        return out
    try:
        return "ids " + " ".join(str(i) for i in sorted(set(qs.values_list("id", flat=True))))
    except Exception as e:  # noqa
        return canon(e)

def dj_shorthand_sql(text, model="T"):
    out, qs = dj_shorthand(text, model)
    if qs is None:
        return out, None, None
    try:
        sql, params = qs.query.sql_with_params()
        return "ok", sql, list(params)
    except Exception as e:  # noqa
        return canon(e), None, None

_sessions = {}
def sa_session():
    env = dbenv.sa_env()
    if "s" not in _sessions:
        _sessions["s"] = env["Session"](env["engine"])
    return _sessions["s"]

def sa_shorthand(text, style="orm", model="T", base=None):
    """style: orm = apply_odata_query(select(Model)), legacy = apply_odata_query(session.query(Model)), core = apply_odata_core(select(table))"""
    env = dbenv.sa_env(); sa = env["sa"]
    from odata_query.sqlalchemy import apply_odata_core, apply_odata_query
    M = env[model]
    try:
        if style == "core":
            q = base if base is not None else sa.select(M.__table__)
            return "ok", apply_odata_core(q, text)
        if style == "legacy":
            q = base if base is not None else sa_session().query(M)
            return "ok", apply_odata_query(q, text)
        q = base if base is not None else sa.select(M)
        return "ok", apply_odata_query(q, text)
    except Exception as e:  # noqa
        return canon(e), None

def sa_shorthand_ids(text, style="orm", model="T", base=None):
    out, q = sa_shorthand(text, style, model, base)
    if q is None:
        return out
    env = dbenv.sa_env()
    try:
        if style == "legacy":
            rows = [(r.id,) for r in q.all()]
        else:
            with env["engine"].connect() as c:
                rows = c.execute(q).fetchall()
            if style == "orm":
                rows = [(r[0],) if not hasattr(r[0], "id") else (r[0].id,) for r in rows]
        return "ids " + " ".join(str(i) for i in sorted({r[0] for r in rows}))
    except Exception as e:  # noqa
        return canon(e)

def sa_shorthand_sql(text, style="orm", model="T"):
    """-> (outcome, sql text as sent to the driver (post-compile parameters rendered), params)"""
    out, q = sa_shorthand(text, style, model)
    if q is None:
        return out, None, None
    env = dbenv.sa_env()
    try:
        stmt = q.statement if style == "legacy" else q
        c = stmt.compile(dialect=env["engine"].dialect, compile_kwargs={"render_postcompile": True})
        return "ok", str(c), dict(c.params)
    except Exception as e:  # noqa
        return canon(e), None, None
