"""Seeded generators and enumerators (one PRNG per check, VERIF_SEED) — DESIGN Appendix C."""
import itertools, random

# lexical atoms chosen to hit every rule boundary of the lexer and every production of the grammar
ATOMS = [
    "a", "b.c", "x1", "foo", "concat", "now", "length", "substring", "geo.length", "f.g", "any", "all", "not ", "not",
    "1", "-2", "1.5", "'s'", "'it''s'", "true", "null", "2020-01-01", "12:30:00", "2020-01-01T10:00Z",
    "duration'P1D'", "geography'P'", "01234567-89ab-cdef-0123-456789abcdef",
    " add ", " sub ", " mul ", " div ", " mod ", " eq ", " ne ", " lt ", " le ", " gt ", " ge ", " and ", " or ", " in ",
    "-", " ", "(", ")", ",", "/", ":", "=", "½", "'",
]
ATOMS_SMALL = ["a", "foo", "concat", "now", "f.g", "any", "all", "not ", "1", "'s'", "null",
               " add ", " mul ", " eq ", " lt ", " and ", " or ", " in ", "-", " ", "(", ")", ",", "/", ":", "=", "½"]

def atom_sequences(k, atoms=ATOMS):
    for n in range(0, k + 1):
        for seq in itertools.product(atoms, repeat=n):
            yield "".join(seq)

VALID_FILTERS = [
    "a eq 1", "a eq 'x' and b ne null", "not (a gt 3) or b le -2", "a add 1 mul 2 sub 3 div 4 mod 5 eq 0",
    "a in (1, 2, 3)", "a in ('x',)", "contains(name, 'abc') eq true", "startswith(tolower(name), 'ab')",
    "substring(name, 1, 2) eq 'bc'", "length(name) gt 3", "indexof(name, 'x') eq -1", "concat(a, b) eq 'ab'",
    "year(d) eq 2020 and month(d) lt 6", "d gt 2020-01-01", "t eq 2020-01-01T10:00:00Z", "tm eq 12:30:00",
    "dur eq duration'P1DT2H'", "id eq 01234567-89ab-cdef-0123-456789abcdef", "a/b/c eq 1",
    "kids/any(k: k/x eq 2)", "kids/all(k: k/x gt 0 and k/y eq 'z')", "kids/any()", "o/kids/any(k: k/tags/any(t: t/label eq 'l'))",
    "f.g(x=1, y='a')", "ns.fn(1, 2, 3)", "geo.distance(loc, geography'POINT(1 2)') lt 5", "- a eq 1", "-(a add b) lt 0",
    "not contains(a, 'b')", "(a eq 1 or b eq 2) and (c eq 3 or d eq 4)", "a eq 1.5e3", "now() gt d", "round(x) eq 2",
    "trim(a) eq 'b'", "(1, 2) eq x", "a eq (b)", "hassubset(a, (1,2))", "b eq true", "b eq false", "nullable eq anything",
]

def mutate(rng, s):
    """token-level mutation of a filter text"""
    import re
    parts = re.findall(r"\s+|\w+|.", s)
    if not parts:
        return s
    op = rng.randrange(5)
    i = rng.randrange(len(parts))
    if op == 0:
        del parts[i]
    elif op == 1:
        parts.insert(i, rng.choice(ATOMS))
    elif op == 2 and len(parts) > 1:
        j = rng.randrange(len(parts)); parts[i], parts[j] = parts[j], parts[i]
    elif op == 3:
        parts.insert(i, parts[i])
    else:
        parts[i] = rng.choice(ATOMS)
    return "".join(parts)

def random_unicode(rng, n):
    pools = ["abcxyzEQ nd'(),/:=-+.0123456789", "ıİſK  ٠١é½\t\n", "truefalsenullanyallnotindivmod"]
    out = []
    for _ in range(n):
        p = rng.choice(pools)
        out.append(rng.choice(p))
    return "".join(out)
