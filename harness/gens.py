"""Seeded generators and enumerators (one PRNG per check, VERIF_SEED) — DESIGN Appendix C."""
import itertools, random

# lexical atoms chosen to hit every rule boundary of the lexer and every production of the grammar
ATOMS = [
    "a", "b.c", "x1", "foo", "concat", "now", "length", "substring", "geo.length", "f.g", "any", "all", "not ", "not",
    "1", "-2", "1.5", "'s'", "'it''s'", "true", "null", "2020-01-01", "12:30:00", "2020-01-01T10:00Z",
    "duration'P1D'", "geography'P'", "01234567-89ab-cdef-0123-456789abcdef",
    " add ", " sub ", " mul ", " div ", " mod ", " eq ", " ne ", " lt ", " le ", " gt ", " ge ", " and ", " or ", " in ",
    "-", " ", "(", ")", ",", "/", ":", "=", "½", "'",
]
ATOMS_SMALL = ["a", "foo", "concat", "now", "f.g", "any", "all", "not ", "1", "'s'", "null",
               " add ", " mul ", " eq ", " lt ", " and ", " or ", " in ", "-", " ", "(", ")", ",", "/", ":", "=", "½"]

def atom_sequences(k, atoms=ATOMS):
    for n in range(0, k + 1):
        for seq in itertools.product(atoms, repeat=n):
            yield "".join(seq)

VALID_FILTERS = [
    "a eq 1", "a eq 'x' and b ne null", "not (a gt 3) or b le -2", "a add 1 mul 2 sub 3 div 4 mod 5 eq 0",
    "a in (1, 2, 3)", "a in ('x',)", "contains(name, 'abc') eq true", "startswith(tolower(name), 'ab')",
    "substring(name, 1, 2) eq 'bc'", "length(name) gt 3", "indexof(name, 'x') eq -1", "concat(a, b) eq 'ab'",
    "year(d) eq 2020 and month(d) lt 6", "d gt 2020-01-01", "t eq 2020-01-01T10:00:00Z", "tm eq 12:30:00",
    "dur eq duration'P1DT2H'", "id eq 01234567-89ab-cdef-0123-456789abcdef", "a/b/c eq 1",
    "kids/any(k: k/x eq 2)", "kids/all(k: k/x gt 0 and k/y eq 'z')", "kids/any()", "o/kids/any(k: k/tags/any(t: t/label eq 'l'))",
    "f.g(x=1, y='a')", "ns.fn(1, 2, 3)", "geo.distance(loc, geography'POINT(1 2)') lt 5", "- a eq 1", "-(a add b) lt 0",
    "not contains(a, 'b')", "(a eq 1 or b eq 2) and (c eq 3 or d eq 4)", "a eq 1.5e3", "now() gt d", "round(x) eq 2",
    "trim(a) eq 'b'", "(1, 2) eq x", "a eq (b)", "hassubset(a, (1,2))", "b eq true", "b eq false", "nullable eq anything",
]

def mutate(rng, s):
    """token-level mutation of a filter text"""
    import re
    parts = re.findall(r"\s+|\w+|.", s)
    if not parts:
        return s
    op = rng.randrange(5)
    i = rng.randrange(len(parts))
    if op == 0:
        del parts[i]
    elif op == 1:
        parts.insert(i, rng.choice(ATOMS))
    elif op == 2 and len(parts) > 1:
        j = rng.randrange(len(parts)); parts[i], parts[j] = parts[j], parts[i]
    elif op == 3:
        parts.insert(i, parts[i])
    else:
        parts[i] = rng.choice(ATOMS)
    return "".join(parts)

def random_unicode(rng, n):
    pools = ["abcxyzEQ nd'(),/:=-+.0123456789", "ıİſK  ٠١é½\t\n", "truefalsenullanyallnotindivmod"]
    out = []
    for _ in range(n):
        p = rng.choice(pools)
        out.append(rng.choice(p))
    return "".join(out)


# Letters that CPython's re.IGNORECASE treats as case variants of an ASCII letter but that str.lower()/upper() do not map back
# (U+017F long s, U+0131 dotless i, U+0130 dotted I, U+212A Kelvin sign): a keyword spelled with one of them still matches the
# lexer's rule, and whatever the action then does with the matched text sees a non-ASCII spelling.
CASE_TWINS = {"s": ["\u017f"], "S": ["\u017f"], "i": ["\u0131", "\u0130"], "I": ["\u0131", "\u0130"], "k": ["\u212a"], "K": ["\u212a"]}

def source_names():
    """identifier-like string constants of the library's own parser / AST modules (function tables, keyword lists, special cases): whatever name the
    code singles out is worth trying as a function and as a field — the dictionary comes from the code under test, re-read on every run"""
    import ast as pyast, inspect, re
    from odata_query import grammar, ast as oast, typing as otyping
    out = []
    for mod in (grammar, oast, otyping):
        try:
            tree = pyast.parse(inspect.getsource(mod))
        except Exception:  # noqa
            continue
        for n in pyast.walk(tree):
            if isinstance(n, pyast.Constant) and isinstance(n.value, str) and re.fullmatch(r"[A-Za-z_][A-Za-z0-9_]*(\.[A-Za-z_][A-Za-z0-9_]*)?", n.value) and len(n.value) <= 40:
                out.append(n.value)
    return list(dict.fromkeys(out))

def unicode_case_variants(text):
    """every single-letter respelling of `text` with a Unicode case twin, outside string literals"""
    out, inside = [], False
    for i, c in enumerate(text):
        if c == "'":
            inside = not inside
        elif not inside and c in CASE_TWINS:
            for t in CASE_TWINS[c]:
                out.append(text[:i] + t + text[i + 1:])
    return out

KEYWORD_FILTERS = ["a sub 1 eq 2", "a div 2 eq 1", "a mul 2 lt 3", "a is null", "a in (1, 2)", "x/kids/any(k: k/x eq 1)", "x/all(k: k eq 1)", "a lt 1", "a ge 1", "not b1",
                   "b1 eq false", "x eq duration'P1DT1S'", "geo.intersects(a, geography'POINT(1 2)')", "substring(s, 1) eq 'x'", "tolower(s) eq 'k'", "indexof(s, 'k') eq 1",
                   "startswith(s, 'k')", "endswith(s, 'i')", "contains(s, 'S')", "second(t) eq 1", "minute(t) eq 1", "totalseconds(d) gt 1", "fractionalseconds(t) lt 1",
                   "ceiling(x) eq 1", "floor(x) eq 1", "trim(s) eq s", "hassubset(a, b)", "hassubsequence(a, b)", "maxdatetime() gt t", "mindatetime() lt t", "time(t) eq 01:02:03",
                   "x eq 2020-01-01T01:02:03Z", "x eq 1e5", "x eq -INF", "x eq NaN"]

# literal spellings whose content needs quoting care, as TEXT (parsed by the real parser in the round-trip checks)
QUOTED_LITERAL_FILTERS = ["geo.intersects(a, geography'it''s')", "geography'a''''b' eq x", "x eq geography''''", "x eq geography''", "name eq 'it''s'", "name eq ''''",
                          "name eq 'a''''b' and geography'''x''' ne y", "f.g(p=geography'q''r', s='t''u')", "x in (geography'a''b', 'c''d', '''')",
                          "d eq DURATION'p1dt2h' or d eq duration'-PT0.5S'", "k/any(v: v eq geography'L''Aquila POINT(1 2)')",
                          "tags/any(row.t: row.t eq 'a')", "a/b/all(ns.v: ns.v/x gt 1 and c/any(m.w: m.w eq ns.v/y))", "n.a/any(n.a: n.a eq 1)"]
