"""Random ASTs from the full grammar (every node kind the parser can produce, lists inside lists,
optional lambda bodies, named parameters) — untyped; DESIGN Appendix C."""
from odata_query import ast

NAMES = ["a", "b", "c", "x", "y", "t", "name", "date", "time", "year", "length", "nullable", "anything", "inside", "k1", "_u"]
NSNAMES = [("ns",), ("a", "b"), ("geo",)]
LITS = [
    lambda r: ast.Null(),
    lambda r: ast.Integer(r.choice(["0", "1", "42", "-7", "+3", "007"])),
    lambda r: ast.Float(r.choice(["1.5", "-0.25", "1e3", "2.5E-2", "3.0e+1"])),
    lambda r: ast.Boolean(r.choice(["true", "false", "TRUE", "False"])),
    lambda r: ast.String(r.choice(["", "a", "O'B", "it''s", "100%", "a_c", "x y", "é", "'"])),
    lambda r: ast.Geography(r.choice(["POINT(1 2)", "SRID=4326;POINT(0 0)", "", "it''s", "a''''b", "''"])),     # the lexer keeps the text between the quotes as written
    lambda r: ast.Date(r.choice(["2020-01-01", "1999-12-31"])),
    lambda r: ast.Time(r.choice(["12:30:00", "00:00:00.123"])),
    lambda r: ast.DateTime(r.choice(["2020-01-01T10:00:00Z", "2020-01-01T10:00", "2020-01-01T10:00:00.5+01:00"])),
    lambda r: ast.Duration(r.choice(["P1D", "-PT2H3M", "P1Y2M3DT4H5M6.5S", "+P1M"])),
    lambda r: ast.GUID(r.choice(["01234567-89ab-cdef-0123-456789abcdef", "AAAAAAAA-BBBB-CCCC-DDDD-EEEEEEEEEEEE"])),
]
ARITH = [ast.Add, ast.Sub, ast.Mult, ast.Div, ast.Mod]
CMP = [ast.Eq, ast.NotEq, ast.Lt, ast.LtE, ast.Gt, ast.GtE]
BUILTINS = {"concat": 2, "contains": 2, "length": 1, "tolower": 1, "substring": 3, "now": 0, "date": 1, "year": 1, "round": 1, "time": 1}

class AstGen:
    def __init__(self, rng, names=None):
        self.rng = rng
        self.names = names or NAMES

    def ident(self, allow_ns=True):
        r = self.rng
        if allow_ns and r.random() < 0.1:
            return ast.Identifier(r.choice(self.names), r.choice(NSNAMES))
        return ast.Identifier(r.choice(self.names))

    def path(self, maxlen=4):
        r = self.rng
        n = r.randint(1, maxlen)
        # NOTE: the parser keeps a namespace only on the head of a two-segment path
        e = self.ident(allow_ns=(n <= 1))
        for _ in range(n):
            e = ast.Attribute(e, r.choice(self.names))
        return e

    def lit(self):
        return self.rng.choice(LITS)(self.rng)

    def gen(self, d):
        r = self.rng
        if d <= 0:
            k = r.choice(["lit", "lit", "ident", "ident", "path"])
        else:
            k = r.choice(["lit", "ident", "path", "list", "binop", "binop", "compare", "compare", "in", "boolop", "boolop",
                          "not", "neg", "call", "call", "nscall", "named", "coll", "coll"])
        if k == "lit":
            return self.lit()
        if k == "ident":
            return self.ident()
        if k == "path":
            return self.path()
        if k == "list":
            return ast.List([self.gen(d - 1) for _ in range(r.randint(1, 3))])
        if k == "binop":
            return ast.BinOp(r.choice(ARITH)(), self.gen(d - 1), self.gen(d - 1))
        if k == "compare":
            return ast.Compare(r.choice(CMP)(), self.gen(d - 1), self.gen(d - 1))
        if k == "in":
            return ast.Compare(ast.In(), self.gen(d - 1), ast.List([self.gen(d - 1) for _ in range(r.randint(1, 3))]))
        if k == "boolop":
            return ast.BoolOp(r.choice([ast.And, ast.Or])(), self.gen(d - 1), self.gen(d - 1))
        if k == "not":
            return ast.UnaryOp(ast.Not(), self.gen(d - 1))
        if k == "neg":
            return ast.UnaryOp(ast.USub(), self.gen(d - 1))
        if k == "call":
            f = r.choice(list(BUILTINS))
            n = BUILTINS[f] if f != "substring" else r.choice([2, 3])
            return ast.Call(ast.Identifier(f), [self.gen(d - 1) for _ in range(n)])
        if k == "nscall":
            return ast.Call(ast.Identifier(r.choice(["f", "g", "date", "x"]), r.choice([("ns",), ("my", "lib")])),
                            [self.gen(d - 1) for _ in range(r.randint(0, 3))])
        if k == "named":
            n = r.randint(1, 3)
            return ast.Call(ast.Identifier(r.choice(["f", "g"]), ("ns",)),
                            [ast.NamedParam(ast.Identifier(r.choice(self.names)), self.gen(d - 1)) for _ in range(n)])
        # collection lambda
        owner = self.ident(allow_ns=False) if r.random() < 0.5 else self.path(3)
        if isinstance(owner, ast.Identifier) and owner.namespace:
            owner = ast.Identifier(owner.name)
        op = r.choice(["any", "any", "all"])
        if op == "any" and r.random() < 0.25:
            return ast.CollectionLambda(owner, ast.Any(), None)
        v = ast.Identifier(r.choice(["t", "x", "k1", "v"]), r.choice([(), (), (), ("row",), ("a", "b")]))     # the parser admits a dotted range variable
        body = self.gen(d - 1)
        if r.random() < 0.7:
            body = ast.Compare(r.choice(CMP)(), ast.Attribute(v, r.choice(self.names)), body)
        return ast.CollectionLambda(owner, ast.Any() if op == "any" else ast.All(), ast.Lambda(v, body))
