"""Client for the Lean model driver (lean/Driver.lean, line protocol)."""
import os, subprocess

LEAN_DIR = os.path.join(os.path.dirname(os.path.abspath(__file__)), "..", "lean")
DRIVER_EXE = os.path.join(LEAN_DIR, ".lake", "build", "bin", "driver")

def run_batch(lines, timeout=3600):
    """lines: list of tab-joined requests -> list of answers (same order)."""
    if not lines:
        return []
    inp = "\n".join(lines) + "\n"
    p = subprocess.run([DRIVER_EXE], input=inp.encode(), stdout=subprocess.PIPE,
                       stderr=subprocess.PIPE, timeout=timeout)
    if p.returncode != 0:
        raise RuntimeError(f"driver failed rc={p.returncode}: {p.stderr.decode()[:2000]}")
    out = p.stdout.decode().split("\n")
    if out and out[-1] == "":
        out.pop()
    if len(out) != len(lines):
        raise RuntimeError(f"driver answered {len(out)} lines for {len(lines)} requests; stderr={p.stderr.decode()[:500]}")
    return out

def req(cmd, *args):
    return "\t".join((cmd,) + args)
