"""Database environments used by the semantic checks (DESIGN Appendix C): the same schema realised three
times — raw sqlite3 DDL, a Django app (configured in-process, in-memory SQLite) and SQLAlchemy declarative
models + Core tables — plus loaders that put the same rows into each.

scalar table  t(id, i1, i2, f1, s1, s2, b1, d1, dt1)            all nullable
relational    o(id, n, name) ; p(id, a, s, o_id -> o NULL) ; k(id, x, p_id -> p, o_id -> o NULL) ; tag(id, label) ; p_tags(p_id, tag_id)
"""
import datetime as dt, sqlite3, sys, types

SCALAR_COLS = ["i1", "i2", "f1", "s1", "s2", "b1", "d1", "dt1"]

# ------------------------------------------------------------------ raw sqlite3
def sqlite_scalar(rows):
    c = sqlite3.connect(":memory:")
    c.execute("CREATE TABLE t (id INTEGER PRIMARY KEY, i1 INTEGER, i2 INTEGER, f1 REAL, s1 TEXT, s2 TEXT, b1 BOOLEAN, d1 DATE, dt1 DATETIME)")
    for r in rows:
        c.execute("INSERT INTO t (id, i1, i2, f1, s1, s2, b1, d1, dt1) VALUES (?,?,?,?,?,?,?,?,?)",
                  (r["id"], r.get("i1"), r.get("i2"), r.get("f1"), r.get("s1"), r.get("s2"), r.get("b1"),
                   r["d1"].isoformat() if r.get("d1") else None,
                   r["dt1"].strftime("%Y-%m-%d %H:%M:%S") if r.get("dt1") else None))
    return c

# ------------------------------------------------------------------ Django
_dj = {}
def django_env():
    if _dj:
        return _dj
    import django
    from django.conf import settings
    if not settings.configured:
        settings.configure(INSTALLED_APPS=["vapp"], DATABASES={"default": {"ENGINE": "django.db.backends.sqlite3", "NAME": ":memory:"}},
                           DEFAULT_AUTO_FIELD="django.db.models.AutoField", USE_TZ=True, TIME_ZONE="UTC")
    import os
    here = os.path.dirname(os.path.abspath(__file__))
    if here not in sys.path:
        sys.path.insert(0, here)
    django.setup()
    from django.db import models, connection
    class T(models.Model):
        i1 = models.IntegerField(null=True); i2 = models.IntegerField(null=True); f1 = models.FloatField(null=True)
        s1 = models.CharField(max_length=200, null=True); s2 = models.CharField(max_length=200, null=True)
        b1 = models.BooleanField(null=True); d1 = models.DateField(null=True); dt1 = models.DateTimeField(null=True)
        class Meta:
            app_label = "vapp"; db_table = "t"
    class O(models.Model):
        n = models.IntegerField(null=True); name = models.CharField(max_length=50, null=True)
        class Meta:
            app_label = "vapp"; db_table = "o"
    class Tag(models.Model):
        label = models.CharField(max_length=50, null=True)
        class Meta:
            app_label = "vapp"; db_table = "tag"
    class W(models.Model):
        # a second relationship called `o`, to a DIFFERENT model (Tag): W.o -> Tag, while P.o -> O
        o = models.ForeignKey(Tag, null=True, on_delete=models.CASCADE, related_name="ws")
        class Meta:
            app_label = "vapp"; db_table = "w"
    class D(models.Model):
        # referenced through its unique NATURAL key `number`, not its primary key (P.dept: to_field="number")
        number = models.IntegerField(unique=True); title = models.CharField(max_length=50, null=True)
        class Meta:
            app_label = "vapp"; db_table = "d"
    class LiveManager(models.Manager):
        """a secondary manager with conditions of its own (C15: a Manager is a base query too)"""
        def get_queryset(self):
            return super().get_queryset().filter(a__gte=0)
    class P(models.Model):
        objects = models.Manager()
        live = LiveManager()
        a = models.IntegerField(null=True); s = models.CharField(max_length=50, null=True)
        dept = models.ForeignKey(D, null=True, on_delete=models.CASCADE, related_name="emps", to_field="number", db_column="dn")
        o = models.ForeignKey(O, null=True, on_delete=models.CASCADE, related_name="ps")
        w = models.ForeignKey(W, null=True, on_delete=models.CASCADE, related_name="ps")
        tags = models.ManyToManyField(Tag, related_name="ps")
        class Meta:
            app_label = "vapp"; db_table = "p"
    class K(models.Model):
        x = models.IntegerField(null=True)
        p = models.ForeignKey(P, on_delete=models.CASCADE, related_name="kids")
        o = models.ForeignKey(O, null=True, on_delete=models.CASCADE, related_name="ks")
        class Meta:
            app_label = "vapp"; db_table = "k"
    with connection.schema_editor() as se:
        for m in (T, O, Tag, W, D, P, K):
            se.create_model(m)
    _dj.update(T=T, O=O, P=P, K=K, Tag=Tag, W=W, D=D, connection=connection)
    return _dj

def django_load_scalar(rows):
    env = django_env(); T = env["T"]
    T.objects.all().delete()
    T.objects.bulk_create([T(id=r["id"], **{c: r.get(c) for c in SCALAR_COLS}) for r in rows])
    return T

def django_load_rel(db):
    env = django_env(); O, P, K, Tag, W, D = env["O"], env["P"], env["K"], env["Tag"], env["W"], env["D"]
    K.objects.all().delete(); P.tags.through.objects.all().delete(); P.objects.all().delete(); W.objects.all().delete(); O.objects.all().delete(); Tag.objects.all().delete(); D.objects.all().delete()
    D.objects.bulk_create([D(id=r["id"], number=r["number"], title=r.get("title")) for r in db.get("d", [])])
    O.objects.bulk_create([O(id=r["id"], n=r.get("n"), name=r.get("name")) for r in db["o"]])
    Tag.objects.bulk_create([Tag(id=r["id"], label=r.get("label")) for r in db["tag"]])
    W.objects.bulk_create([W(id=r["id"], o_id=r.get("o_id")) for r in db.get("w", [])])
    P.objects.bulk_create([P(id=r["id"], a=r.get("a"), s=r.get("s"), o_id=r.get("o_id"), w_id=r.get("w_id"), dept_id=r.get("dn")) for r in db["p"]])
    K.objects.bulk_create([K(id=r["id"], x=r.get("x"), p_id=r["p_id"], o_id=r.get("o_id")) for r in db["k"]])
    Th = P.tags.through
    Th.objects.bulk_create([Th(p_id=a, tag_id=b) for a, b in db["p_tags"]])
    return P

# ------------------------------------------------------------------ SQLAlchemy
_sa = {}
def sa_env():
    if _sa:
        return _sa
    import sqlalchemy as sa
    from sqlalchemy.orm import declarative_base, relationship, Session
    Base = declarative_base()
    p_tags = sa.Table("p_tags", Base.metadata, sa.Column("p_id", sa.ForeignKey("p.id"), primary_key=True),
                      sa.Column("tag_id", sa.ForeignKey("tag.id"), primary_key=True))
    class T(Base):
        __tablename__ = "t"
        id = sa.Column(sa.Integer, primary_key=True)
        i1 = sa.Column(sa.Integer); i2 = sa.Column(sa.Integer); f1 = sa.Column(sa.Float)
        s1 = sa.Column(sa.String); s2 = sa.Column(sa.String); b1 = sa.Column(sa.Boolean)
        d1 = sa.Column(sa.Date); dt1 = sa.Column(sa.DateTime)
    class O(Base):
        __tablename__ = "o"
        id = sa.Column(sa.Integer, primary_key=True); n = sa.Column(sa.Integer); name = sa.Column(sa.String)
        ps = relationship("P", back_populates="o")
        ks = relationship("K", back_populates="o")
    class Tag(Base):
        __tablename__ = "tag"
        id = sa.Column(sa.Integer, primary_key=True); label = sa.Column(sa.String)
        ps = relationship("P", secondary=p_tags, back_populates="tags")
        ws = relationship("W", back_populates="o")
    class W(Base):
        __tablename__ = "w"
        id = sa.Column(sa.Integer, primary_key=True)
        o_id = sa.Column(sa.ForeignKey("tag.id"), nullable=True)
        o = relationship("Tag", back_populates="ws")
        ps = relationship("P", back_populates="w")
    class D(Base):
        __tablename__ = "d"
        id = sa.Column(sa.Integer, primary_key=True); number = sa.Column(sa.Integer, unique=True, nullable=False); title = sa.Column(sa.String)
        emps = relationship("P", back_populates="dept")
    class P(Base):
        __tablename__ = "p"
        id = sa.Column(sa.Integer, primary_key=True); a = sa.Column(sa.Integer); s = sa.Column(sa.String)
        dn = sa.Column(sa.ForeignKey("d.number"), nullable=True)
        dept = relationship("D", back_populates="emps")
        o_id = sa.Column(sa.ForeignKey("o.id"), nullable=True)
        o = relationship("O", back_populates="ps")
        w_id = sa.Column(sa.ForeignKey("w.id"), nullable=True)
        w = relationship("W", back_populates="ps")
        kids = relationship("K", back_populates="p")
        tags = relationship("Tag", secondary=p_tags, back_populates="ps")
    class K(Base):
        __tablename__ = "k"
        id = sa.Column(sa.Integer, primary_key=True); x = sa.Column(sa.Integer)
        p_id = sa.Column(sa.ForeignKey("p.id")); o_id = sa.Column(sa.ForeignKey("o.id"), nullable=True)
        p = relationship("P", back_populates="kids")
        o = relationship("O", back_populates="ks")
    eng = sa.create_engine("sqlite://")
    Base.metadata.create_all(eng)
    _sa.update(sa=sa, Base=Base, T=T, O=O, P=P, K=K, Tag=Tag, W=W, D=D, p_tags=p_tags, engine=eng, Session=Session, t_table=T.__table__, p_table=P.__table__)
    return _sa

def sa_load_scalar(rows):
    env = sa_env(); sa = env["sa"]
    with env["engine"].begin() as c:
        c.execute(env["t_table"].delete())
        if rows:
            c.execute(env["t_table"].insert(), [{"id": r["id"], **{k: r.get(k) for k in SCALAR_COLS}} for r in rows])
    return env

def sa_load_rel(db):
    env = sa_env()
    with env["engine"].begin() as c:
        for tbl in (env["p_tags"], env["K"].__table__, env["P"].__table__, env["W"].__table__, env["O"].__table__, env["Tag"].__table__, env["D"].__table__):
            c.execute(tbl.delete())
        if db.get("d"):
            c.execute(env["D"].__table__.insert(), [{"id": r["id"], "number": r["number"], "title": r.get("title")} for r in db["d"]])
        if db["o"]:
            c.execute(env["O"].__table__.insert(), [{"id": r["id"], "n": r.get("n"), "name": r.get("name")} for r in db["o"]])
        if db["tag"]:
            c.execute(env["Tag"].__table__.insert(), [{"id": r["id"], "label": r.get("label")} for r in db["tag"]])
        if db.get("w"):
            c.execute(env["W"].__table__.insert(), [{"id": r["id"], "o_id": r.get("o_id")} for r in db["w"]])
        if db["p"]:
            c.execute(env["P"].__table__.insert(), [{"id": r["id"], "a": r.get("a"), "s": r.get("s"), "o_id": r.get("o_id"), "w_id": r.get("w_id"), "dn": r.get("dn")} for r in db["p"]])
        if db["k"]:
            c.execute(env["K"].__table__.insert(), [{"id": r["id"], "x": r.get("x"), "p_id": r["p_id"], "o_id": r.get("o_id")} for r in db["k"]])
        if db["p_tags"]:
            c.execute(env["p_tags"].insert(), [{"p_id": a, "tag_id": b} for a, b in db["p_tags"]])
    return env

# ------------------------------------------------------------------ visitors needing models (used by C16's non-mutation run)
def orm_visitors():
    out = []
    try:
        env = sa_env()
        from odata_query.sqlalchemy.orm import AstToSqlAlchemyOrmVisitor
        from odata_query.sqlalchemy.core import AstToSqlAlchemyCoreVisitor
        out.append(("AstToSqlAlchemyOrmVisitor", lambda n: AstToSqlAlchemyOrmVisitor(env["P"]).visit(n)))
        out.append(("AstToSqlAlchemyCoreVisitor", lambda n: AstToSqlAlchemyCoreVisitor(env["t_table"]).visit(n)))
        out.append(("AstToSqlAlchemyOrmVisitor(T)", lambda n: AstToSqlAlchemyOrmVisitor(env["T"]).visit(n)))
    except Exception:  # noqa
        pass
    try:
        denv = django_env()
        from odata_query.django.django_q import AstToDjangoQVisitor
        out.append(("AstToDjangoQVisitor", lambda n: AstToDjangoQVisitor(denv["P"]).visit(n)))
        out.append(("AstToDjangoQVisitor(T)", lambda n: AstToDjangoQVisitor(denv["T"]).visit(n)))
    except Exception:  # noqa
        pass
    return out

# ------------------------------------------------------------------ value domain
INTS = [None, -7, -1, 0, 1, 2, 7]
STRS = [None, "", "a", "ab", "abc", "ABC", "aXb", "O'B", "100%", "a_c", "a\\b", " a ", "é"]
BOOLS = [None, False, True]
DATES = [None, dt.date(2020, 1, 1), dt.date(2020, 2, 29), dt.date(1999, 12, 31), dt.date(2021, 6, 15)]
DTS = [None, dt.datetime(2020, 1, 1, 10, 0, 0), dt.datetime(2020, 2, 29, 23, 59, 59), dt.datetime(1999, 12, 31, 0, 0, 0)]
FLOATS = [None, -2.25, 0.0, 0.5, 1.5, 2.0]

def scalar_rows(rng, n):
    rows = []
    for i in range(n):
        rows.append({"id": i + 1, "i1": rng.choice(INTS), "i2": rng.choice(INTS), "f1": rng.choice(FLOATS), "s1": rng.choice(STRS), "s2": rng.choice(STRS),
                     "b1": rng.choice(BOOLS), "d1": rng.choice(DATES), "dt1": rng.choice(DTS)})
    return rows
