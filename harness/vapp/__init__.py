"""Django app shell for the verification harness (models are defined in dbenv.py with app_label = "vapp")."""
