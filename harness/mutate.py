"""Systematic mutation analysis (a measure of what the checks see, not a check itself).

  phase 1  `mutate.py gen`      enumerate single-token mutants of odata_query/*.py (comparison / Boolean operator swaps, `not` removal,
                                 condition forcing, integer / Boolean constant changes, + ↔ -, statement deletion) and keep the ones the
                                 pinned test-suite does NOT kill  ->  /tmp/mut/survivors.json
  phase 2  `mutate.py run`      every survivor against every quick check, in parallel workers that each own a scratch worktree of /repo
                                 and a scratch copy of /verif (so generated tables and build output never collide)  ->  seeded/MUTANTS.tsv

Everything lives under /tmp/mut and is removed by `mutate.py clean`.  Nothing here is needed by a registered command.
"""
import ast, json, os, shutil, subprocess, sys, hashlib, concurrent.futures as cf

REPO = "/repo"
ROOT = "/tmp/mut"
FILES = ["ast.py", "exceptions.py", "grammar.py", "rewrite.py", "roundtrip.py", "typing.py", "utils.py", "visitor.py",
         "django/django_q.py", "django/django_q_ext.py", "django/shorthand.py", "django/utils.py",
         "sql/athena.py", "sql/base.py", "sql/sqlite.py",
         "sqlalchemy/common.py", "sqlalchemy/core.py", "sqlalchemy/functions_ext.py", "sqlalchemy/orm.py", "sqlalchemy/shorthand.py"]
CMP_SWAP = {"==": "!=", "!=": "==", "<": "<=", "<=": "<", ">": ">=", ">=": ">", "is": "is not", "is not": "is", "in": "not in", "not in": "in"}
CMP_TXT = {ast.Eq: "==", ast.NotEq: "!=", ast.Lt: "<", ast.LtE: "<=", ast.Gt: ">", ast.GtE: ">=", ast.Is: "is", ast.IsNot: "is not", ast.In: "in", ast.NotIn: "not in"}


def offsets(src):
    starts, o = [], 0
    for line in src.splitlines(keepends=True):
        starts.append(o); o += len(line.encode("utf-8"))
    return starts


class Gen(ast.NodeVisitor):
    def __init__(self, src):
        self.src = src.encode("utf-8")
        self.starts = offsets(src)
        self.out = []      # (start, end, replacement, kind)
        self.docstrings = set()

    def pos(self, line, col):
        return self.starts[line - 1] + col

    def span(self, n):
        return self.pos(n.lineno, n.col_offset), self.pos(n.end_lineno, n.end_col_offset)

    def between(self, a, b, tok, repl, kind):
        """replace the operator token `tok` found between node a's end and node b's start"""
        s, e = self.span(a)[1], self.span(b)[0]
        seg = self.src[s:e].decode("utf-8")
        i = seg.find(tok)
        if i < 0:
            return
        bs = s + len(seg[:i].encode("utf-8"))
        self.out.append((bs, bs + len(tok.encode("utf-8")), repl, kind))

    def visit_Compare(self, n):
        left = n.left
        for op, right in zip(n.ops, n.comparators):
            t = CMP_TXT.get(type(op))
            if t:
                self.between(left, right, t, CMP_SWAP[t], f"cmp {t}->{CMP_SWAP[t]}")
            left = right
        self.generic_visit(n)

    def visit_BoolOp(self, n):
        t = "and" if isinstance(n.op, ast.And) else "or"
        r = "or" if t == "and" else "and"
        for a, b in zip(n.values, n.values[1:]):
            self.between(a, b, t, r, f"bool {t}->{r}")
        self.generic_visit(n)

    def visit_UnaryOp(self, n):
        if isinstance(n.op, ast.Not):
            s, e = self.span(n)
            os_, oe = self.span(n.operand)
            self.out.append((s, os_, "", "not-removed"))
        self.generic_visit(n)

    def visit_BinOp(self, n):
        sw = {ast.Add: ("+", "-"), ast.Sub: ("-", "+"), ast.Mult: ("*", "//"), ast.FloorDiv: ("//", "*")}.get(type(n.op))
        if sw and not (isinstance(n.left, ast.Constant) and isinstance(n.left.value, str)) and not isinstance(n.left, ast.JoinedStr):
            self.between(n.left, n.right, sw[0], sw[1], f"arith {sw[0]}->{sw[1]}")
        self.generic_visit(n)

    def cond(self, test):
        s, e = self.span(test)
        self.out.append((s, e, "True", "cond->True"))
        self.out.append((s, e, "False", "cond->False"))

    def visit_If(self, n):
        self.cond(n.test); self.generic_visit(n)

    def visit_IfExp(self, n):
        self.cond(n.test); self.generic_visit(n)

    def visit_Constant(self, n):
        s, e = self.span(n)
        v = n.value
        if isinstance(v, bool):
            self.out.append((s, e, str(not v), f"const {v}->{not v}"))
        elif isinstance(v, int):
            self.out.append((s, e, str(v + 1), f"const {v}->{v + 1}"))
            if v > 0:
                self.out.append((s, e, str(v - 1), f"const {v}->{v - 1}"))

    def stmt_delete(self, body):
        for st in body:
            if isinstance(st, ast.Expr) and isinstance(st.value, ast.Constant) and isinstance(st.value.value, str):
                continue     # docstring
            if isinstance(st, (ast.Expr, ast.AugAssign)) or (isinstance(st, ast.Assign) and len(body) > 1) or isinstance(st, ast.Raise):
                s, e = self.span(st)
                self.out.append((s, e, "pass", "stmt-deleted " + type(st).__name__))

    def visit_FunctionDef(self, n):
        self.stmt_delete(n.body)
        for st in ast.walk(n):
            if st is not n and hasattr(st, "body") and isinstance(getattr(st, "body"), list) and not isinstance(st, (ast.FunctionDef, ast.ClassDef)):
                self.stmt_delete(st.body)
                if getattr(st, "orelse", None):
                    self.stmt_delete(st.orelse)
        self.generic_visit(n)


def mutants():
    out = []
    for f in FILES:
        path = os.path.join(REPO, "odata_query", f)
        src = open(path, encoding="utf-8").read()
        g = Gen(src)
        g.visit(ast.parse(src))
        seen = set()
        for s, e, r, kind in g.out:
            if (s, e, r) in seen:
                continue
            seen.add((s, e, r))
            b = src.encode("utf-8")
            new = b[:s] + r.encode("utf-8") + b[e:]
            try:
                ast.parse(new.decode("utf-8"))
            except SyntaxError:
                continue
            line = b[:s].count(b"\n") + 1
            mid = hashlib.sha1(f.encode() + str((s, e, r)).encode()).hexdigest()[:10]
            out.append({"id": mid, "file": f, "line": line, "kind": kind, "start": s, "end": e, "repl": r,
                        "before": b[s:e].decode("utf-8", "replace")[:60], "context": src.splitlines()[line - 1].strip()[:140]})
    return out


def worktree(k):
    wt = f"{ROOT}/w{k}/repo"
    if not os.path.isdir(wt):
        os.makedirs(os.path.dirname(wt), exist_ok=True)
        subprocess.run(["git", "-C", REPO, "worktree", "add", "--detach", wt, "HEAD"], stdout=subprocess.DEVNULL, stderr=subprocess.DEVNULL, check=True)
    return wt


def apply(wt, m):
    p = os.path.join(wt, "odata_query", m["file"])
    # the byte offsets refer to the file as it was when the mutants were generated: the worktree's own (restored) copy, not /repo's working tree,
    # which may have moved on since (a `fix:` commit in the meantime must not corrupt the remaining mutants)
    restore(wt)
    b = open(p, "rb").read()
    open(p, "wb").write(b[:m["start"]] + m["repl"].encode("utf-8") + b[m["end"]:])


def restore(wt):
    subprocess.run(["git", "-C", wt, "checkout", "--", "."], stdout=subprocess.DEVNULL)


def suite(k, m):
    wt = worktree(k)
    apply(wt, m)
    try:
        p = subprocess.run(["/venv/bin/python", "-m", "pytest", "-q", "--maxfail=5", "-p", "no:cacheprovider", "--no-cov", "--continue-on-collection-errors", "--timeout=120"],
                           cwd=wt, env=dict(os.environ, PYTHONPATH=wt), stdout=subprocess.PIPE, stderr=subprocess.STDOUT, timeout=600)
        tail = p.stdout.decode(errors="replace").strip().splitlines()[-1] if p.stdout else ""
    except subprocess.TimeoutExpired:
        tail = "timeout"
    restore(wt)
    return "648 passed, 10 xfailed, 4 errors" in tail, tail[-80:]


def phase1(workers=12, limit=None):
    ms = mutants()
    if limit:
        ms = ms[:limit]
    os.makedirs(ROOT, exist_ok=True)
    print(f"{len(ms)} mutants", flush=True)
    import queue, threading
    q = queue.Queue()
    for m in ms:
        q.put(m)
    res = []
    def work(k):
        while True:
            try:
                m = q.get_nowait()
            except queue.Empty:
                return
            ok, tail = suite(k, m)
            m["survives_suite"] = ok; m["suite_tail"] = tail
            res.append(m)
            if len(res) % 50 == 0:
                print(f"  {len(res)}/{len(ms)} done, {sum(1 for x in res if x['survives_suite'])} survivors", flush=True)
    ts = [threading.Thread(target=work, args=(k,)) for k in range(workers)]
    [t.start() for t in ts]; [t.join() for t in ts]
    json.dump(res, open(f"{ROOT}/phase1.json", "w"), indent=1)
    surv = [m for m in res if m["survives_suite"]]
    json.dump(surv, open(f"{ROOT}/survivors.json", "w"), indent=1)
    print(f"{len(surv)} of {len(res)} mutants survive the test-suite")


def verif_copy(k):
    v = f"{ROOT}/w{k}/verif"
    if not os.path.isdir(v):
        subprocess.run(["rsync", "-a", "--exclude", ".git", "--exclude", "replays", "/verif/", v + "/"], check=True)
    return v


CHECKS = [f"C{n:02d}" for n in range(1, 21)]

RELEVANT = {
    "grammar.py": ["C10", "C05", "C06", "C11", "C19", "C13", "C20"], "ast.py": ["C06", "C16", "C13", "C08", "C03", "C02"],
    "exceptions.py": ["C10", "C12", "C11"], "rewrite.py": ["C14", "C17", "C04"], "utils.py": ["C17", "C04"], "roundtrip.py": ["C13", "C12"],
    "typing.py": ["C18", "C12", "C09"], "visitor.py": ["C16", "C14", "C17"],
    "sql/": ["C09", "C07", "C12", "C01", "C19"], "django/": ["C02", "C04", "C08", "C12", "C15", "C19"], "sqlalchemy/": ["C03", "C04", "C08", "C12", "C15", "C19"],
}

def ordered_checks(f):
    first = []
    for k, v in RELEVANT.items():
        if f == k or (k.endswith("/") and f.startswith(k)):
            first = v
    return first + [c for c in CHECKS if c not in first]


def run_checks(k, m, checks=None, tier="quick", stop_at_first=True):
    wt = worktree(k); v = verif_copy(k)
    apply(wt, m)
    caught, detail = [], {}
    for c in (checks or ordered_checks(m["file"])):
        if stop_at_first and caught:
            break
        try:
            p = subprocess.run(["/venv/bin/python", "harness/verif.py", "check", c, "--tier", tier], cwd=v,
                               env=dict(os.environ, PYTHONPATH=wt, ODATA_QUERY_REPO=wt), stdout=subprocess.PIPE, stderr=subprocess.STDOUT, timeout=1500)
            out = p.stdout.decode(errors="replace")
            rc = p.returncode
        except subprocess.TimeoutExpired:
            out, rc = "", 2
        if rc == 1 and "VIOLATION" in out:
            caught.append(c + ("(no-input)" if "no-failing-input-found" in out else ""))
        elif rc != 0:
            detail[c] = f"rc={rc} " + out[-200:]
    restore(wt)
    return caught, detail


def phase2(workers=6, only=None):
    surv = json.load(open(f"{ROOT}/survivors.json"))
    if only:
        surv = [m for m in surv if m["id"] in only]
    done = {}
    outp = f"{ROOT}/phase2.json"
    if os.path.exists(outp):
        done = {m["id"]: m for m in json.load(open(outp))}
    import queue, threading
    q = queue.Queue()
    for m in surv:
        if m["id"] not in done:
            q.put(m)
    lock = threading.Lock()
    def work(k):
        while True:
            try:
                m = q.get_nowait()
            except queue.Empty:
                return
            caught, detail = run_checks(k, m)
            m["caught_by"] = caught; m["errors"] = detail
            with lock:
                done[m["id"]] = m
                json.dump(list(done.values()), open(outp, "w"), indent=1)
                print(f"  [{len(done)}/{len(surv)}] {m['file']}:{m['line']} {m['kind']}: {' '.join(caught) or 'NOT CAUGHT'}", flush=True)
    ts = [threading.Thread(target=work, args=(k,)) for k in range(workers)]
    [t.start() for t in ts]; [t.join() for t in ts]
    write_tsv(list(done.values()))


def write_tsv(ms):
    ms = sorted(ms, key=lambda m: (m["file"], m["line"], m["kind"]))
    with open("/verif/seeded/MUTANTS.tsv", "w") as f:
        f.write("id\tfile\tline\tmutation\tsource line\tcaught by\n")
        for m in ms:
            f.write(f"{m['id']}\t{m['file']}\t{m['line']}\t{m['kind']} ({m['before']!r} -> {m['repl']!r})\t{m['context']}\t{' '.join(m.get('caught_by', [])) or 'NOT CAUGHT'}\n")


def clean():
    for k in range(64):
        wt = f"{ROOT}/w{k}/repo"
        if os.path.isdir(wt):
            subprocess.run(["git", "-C", REPO, "worktree", "remove", "--force", wt], stdout=subprocess.DEVNULL, stderr=subprocess.DEVNULL)
    shutil.rmtree(ROOT, ignore_errors=True)
    subprocess.run(["git", "-C", REPO, "worktree", "prune"])      # after the removal: scratch slots of the seed matrix live under ROOT too


if __name__ == "__main__":
    cmd = sys.argv[1]
    if cmd == "count":
        ms = mutants()
        import collections
        print(len(ms), collections.Counter(m["file"] for m in ms))
    elif cmd == "gen":
        phase1(int(sys.argv[2]) if len(sys.argv) > 2 else 12)
    elif cmd == "run":
        phase2(int(sys.argv[2]) if len(sys.argv) > 2 else 6, set(sys.argv[3:]) or None)
    elif cmd == "rerun":
        # after the harness changed: refresh the scratch copies of /verif and re-run the mutants not caught so far (optionally one file)
        for k in range(64):
            if os.path.isdir(f"{ROOT}/w{k}/verif"):
                subprocess.run(["rsync", "-a", "--exclude", ".git", "--exclude", "replays", "/verif/", f"{ROOT}/w{k}/verif/"], check=True)
        done = json.load(open(f"{ROOT}/phase2.json"))
        keep = [m for m in done if m.get("caught_by") or (len(sys.argv) > 3 and not m["file"].startswith(sys.argv[3]))]
        json.dump(keep, open(f"{ROOT}/phase2.json", "w"), indent=1)
        phase2(int(sys.argv[2]) if len(sys.argv) > 2 else 6)
    elif cmd == "deepen":
        # mutants caught so far only through a broken tie (no failing input): run the remaining checks until one produces a failing input
        import queue, threading
        done = {m["id"]: m for m in json.load(open(f"{ROOT}/phase2.json"))}
        skip = set(sys.argv[3:])      # files edited in /repo since the mutants were generated (their byte offsets are stale)
        todo = [m for m in done.values() if m.get("caught_by") and all("(no-input)" in c for c in m["caught_by"]) and not m.get("deepened") and m["file"] not in skip]
        q = queue.Queue(); [q.put(m) for m in todo]
        lock = threading.Lock()
        def work(k):
            while True:
                try:
                    m = q.get_nowait()
                except queue.Empty:
                    return
                tried = {c.replace("(no-input)", "") for c in m["caught_by"]}
                rest = [c for c in ordered_checks(m["file"]) if c not in tried]
                wt = worktree(k); v = verif_copy(k)
                found = None
                for c in rest:
                    got, _ = run_checks(k, m, checks=[c])
                    if got:
                        m["caught_by"].append(got[0])
                        if "(no-input)" not in got[0]:
                            found = got[0]; break
                m["deepened"] = True
                with lock:
                    json.dump(list(done.values()), open(f"{ROOT}/phase2.json", "w"), indent=1)
                    print(f"  {m['file']}:{m['line']} {m['kind']}: {' '.join(m['caught_by'])}", flush=True)
        ts = [threading.Thread(target=work, args=(k,)) for k in range(int(sys.argv[2]) if len(sys.argv) > 2 else 6)]
        [t.start() for t in ts]; [t.join() for t in ts]
        write_tsv(list(done.values()))
    elif cmd == "tsv":
        write_tsv(json.load(open(f"{ROOT}/phase2.json")))
    elif cmd == "clean":
        clean()
