#!/bin/bash
# usage: harness/seed_matrix.sh [tier]  — every seeded change against the check of its own property; writes seeded/RESULTS.tsv
cd /verif
tier="${1:-quick}"
out=seeded/RESULTS.tsv
echo -e "seed\tproperty\trc\tverdict" > $out
for d in seeded/*/; do
  s=$(basename $d); pid=${s%-*}
  [ -f "$d/patch.diff" ] || continue
  ( cd /repo && git apply --check "/verif/$d/patch.diff" 2>/dev/null ) || { echo -e "$s\t$pid\t-\tSTALE (patch does not apply)" >> $out; continue; }
  ( cd /repo && git apply "/verif/$d/patch.diff" )
  o=$(/venv/bin/python harness/verif.py check $pid --tier $tier 2>&1); rc=$?
  git -C /repo checkout -- .
  v=$(echo "$o" | grep VIOLATION | head -1 | sed 's/replay=[^ ]*//')
  echo -e "$s\t$pid\t$rc\t${v:-no violation reported}" >> $out
done
git -C /repo status --short
