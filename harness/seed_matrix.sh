#!/bin/bash
# usage: harness/seed_matrix.sh [tier] [parallel]  — every seeded change (or, with SEEDPROPS="C08 C11", only those of the named properties; the other rows of RESULTS.tsv are kept) against the check of its own property, each in an isolated scratch
# worktree of /repo + scratch copy of /verif (harness/seedtest_iso.sh); writes seeded/RESULTS.tsv.  /repo and /verif/lean are not touched.
cd /verif
tier="${1:-quick}"; par="${2:-4}"
out=seeded/RESULTS.tsv
tmp=$(mktemp -d /tmp/seedmatrix-XXXX)
ls -d seeded/*/ | while read d; do s=$(basename $d); [ -f "$d/patch.diff" ] && echo "$s"; done > $tmp/list
if [ -n "$SEEDPROPS" ]; then
  pat=$(echo $SEEDPROPS | sed 's/ /|/g')
  grep -E "^($pat)-" $tmp/list > $tmp/list2; mv $tmp/list2 $tmp/list
  grep -vE "^($pat)-|^seed" $out > $tmp/keep 2>/dev/null || true
fi
run_one() {
  s="$1"; slot="$2"; pid=${s%-*}
  if ! ( cd /repo && git apply --check "/verif/seeded/$s/patch.diff" 2>/dev/null ); then echo -e "$s\t$pid\t-\tSTALE (patch does not apply)"; return; fi
  o=$(bash harness/seedtest_iso.sh /verif/seeded/$s $pid m$slot $tier 2>&1 | tail -1)
  rc=$(echo "$o" | sed -n 's/.* rc=\([0-9]*\).*/\1/p')
  v=$(echo "$o" | grep -o "VIOLATION property=[A-Z0-9]*\( replay=[^ ]*\)\?\( no-failing-input-found\)\?" | sed 's/ replay=[^ ]*//')
  echo -e "$s\t$pid\t$rc\t${v:-no violation reported}"
}
export -f run_one; export tier
i=0
while read s; do
  slot=$((i % par)); i=$((i+1))
  echo "$s $slot"
done < $tmp/list > $tmp/jobs
for slot in $(seq 0 $((par-1))); do
  ( grep " $slot\$" $tmp/jobs | while read s sl; do run_one $s $sl; done > $tmp/out.$slot ) &
done
wait
echo -e "seed\tproperty\trc\tverdict" > $out
cat $tmp/out.* $( [ -f $tmp/keep ] && echo $tmp/keep ) | sort >> $out
rm -rf $tmp
cat $out
