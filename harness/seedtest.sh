#!/bin/bash
# usage: harness/seedtest.sh <dir with patch.diff> <Cxx> [tier]   — apply to /repo, run the check, undo
set -u
d="$1"; pid="$2"; tier="${3:-quick}"
cd /repo && git apply "$d/patch.diff" || { echo "APPLY-FAILED"; exit 3; }
cd /verif && /venv/bin/python harness/verif.py check "$pid" --tier "$tier" 2>&1 | tail -6
rc=${PIPESTATUS[0]}
git -C /repo checkout -- .
echo "seedtest $d $pid rc=$rc"
