"""Relational side of the semantic checks (C04, C15): database instances over the verification schema
(o, tag, w, p, k, p_tags), filters from the relational grammar (to-one paths up to depth 3, lambdas nested up to
depth 2, and/or/not), and the wire format of a database for the Lean specification (Spec/RelSem.lean)."""
import itertools
import dbenv, semcommon as sm

# table -> columns on the wire (Lean's vSchema uses these names)
TABLE_COLS = {"o": ["id", "n", "name"], "tag": ["id", "label"], "w": ["id", "o_id"], "d": ["id", "number", "title"], "p": ["id", "a", "s", "o_id", "w_id", "dn"],
              "k": ["id", "x", "p_id", "o_id"], "p_tags": ["p_id", "tag_id"]}

def enc_db(db):
    parts = []
    for t, cols in TABLE_COLS.items():
        rows = db.get(t, [])
        if t == "p_tags":
            rows = [{"p_id": a, "tag_id": b} for a, b in rows]
        parts.append(t + "=" + sm.enc_rows(rows, cols))
    return "~".join(parts)

def load(db):
    dbenv.django_load_rel(db)
    dbenv.sa_load_rel(db)

def shapes_db():
    """one database containing every shape: parents with 0..3 kids (kid values chosen so any/all differ), with / without
    owner, owners with NULL columns, tags shared between parents, parents without tags, w links to tags"""
    o = [{"id": 1, "n": 5, "name": "x"}, {"id": 2, "n": None, "name": None}, {"id": 3, "n": -1, "name": "O'B"}, {"id": 4, "n": 5, "name": "y"}]
    tag = [{"id": 1, "label": "l"}, {"id": 2, "label": "m"}, {"id": 3, "label": None}]
    w = [{"id": 1, "o_id": 1}, {"id": 2, "o_id": None}, {"id": 3, "o_id": 2}]
    p, k, pt = [], [], []
    pid = kid = 0
    kid_sets = [(), (2,), (0,), (2, 2), (2, 0), (0, 7), (2, 2, 2), (2, 0, 7), (None,), (2, None)]
    owners = [None, 1, 2, 3]
    for i, ks in enumerate(kid_sets):
        for j, ow in enumerate(owners if i < 4 else owners[:2]):
            pid += 1
            p.append({"id": pid, "a": (pid % 4) - 1, "s": ["a", "b", None][pid % 3], "o_id": ow, "w_id": [None, 1, 2, 3][(i + j) % 4],
                      "dn": [None, 2, 10, 3][(pid + i) % 4]})
            for x in ks:
                kid += 1
                k.append({"id": kid, "x": x, "p_id": pid, "o_id": [None, 1, 4][kid % 3]})
            for t in [(), (1,), (1, 2), (3,)][(i + 2 * j) % 4]:
                pt.append((pid, t))
    # departments are referenced through `number` (unique), chosen so that ids and numbers overlap but never coincide: dept id 2 has number 10, number 2 belongs to id 1
    d = [{"id": 1, "number": 2, "title": "x"}, {"id": 2, "number": 10, "title": None}, {"id": 3, "number": 1, "title": "y"}, {"id": 10, "number": 3, "title": "x"}]
    return {"o": o, "tag": tag, "w": w, "d": d, "p": p, "k": k, "p_tags": pt}

def random_db(rng, n_p=12):
    o = [{"id": i + 1, "n": rng.choice([None, 5, -1, 0, 5]), "name": rng.choice([None, "x", "y", "O'B"])} for i in range(4)]
    tag = [{"id": i + 1, "label": rng.choice([None, "l", "m"])} for i in range(3)]
    w = [{"id": i + 1, "o_id": rng.choice([None, 1, 2, 3])} for i in range(3)]
    p = [{"id": i + 1, "a": rng.choice([None, -1, 0, 2, 3]), "s": rng.choice([None, "a", "b"]), "o_id": rng.choice([None, 1, 2, 3, 4]),
          "w_id": rng.choice([None, 1, 2, 3]), "dn": rng.choice([None, 1, 2, 3, 10])} for i in range(n_p)]
    nums = rng.sample([1, 2, 3, 10], 4)
    d = [{"id": i + 1 if i < 3 else 10, "number": nums[i], "title": rng.choice([None, "x", "y"])} for i in range(4)]
    k = []
    for pr in p:
        for _ in range(rng.choice([0, 0, 1, 2, 3])):
            k.append({"id": len(k) + 1, "x": rng.choice([0, 2, 2, 7]), "p_id": pr["id"], "o_id": rng.choice([None, 1, 4])})
    pt = sorted({(pr["id"], rng.randint(1, 3)) for pr in p for _ in range(rng.choice([0, 1, 2]))})
    return {"o": o, "tag": tag, "w": w, "d": d, "p": p, "k": k, "p_tags": pt}

# ---------------------------------------------------------------- filter texts (root model P unless stated)
INT_LEAVES_P = ["a eq 2", "a gt 0", "a ne -1", "a in (0, 3)", "a eq null"]
PATH_LEAVES_P = ["o/n eq 5", "o/n ne 5", "o/n eq null", "o/n ne null", "o/name eq 'x'", "o/name eq 'O''B'", "o/n gt a", "w/o/label eq 'l'", "w/o/label eq null",
                 "w/o_id eq 1", "o/n lt 0", "w/o/label ne 'm'", "o/name in ('x', 'y')", "o/id eq 3"]
# through a foreign key that references a natural key (p.dn -> d.number): the parent's PRIMARY key is a different column
NATKEY_LEAVES_P = ["dept/id eq 2", "dept/id eq 10", "dept/number eq 10", "dept/number eq 2", "dept/title eq 'x'", "dept/id eq null", "dept/id ne 2", "dept/id gt 1",
                   "dept/emps/any(e: e/a gt 0)", "dept/emps/all(e: e/a ge 0)", "dept/emps/any()", "dept/id eq a", "dept/number eq dept/id"]
KID_BODIES = ["k/x eq 2", "k/x gt 0", "k/x ne 2", "k/x in (0, 7)", "k/x eq 2 or k/x eq 7", "not (k/x eq 0)", "k/x ge 2 and k/x lt 7"]
TAG_BODIES = ["t/label eq 'l'", "t/label ne 'm'", "t/label eq null", "t/id gt 1"]

def lambda_leaves_p():
    out = ["kids/any()", "tags/any()", "o/ps/any()", "w/ps/any()"]
    for b in KID_BODIES:
        out += [f"kids/any(k: {b})", f"kids/all(k: {b})"]
    for b in TAG_BODIES:
        out += [f"tags/any(t: {b})", f"tags/all(t: {b})"]
    # owners through to-one paths, nested lambdas (depth 2)
    out += ["o/ps/any(q: q/a gt 0)", "o/ps/all(q: q/a ge 0)", "w/ps/any(q: q/a eq 2)", "o/ks/any(j: j/x eq 2)",
            "o/ps/any(q: q/kids/any(k: k/x eq 2))", "o/ps/all(q: q/kids/any())", "tags/any(t: t/ps/all(q: q/a gt 0))",
            "tags/any(t: t/ps/any(q: q/kids/all(k: k/x eq 2)))", "kids/any(k: k/x eq 2) and kids/all(k: k/x eq 2)", "w/o/ps/any()", "w/o/ws/any(v: v/id gt 1)",
            # bodies that NAVIGATE from the related row (Django joins inside the sub-query; SQLAlchemy refuses: a join inside rel.any() would be a cross join)
            "kids/any(k: k/o/name eq 'x')", "kids/all(k: k/o/name eq 'x')", "kids/any(k: k/o/n eq -1)", "kids/any(k: k/o/n eq 5 and k/x eq 2)", "kids/all(k: k/o/n ne -1)",
            "o/ps/any(q: q/w/o/label eq 'l')", "o/ps/any(q: q/dept/id eq 2)", "kids/any(k: k/o/id eq 4)",
            # names the collection's model lacks although an enclosing model has them: never true on any child row
            "kids/any(k: k/a eq 2)", "kids/any(k: k/a gt 0 or k/x eq 2)", "tags/any(t: t/a ge 0)", "o/ps/any(q: q/n eq 5)", "kids/all(k: k/s eq 'a')"]
    # two sibling lambdas over the SAME collection, operator and variable, joined by and / or (merging them into one lambda is sound only for any-or and all-and)
    for coll, v, bodies in (("kids", "k", ["k/x eq 2", "k/x eq 7", "k/x gt 0", "k/x ne 2"]), ("tags", "t", ["t/label eq 'l'", "t/label eq 'm'", "t/id gt 1"]),
                            ("o/ps", "q", ["q/a gt 0", "q/a eq 2"])):
        for b1 in bodies:
            for b2 in bodies:
                if b1 < b2:
                    for op in ("any", "all"):
                        for j in ("and", "or"):
                            out.append(f"{coll}/{op}({v}: {b1}) {j} {coll}/{op}({v}: {b2})")
                    out.append(f"not ({coll}/any({v}: {b1}) and {coll}/any({v}: {b2}))")
                    out.append(f"{coll}/any({v}: {b1}) and {coll}/any({v}: {b2}) and {coll}/any({v}: {b1} and {b2})")
        out.append(f"{coll}/any() and {coll}/any({v}: {bodies[0]})")
        out.append(f"{coll}/any() and not {coll}/any({v}: {bodies[0]})")
    return out

def gen_filter(rng, depth):
    if depth <= 0:
        return rng.choice(rng.choice([INT_LEAVES_P, PATH_LEAVES_P, PATH_LEAVES_P, _LAMBDAS, _LAMBDAS]))
    k = rng.choice(["and", "or", "not", "leaf", "leaf"])
    if k == "leaf":
        return gen_filter(rng, 0)
    if k == "not":
        return "not (" + gen_filter(rng, depth - 1) + ")"
    return "(" + gen_filter(rng, depth - 1) + f") {k} (" + gen_filter(rng, depth - 1) + ")"

_LAMBDAS = lambda_leaves_p()

def all_leaves():
    return INT_LEAVES_P + PATH_LEAVES_P + NATKEY_LEAVES_P + _LAMBDAS

# filters on other root models (same-named collections / relationships on different models)
OTHER_ROOTS = [
    ("tag", "Tag", ["ps/any(q: q/a gt 0)", "ps/all(q: q/a gt 0)", "ps/any()", "ws/any()", "ps/any(q: q/kids/any(k: k/x eq 2))"]),
    ("o", "O", ["ps/any(q: q/a gt 0)", "ps/all(q: q/a gt 0)", "ps/any()", "ks/any(j: j/x eq 2)", "ps/any(q: q/kids/any(k: k/x eq 2))"]),
    ("k", "K", ["p/o/n eq 5", "p/o/n eq null", "o/n eq 5 or p/a eq 2", "p/tags/any(t: t/label eq 'l')", "o/name eq 'x' and p/o/name eq 'x'", "p/w/o/label eq 'l'"]),
    ("w", "W", ["o/label eq 'l'", "ps/any(q: q/o/n eq 5)", "ps/all(q: q/a gt 0)", "o/ps/any()"]),
    # a collection reached through a foreign key that references a natural key of THIS model (d.number), whose primary key is another column
    ("d", "D", ["emps/any()", "emps/any(e: e/a gt 0)", "emps/all(e: e/a ge 0)", "emps/any(e: e/a gt 0) and number gt 1", "not emps/any() or id eq 2",
                "emps/any(e: e/kids/any(k: k/x eq 2))", "emps/all(e: e/tags/any(t: t/label eq 'l'))"]),
]

# to-one relations of the verification schema: (table, relation) -> target table
TO_ONE = {("p", "o"): "o", ("p", "w"): "w", ("k", "p"): "p", ("k", "o"): "o", ("w", "o"): "tag", ("p", "dept"): "d"}
ROOT_TABLE = {"P": "p", "K": "k", "W": "w", "O": "o", "Tag": "tag", "D": "d"}

def same_table_twice(text, model):
    """does the filter navigate two DIFFERENT to-one paths that reach the same table (or the root table itself)?
    SQLAlchemy then joins that table twice without an alias (known finding)."""
    import re
    root = ROOT_TABLE[model]
    targets = {}
    for m in re.finditer(r"(?<![\w/'])([a-z_]\w*(?:/[a-z_]\w*)+)", text):
        segs = m.group(1).split("/")
        tbl, path = root, []
        for sgm in segs:
            nxt = TO_ONE.get((tbl, sgm))
            if nxt is None:
                break
            path.append(sgm); tbl = nxt
            targets.setdefault(tbl, set()).add(tuple(path))
    return any(len(v) > 1 for v in targets.values()) or root in targets


# sub-terms naming a column the collection's model does not have (see lambda_leaves_p): a backend may refuse these as unknown fields
LACKING_NAMES = ["k/a ", "t/a ", "q/n ", "k/s "]
def names_lacking(text):
    return any(sn in text for sn in LACKING_NAMES)
