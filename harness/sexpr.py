"""AST <-> S-expression wire format shared with lean/ODataVerif/Wire.lean (DESIGN Appendix B).

The encoder walks dataclasses.fields generically, so a field added to a node class shows up on the
wire without touching the harness."""
import dataclasses

def hexs(s: str) -> str:
    return '"' + s.encode("utf-8", "surrogatepass").hex() + '"'

def enc(v) -> str:
    if v is None:
        return "#n"
    if isinstance(v, str):
        return hexs(v)
    if isinstance(v, list):
        return "[" + " ".join(enc(x) for x in v) + "]"
    if isinstance(v, tuple):
        return "<" + " ".join(enc(x) for x in v) + ">"
    if dataclasses.is_dataclass(v):
        parts = [type(v).__name__] + [enc(getattr(v, f.name)) for f in dataclasses.fields(v)]
        return "(" + " ".join(parts) + ")"
    return "(PyObject " + hexs(repr(v)) + ")"

def unhex(h: str) -> str:
    return bytes.fromhex(h).decode("utf-8", "surrogatepass")

def _tok(s):
    i, n, out = 0, len(s), []
    while i < n:
        c = s[i]
        if c == " ":
            i += 1
        elif c in "()[]<>":
            out.append(c); i += 1
        elif c == "#":
            out.append("#n"); i += 2
        elif c == '"':
            j = s.index('"', i + 1)
            out.append(("s", unhex(s[i + 1:j]))); i = j + 1
        else:
            j = i
            while j < n and (s[j].isalnum() or s[j] == "_"):
                j += 1
            out.append(("k", s[i:j])); i = j
    return out

def dec(s: str):
    """wire -> python AST (odata_query.ast) ; used to feed model/spec outputs back to python."""
    from odata_query import ast
    toks = _tok(s)
    pos = 0
    def tree():
        nonlocal pos
        t = toks[pos]
        if t == "#n":
            pos += 1; return None
        if isinstance(t, tuple) and t[0] == "s":
            pos += 1; return t[1]
        if t == "(":
            kind = toks[pos + 1][1]; pos += 2
            fs = []
            while toks[pos] != ")":
                fs.append(tree())
            pos += 1
            return getattr(ast, kind)(*fs)
        if t == "[":
            pos += 1; xs = []
            while toks[pos] != "]":
                xs.append(tree())
            pos += 1
            return xs
        if t == "<":
            pos += 1; xs = []
            while toks[pos] != ">":
                xs.append(tree())
            pos += 1
            return tuple(xs)
        raise ValueError(f"bad wire at {pos}: {t!r}")
    r = tree()
    if pos != len(toks):
        raise ValueError("trailing wire tokens")
    return r
