"""C12 — a backend that cannot express a construct refuses it instead of mistranslating."""
import collections
import common, driver, gens_typed, gens_ast, gens, impl, gen_tables
import sqlcommon as sc, ormcommon as oc
from sexpr import enc, hexs
from odata_query import ast
from odata_query.roundtrip import AstToODataVisitor
import checks.c09 as c09

PROP_MODS = ["ODataVerif.Props.C12Sql", "ODataVerif.Props.C12Orm", "ODataVerif.Props.C12Complete", "ODataVerif.Props.C12Accepted", "ODataVerif.Tie.Sql", "ODataVerif.Tie.SqlTemplates", "ODataVerif.Tie.ExceptionTree", "ODataVerif.Tie.ParserTables", "ODataVerif.Props.C12", "ODataVerif.Props.C10Image", "ODataVerif.Props.C06Image"]

def rel_filters():
    """paths and lambdas over the relational schema (P root): well-typed by construction"""
    I = sc.I
    A = lambda *p: (lambda e=None: None) and __import__("functools").reduce(lambda o, a: ast.Attribute(o, a), p[1:], I(p[0]))
    one = ast.Integer("1")
    out = [
        ast.Compare(ast.Eq(), A("o", "n"), one), ast.Compare(ast.Eq(), A("o", "name"), sc.S("x")), ast.Compare(ast.Eq(), A("o", "n"), ast.Null()),
        ast.CollectionLambda(I("kids"), ast.Any(), None), ast.CollectionLambda(I("tags"), ast.Any(), None),
        ast.CollectionLambda(I("kids"), ast.Any(), ast.Lambda(I("k"), ast.Compare(ast.Eq(), A("k", "x"), one))),
        ast.CollectionLambda(I("kids"), ast.All(), ast.Lambda(I("k"), ast.Compare(ast.Gt(), A("k", "x"), one))),
        ast.CollectionLambda(I("kids"), ast.Any(), ast.Lambda(I("k"), ast.Compare(ast.Eq(), A("k", "o", "n"), one))),
        ast.CollectionLambda(I("tags"), ast.All(), ast.Lambda(I("t"), ast.Compare(ast.Eq(), A("t", "label"), sc.S("l")))),
        ast.UnaryOp(ast.Not(), ast.CollectionLambda(I("kids"), ast.Any(), None)),
        ast.BoolOp(ast.Or(), ast.Compare(ast.Eq(), A("o", "n"), one), ast.Compare(ast.Eq(), I("a"), one)),
        # unknown fields at every depth
        ast.Compare(ast.Eq(), I("zz"), one), ast.Compare(ast.Eq(), A("o", "zz"), one), ast.Compare(ast.Eq(), A("zz", "n"), one),
        ast.CollectionLambda(I("kids"), ast.Any(), ast.Lambda(I("k"), ast.Compare(ast.Eq(), A("k", "zz"), one))),
        ast.CollectionLambda(I("zz"), ast.Any(), None),
        # a name the COLLECTION's model does not have although an enclosing model does (P.a, P.s, O.n)
        ast.CollectionLambda(I("kids"), ast.Any(), ast.Lambda(I("k"), ast.Compare(ast.Eq(), A("k", "a"), one))),
        ast.CollectionLambda(I("kids"), ast.All(), ast.Lambda(I("k"), ast.Compare(ast.Eq(), A("k", "s"), sc.S("a")))),
        ast.CollectionLambda(I("tags"), ast.Any(), ast.Lambda(I("t"), ast.Compare(ast.Eq(), A("t", "a"), one))),
        ast.CollectionLambda(A("o", "ps"), ast.Any(), ast.Lambda(I("q"), ast.Compare(ast.Eq(), A("q", "n"), one))),
        ast.CollectionLambda(I("kids"), ast.Any(), ast.Lambda(I("k"), ast.Compare(ast.Eq(), I("a"), one))),
        # a lambda whose body is a bare field / path / literal (not a condition): refused or translated, never an internal error
        ast.CollectionLambda(I("kids"), ast.Any(), ast.Lambda(I("k"), A("k", "x"))), ast.CollectionLambda(I("kids"), ast.All(), ast.Lambda(I("k"), A("k", "x"))),
        ast.CollectionLambda(I("kids"), ast.Any(), ast.Lambda(I("k"), ast.Boolean("true"))), ast.CollectionLambda(I("kids"), ast.Any(), ast.Lambda(I("k"), I("k"))),
        ast.CollectionLambda(A("o", "ps"), ast.Any(), ast.Lambda(I("q"), ast.CollectionLambda(A("q", "kids"), ast.Any(), ast.Lambda(I("k"), A("k", "x"))))),
        ast.CollectionLambda(I("tags"), ast.Any(), ast.Lambda(I("t"), A("t", "label"))), ast.CollectionLambda(I("kids"), ast.Any(), ast.Lambda(I("k"), A("k", "o", "name"))),
        ast.BoolOp(ast.And(), ast.CollectionLambda(I("kids"), ast.Any(), ast.Lambda(I("k"), A("k", "x"))), ast.Compare(ast.Eq(), I("a"), one)),
        ast.Compare(ast.Eq(), sc.call("length", I("zz")), one), sc.call("contains", I("zz"), sc.S("a")),
        # two relationships with the same attribute name on different models (P.o -> O, P.w -> W, W.o -> Tag):
        ast.BoolOp(ast.And(), ast.Compare(ast.Eq(), A("o", "name"), sc.S("x")), ast.Compare(ast.Eq(), A("w", "o", "name"), sc.S("y"))),
        ast.BoolOp(ast.And(), ast.Compare(ast.Eq(), A("o", "name"), sc.S("x")), ast.Compare(ast.Eq(), A("w", "o", "label"), sc.S("y"))),
        ast.BoolOp(ast.And(), ast.Compare(ast.Eq(), A("w", "o", "label"), sc.S("y")), ast.Compare(ast.Eq(), A("o", "label"), sc.S("x"))),
    ]
    # a sub-term the backend must refuse (unknown field, alone / inside a call / behind a path / in a lambda body) at EVERY operand position of and / or, next to a Boolean
    # literal or a decided comparison that already settles the connective (`false and X`, `true or X`, either order, nested): an operand that is not needed for the value
    # is still part of the filter
    T, F = ast.Boolean("true"), ast.Boolean("false")
    refusing = [ast.Compare(ast.Eq(), I("zz"), one), sc.call("contains", I("zz"), sc.S("a")), ast.Compare(ast.Eq(), A("o", "zz"), sc.S("x")),
                ast.CollectionLambda(I("kids"), ast.Any(), ast.Lambda(I("k"), ast.Compare(ast.Eq(), A("k", "zz"), one))), ast.Compare(ast.Eq(), sc.call("length", I("zz")), one)]
    for X in refusing:
        for lit in (T, F, ast.Boolean("TRUE"), ast.Boolean("False")):
            for op in (ast.And, ast.Or):
                out += [ast.BoolOp(op(), lit, X), ast.BoolOp(op(), X, lit)]
        out += [ast.BoolOp(ast.Or(), ast.Compare(ast.Eq(), I("a"), one), ast.BoolOp(ast.Or(), T, X)), ast.BoolOp(ast.And(), ast.BoolOp(ast.And(), F, X), ast.Compare(ast.Eq(), I("a"), one)),
                ast.UnaryOp(ast.Not(), ast.BoolOp(ast.And(), F, X)), ast.Compare(ast.Eq(), ast.BoolOp(ast.Or(), T, X), T), ast.BoolOp(ast.And(), ast.UnaryOp(ast.Not(), T), X),
                ast.BoolOp(ast.Or(), ast.Compare(ast.Eq(), one, one), X), ast.BoolOp(ast.And(), ast.Compare(ast.Eq(), I("a"), ast.Null()), X),
                ast.BoolOp(ast.Or(), X, ast.BoolOp(ast.Or(), T, ast.Compare(ast.Eq(), I("a"), one)))]
    return out

# which outcome classes the property admits, per backend
def admissible(backend, outcome, node):
    if outcome == "ok" or outcome.startswith("ok ") or outcome.startswith("lib "):
        return True
    if outcome == "notimpl":
        return backend == "sa-core" and has_path_or_lambda(node)
    if outcome.startswith("env:"):
        # the host ORM refused when the query was built (Django FieldError for an unknown field, EmptyResultSet, output-field
        # resolution): not one of the internal errors the property lists; counted and reported in the evidence
        return backend == "django"
    return False

def has_path_or_lambda(n):
    import dataclasses
    if isinstance(n, (ast.Attribute, ast.CollectionLambda)):
        return True
    if dataclasses.is_dataclass(n):
        for f in dataclasses.fields(n):
            v = getattr(n, f.name)
            if isinstance(v, list):
                if any(has_path_or_lambda(x) for x in v if isinstance(x, ast._Node)):
                    return True
            elif isinstance(v, ast._Node) and has_path_or_lambda(v):
                return True
    return False

UNKNOWN = {"zz"}
# (variable, name): names unknown on the collection's model but known on an enclosing one
UNKNOWN_IN_LAMBDA = {("k", "a"), ("k", "s"), ("t", "a"), ("q", "n")}
def mentions_unknown(n):
    import dataclasses
    if isinstance(n, ast.Identifier) and n.name in UNKNOWN:
        return True
    if isinstance(n, ast.Attribute) and n.attr in UNKNOWN:
        return True
    if isinstance(n, ast.Attribute) and isinstance(n.owner, ast.Identifier) and (n.owner.name, n.attr) in UNKNOWN_IN_LAMBDA:
        return True
    if isinstance(n, ast.Lambda) and isinstance(n.expression, ast.Compare) and isinstance(n.expression.left, ast.Identifier) and n.expression.left.name == "a":
        return True
    if dataclasses.is_dataclass(n):
        for f in dataclasses.fields(n):
            v = getattr(n, f.name)
            if isinstance(v, list):
                if any(mentions_unknown(x) for x in v if isinstance(x, ast._Node)):
                    return True
            elif isinstance(v, ast._Node) and mentions_unknown(v):
                return True
    return False

def wrong_model_field(n):
    """`w/o/name`: W.o leads to Tag, which has `label` but no `name` (P.o leads to O, which has `name`)"""
    import dataclasses
    if isinstance(n, ast.Attribute) and n.attr == "name" and isinstance(n.owner, ast.Attribute) and n.owner.attr == "o" \
            and isinstance(n.owner.owner, ast.Identifier) and n.owner.owner.name == "w":
        return True
    if isinstance(n, ast.Attribute) and n.attr == "label" and isinstance(n.owner, ast.Identifier) and n.owner.name == "o":
        return True          # `o/label`: P.o leads to O, which has no `label`
    if dataclasses.is_dataclass(n):
        for f in dataclasses.fields(n):
            v = getattr(n, f.name)
            if isinstance(v, list):
                if any(wrong_model_field(x) for x in v if isinstance(x, ast._Node)):
                    return True
            elif isinstance(v, ast._Node) and wrong_model_field(v):
                return True
    return False

def real_roundtrip(node):
    try:
        r = AstToODataVisitor().visit(node)
    except Exception as e:  # noqa
        return impl.canon_exc(e)
    return "ok " + r.encode("utf-8", "surrogatepass").hex() if isinstance(r, str) else "nonstr " + type(r).__name__

def run(ctx):
    common.build_and_audit(ctx, PROP_MODS, gen=lambda c: gen_tables.generate(["Sql", "SqlTemplates", "ExceptionTree", "ParserTables"]))
    rng = ctx.rng
    nodes = sc.node_kind_matrix() + sc.operator_nestings()
    g = gens_typed.TypedGen(rng)
    nodes += [g.gen("bool", rng.randint(1, 5)) for _ in range(12000 if ctx.thorough else 1500)]
    ga = gens_ast.AstGen(rng)
    nodes += [ga.gen(rng.randint(1, 5)) for _ in range(6000 if ctx.thorough else 800)]
    for f in gens.VALID_FILTERS:
        try:
            nodes.append(impl.real_parse_ast(f))
        except Exception:  # noqa
            pass
    uniq = sc.dedup(nodes)
    wt = driver.run_batch([driver.req("welltyped", w) for w, n in uniq])
    well = {w for (w, n), t in zip(uniq, wt) if t == "True"}
    ctx.note(f"{len(uniq)} distinct trees, {len(well)} strictly well-typed Boolean filters (Spec.wellTypedFilter)")
    # ---- raw SQL dialects: model vs real on the whole matrix (outcome class, exception payload, exact text)
    cases = [(d, a, w, n) for w, n in uniq for d in sc.DIALECTS for a in (None, "t")]
    real_cache = {}
    def real_fn(c):
        r = sc.real_sql(c[0], c[1], c[3]); real_cache[(c[0], c[1], c[2])] = r; return r
    ctx.exhaustive = True
    common.correspond(ctx, "sql-outcome", cases, real_fn=real_fn, model_reqs=lambda c: sc.model_req(c[0], c[1], c[2]),
                      nontrivial=lambda c, r: True, describe=lambda c: f"{c[0]} alias={c[1]} {c[3]!r}"[:400],
                      bucket=lambda c, r: c[0] + "/" + (r.split(" ")[0] if r.startswith("ok") else " ".join(r.split(" ")[:2])))
    # ---- roundtrip backend: model vs real
    common.correspond(ctx, "roundtrip-outcome", uniq, real_fn=lambda c: real_roundtrip(c[1]),
                      model_reqs=lambda c: driver.req("rtrender", c[0]), model_parse=lambda m: "ok " + m if not m.startswith(("lib", "foreign", "not")) else m,
                      nontrivial=lambda c, r: True, describe=lambda c: repr(c[1])[:300], bucket=lambda c, r: "roundtrip/" + r.split(" ")[0])
    # ---- the property on the real code
    viol = []
    tally = collections.Counter()
    #  (1) raw SQL: never a foreign error on a tree in the parser's image; a successful translation of a well-typed filter is complete
    jc, jn = [], []
    for c in cases:
        r = real_cache[(c[0], c[1], c[2])]
        cls = r.split(" ")[0]
        tally[f"{c[0]}:{cls}"] += 1
        if cls in ("foreign", "nonstr", "notimpl") and c[2] in well:
            viol.append((c[0], c[3], r, "internal error leaked"))
        if cls == "ok" and c[2] in well and c[1] is None:
            jc.append((c[0], c[1], c[2], r)); jn.append(c[3])
    findings, _ = common.load_known("C12")
    known_sigs = {f["signature"] for f in findings}
    c09_known = {f["signature"] for f in common.load_known("C09")[0]}
    for (d, a, w, r), n, v in zip(jc, jn, c09.judge_batch(jc, jn)):
        tally[f"{d}:complete:{v[0]}"] += 1
        if v[0].startswith("VIOL") and c09.sig_of(n, v, d) not in c09_known:
            viol.append((d, n, r, f"translation of a well-typed filter is not complete / not readable: {v[0]} {v[1]}"))
        if v[0] == "not-expressible":
            viol.append((d, n, r, "the dialect returned text for a filter the specification has no SQL mirror for"))
    #  (2) roundtrip
    for w, n in uniq:
        r = real_roundtrip(n)
        tally["roundtrip:" + r.split(" ")[0]] += 1
        if not (r.startswith("ok ") or r.startswith("lib ")) and w in well:
            viol.append(("roundtrip", n, r, "internal error leaked"))
    #  (2b) the VISITOR models of the ORM backends (Model/Orm.lean: the subject of C12Orm / C02 / C03 / C08) against the real visitors on the WHOLE matrix, well-typed or
    #       not: outcome class and exception payload.  A statement the visitor returned but the host ORM could not compile ("env:") is a visitor success.
    def list_outside_in(n, ok=False):
        if isinstance(n, ast.List):
            return not ok or any(list_outside_in(x) for x in n.val)
        if isinstance(n, ast.Compare) and isinstance(n.comparator, ast.In):
            return list_outside_in(n.left) or list_outside_in(n.right, ok=True)
        import dataclasses
        for f in dataclasses.fields(n) if dataclasses.is_dataclass(n) else []:
            v = getattr(n, f.name)
            if isinstance(v, list):
                if any(list_outside_in(x) for x in v if dataclasses.is_dataclass(x)):
                    return True
            elif dataclasses.is_dataclass(v) and list_outside_in(v):
                return True
        return False
    # … plus sub-terms a backend refuses (unknown field, unimplemented function, unary minus) at every operand position next to a Boolean literal that settles the connective
    _I, _S, _call = sc.I, sc.S, sc.call
    _refusing = [ast.Compare(ast.Eq(), _I("zz"), ast.Integer("1")), _call("contains", _I("zz"), _S("a")), ast.Compare(ast.Lt(), ast.UnaryOp(ast.USub(), _I("i1")), ast.Integer("1")),
                 ast.Compare(ast.Eq(), _call("totaloffsetminutes", _I("dt1")), ast.Integer("60")), ast.Compare(ast.Eq(), _call("nosuchfn", _I("s1")), ast.Integer("1"))]
    _decided = [ast.BoolOp(op(), *(pair if k == 0 else pair[::-1])) for X in _refusing for lit in ("true", "false", "TRUE", "False") for op in (ast.And, ast.Or)
                for pair in [(ast.Boolean(lit), X)] for k in (0, 1)]
    _decided += [ast.BoolOp(ast.Or(), ast.Compare(ast.Eq(), _I("i1"), ast.Integer("1")), ast.BoolOp(ast.Or(), ast.Boolean("true"), X)) for X in _refusing]
    _decided += [ast.UnaryOp(ast.Not(), ast.BoolOp(ast.And(), ast.Boolean("false"), X)) for X in _refusing]
    matrix = [(w, n) for w, n in sc.dedup(sc.node_kind_matrix() + sc.operator_nestings() + _decided) if not list_outside_in(n)]
    COLS = "id,i1,i2,f1,s1,s2,b1,d1,dt1"
    for bname, req, real in (("django", lambda w: driver.req("djbuild", w), lambda n: oc.django_compile(n)[0]),
                             ("sa-orm", lambda w: driver.req("sabuild", "orm", COLS, w), lambda n: oc.sa_compile(n, "orm")[0]),
                             ("sa-core", lambda w: driver.req("sabuild", "core", COLS, w), lambda n: oc.sa_compile(n, "core")[0])):
        mouts = driver.run_batch([req(w) for w, _ in matrix])
        keep = [(w, n) for (w, n), m in zip(matrix, mouts) if m != "unmodelled"]
        def cls(o):
            return "ok" if (o.startswith("ok") or o.startswith("env")) else o
        common.correspond(ctx, f"{bname}-visitor-outcome-matrix", keep, real_fn=lambda c, real=real: cls(real(c[1])),
                          model_reqs=lambda c, req=req: req(c[0]), model_parse=lambda o: cls(o),
                          nontrivial=lambda c, r: r != "ok", describe=lambda c: repr(c[1])[:300], bucket=lambda c, r: " ".join(r.split(" ")[:2]))
    #  (3) ORM backends (scalar model T for the typed matrix, relational model P for paths / lambdas / unknown fields)
    orm = [("django", lambda n, m: oc.django_compile(n, m)[0]), ("sa-orm", lambda n, m: oc.sa_compile(n, "orm", m)[0]),
           ("sa-core", lambda n, m: oc.sa_compile(n, "core", m)[0])]
    step = 1 if ctx.thorough else 2
    # the finite node-kind x position matrix always goes to the ORM backends in full; only the random trees are sub-sampled in the quick tier
    matrix_keys = {w for w, _ in sc.dedup(sc.node_kind_matrix())}
    for w, n in [x for i, x in enumerate([x for x in uniq if x[0] in well]) if x[0] in matrix_keys or i % step == 0]:
        for name, fn in orm:
            r = fn(n, "T")
            tally[f"{name}:{' '.join(r.split(' ')[:2]) if not r.startswith('ok') else 'ok'}"] += 1
            ctx.evaluations += 1
            if not admissible(name, r, n):
                viol.append((name, n, r, "outcome is neither a translation nor a library exception"))
    for n in rel_filters():
        for name, fn in orm:
            r = fn(n, "P")
            tally[f"{name}:rel:{' '.join(r.split(' ')[:2]) if not r.startswith('ok') else 'ok'}"] += 1
            ctx.evaluations += 1
            if not admissible(name, r, n):
                viol.append((name, n, r, "outcome is neither a translation nor a library exception"))
            if name.startswith("sa-") and (mentions_unknown(n) or wrong_model_field(n)) and not (r.startswith("lib InvalidFieldException") or (name == "sa-core" and r == "notimpl")):
                viol.append((name, n, r, "unknown field not reported as InvalidFieldException"))
    # completeness of in-lists on the ORM backends: every element of the filter's list — literals of every kind and `null` — is an element of
    # the compiled IN (...) list ("never returns output with a part missing")
    import re as _re
    def in_items(sql):
        m = _re.search(r"\bIN \(((?:[^()]|\([^()]*\))*)\)", sql)
        return None if not m else len([x for x in m.group(1).split(",")])
    # (distinct elements only: Django's In lookup de-duplicates equal values itself, which loses nothing)
    INLISTS = [("i1", ["1", "null"]), ("i1", ["null", "1", "2"]), ("i1", ["null"]), ("s1", ["'a'", "null"]), ("s1", ["'a'", "'c'", "'b'"]), ("i1", ["1", "-1"]),
               ("f1", ["1.5", "null", "2"]), ("d1", ["2020-01-01", "null"]), ("i1", ["1", "2", "3", "null", "4"]), ("s1", ["''", "null", "'null'"])]
    for col, items in INLISTS:
        for tmpl in ("{c} in ({l})", "not ({c} in ({l}))", "({c} in ({l})) eq false", "{c} in ({l}) or i2 eq 0"):
            t = tmpl.format(c=col, l=", ".join(items) + ("," if len(items) == 1 else ""))
            for bname, comp in (("django", lambda x: oc.dj_shorthand_sql(x)), ("sa-orm", lambda x: oc.sa_shorthand_sql(x, "orm")), ("sa-core", lambda x: oc.sa_shorthand_sql(x, "core"))):
                out, sql, params = comp(t)
                ctx.evaluations += 1
                if out != "ok":
                    tally[f"{bname}:inlist:{' '.join(out.split(' ')[:2])}"] += 1
                    if not (out.startswith("lib ") or out == "notimpl"):
                        viol.append((bname, impl.real_parse_ast(t), out, "outcome is neither a translation nor a library exception"))
                    continue
                n = in_items(sql)
                if n != len(items):
                    tally[f"{bname}:inlist:INCOMPLETE"] += 1
                    viol.append((bname, impl.real_parse_ast(t), f"ok {sql[-160:]}", f"the filter's list has {len(items)} elements, the compiled IN list has {n}: an element is missing"))
                else:
                    tally[f"{bname}:inlist:complete"] += 1
    # literals whose VALUE is falsy in the host language (0, 0.0, '', false) in every argument / operand position: the translation must have the shape it has for
    # a truthy literal of the same kind (same SQL skeleton, same number of bound parameters) - "never returns output with a part missing"
    # (Boolean literals are left out: SQLAlchemy renders them as the inline constants 1 / 0 by design - Model/Orm.lean's inline-constant leaves)
    FALSY = [("{v}", "0", "1"), ("{v}", "0", "7"), ("{f}", "0.0", "1.5"), ("{s}", "''", "'x'")]
    FT = ["substring(s1, 1, {v}) eq ''", "substring(s1, {v}) eq 'a'", "substring(s1, {v}, 2) eq 'a'", "i1 add {v} eq 1", "i1 mul {v} eq 0", "i1 sub {v} gt {v}", "length(s1) eq {v}", "i1 in ({v}, 5)",
          "i1 eq {v} or i2 eq {v}", "f1 add {f} lt 2.5", "round(f1) eq {f}", "f1 in ({f}, 2.5)", "contains(s1, {s})", "s1 eq {s}", "startswith(s1, {s}) or endswith(s2, {s})", "s1 in ({s}, 'k')",
          "tolower(s1) eq tolower({s})", "b1 eq {b}", "{b} eq b1", "b1 in ({b},)", "(i1 gt {v}) eq {b}", "contains(s1, 'a') ne {b}", "length(s1) sub {v} eq 1", "year(d1) add {v} eq 2020"]
    for tmpl in FT:
        for hole, falsy, truthy in FALSY:
            if hole not in tmpl:
                continue
            others = {"{v}": "1", "{f}": "1.5", "{s}": "'x'", "{b}": "true"}
            tf, tt = tmpl.replace(hole, falsy), tmpl.replace(hole, truthy)
            for h2, d2 in others.items():
                tf, tt = tf.replace(h2, d2), tt.replace(h2, d2)
            for bname, comp in (("django", lambda x: oc.dj_shorthand_sql(x)), ("sa-orm", lambda x: oc.sa_shorthand_sql(x, "orm")), ("sa-core", lambda x: oc.sa_shorthand_sql(x, "core"))):
                (of, sf, pf), (ot, st, pt) = comp(tf), comp(tt)
                ctx.evaluations += 1
                if of != "ok" or ot != "ok":
                    tally[f"{bname}:falsy:{'both-refused' if of != 'ok' and ot != 'ok' else 'ONE-REFUSED'}"] += 1
                    if (of == "ok") != (ot == "ok") and not (of.startswith("lib ") or ot.startswith("lib ")):
                        viol.append((bname, impl.real_parse_ast(tf), of + " / " + ot, f"the filter with the literal {falsy} and the one with {truthy} do not have the same outcome"))
                    continue
                npf, npt = (len(pf) if pf is not None else 0), (len(pt) if pt is not None else 0)
                if sf != st or npf != npt:
                    tally[f"{bname}:falsy:SHAPE-DIFFERS"] += 1
                    viol.append((bname, impl.real_parse_ast(tf), f"ok {str(sf)[-140:]} params={npf}", f"with the literal {falsy} the translation has another shape than with {truthy} ({str(st)[-140:]} params={npt}): a part of the filter is missing or was decided early"))
                else:
                    tally[f"{bname}:falsy:same-shape"] += 1
    # literals the lexer accepts but that have no value (not a calendar date / time): a backend that binds VALUES has nothing to bind — it must refuse
    # with a library exception, not hand on a placeholder; the SQL dialects, which copy the text, must still copy all of it
    for lit, col in (("2020-02-30", "d1"), ("2021-02-29", "d1"), ("2020-04-31", "d1"), ("2020-02-30T10:00:00Z", "dt1"), ("2021-02-29T00:00:00Z", "dt1")):
        for tmpl in ("{c} eq {l}", "{l} lt {c}", "{c} in ({l}, 2020-01-01)", "not ({c} ge {l})", "year({c}) eq 2020 and {c} ne {l}"):
            t = tmpl.format(c=col, l=lit)
            if col == "dt1":
                t = t.replace("2020-01-01)", "2020-01-01T00:00:00Z)")
            for bname, comp in (("django", lambda x: oc.dj_shorthand_sql(x)), ("sa-orm", lambda x: oc.sa_shorthand_sql(x, "orm")), ("sa-core", lambda x: oc.sa_shorthand_sql(x, "core"))):
                out, sql, params = comp(t)
                ctx.evaluations += 1
                tally[f"{bname}:novalue:{' '.join(out.split(' ')[:2])}"] += 1
                if not out.startswith("lib "):
                    viol.append((bname, impl.real_parse_ast(t), (out + " " + str(sql)[-120:] + " " + str(params)[:80]), f"the literal {lit} has no value, yet the backend did not refuse with a library exception"))
    # built-ins called with NAMED parameters (the quantifier lists them): every backend translates or refuses with a library exception
    from odata_query.sql import AstToSqlVisitor, AstToSqliteSqlVisitor, AstToAthenaSqlVisitor
    NAMED = ["tolower(arg=s1) eq 'a'", "tolower(field=s1) eq 'a'", "contains(field=s1, substr='a')", "length(x=s1) eq 1", "substring(fullstr=s1, index=1) eq 'x'", "concat(a=s1, b=s2) eq 'ab'",
             "indexof(s1, needle='a') eq 1", "round(number=f1) eq 1", "year(d=d1) eq 2020", "startswith(s1, prefix='a')", "hassubset(a=c1, b=c2)", "now(tz='utc') gt dt1"]
    for t in NAMED:
        try:
            node = impl.real_parse_ast(t)
        except Exception as e:  # noqa
            tally["named:parse:" + impl.canon_exc(e).split(" ")[1]] += 1
            continue
        for bname, fn in (("std", lambda n: AstToSqlVisitor().visit(n)), ("sqlite", lambda n: AstToSqliteSqlVisitor().visit(n)), ("athena", lambda n: AstToAthenaSqlVisitor("t").visit(n)),
                          ("roundtrip", lambda n: AstToODataVisitor().visit(n)), ("django", lambda n: oc.django_compile(n)[0]), ("sa-orm", lambda n: oc.sa_compile(n, "orm")[0]), ("sa-core", lambda n: oc.sa_compile(n, "core")[0])):
            ctx.evaluations += 1
            try:
                r = fn(node)
                out = r if isinstance(r, str) and (r.startswith("lib ") or r.startswith("foreign") or r.startswith("env:") or r in ("ok", "notimpl")) else "ok"
            except Exception as e:  # noqa
                out = impl.canon_exc(e)
            tally[f"{bname}:named:{' '.join(out.split(' ')[:2])}"] += 1
            if out.startswith("foreign") or (out == "notimpl" and bname != "sa-core"):
                viol.append((bname, node, out, "internal error leaked"))
    # field names that are also attributes of the objects a backend looks names up in (column collections, model classes, mapped classes): an existing column
    # with such a name must be translated as THAT column, an unknown one must be reported as the library's invalid-field error
    import sqlalchemy as _sa
    from odata_query.sqlalchemy import apply_odata_core as _core
    z = _sa.table("z", _sa.column("id", _sa.Integer), _sa.column("items", _sa.Integer), _sa.column("values", _sa.String), _sa.column("name", _sa.String))
    for t, cols in (("items eq 3", ["items"]), ("tolower(values) eq 'c'", ["values"]), ("items in (3, 7)", ["items"]), ("contains(values, 'a')", ["values"]),
                    ("items gt id and values ne name", ["items", "id", "values", "name"]), ("keys eq 1", None), ("length(get) eq 1", None), ("update eq 1", None), ("c eq 1", None),
                    ("columns eq 1", None), ("__class__ eq 1", None), ("corresponding_column eq 1", None), ("metadata eq 1", None)):
        ctx.evaluations += 1
        try:
            sql = str(_core(_sa.select(z), t).compile(compile_kwargs={"literal_binds": True}))
            out = "ok"
        except Exception as e:  # noqa
            out, sql = impl.canon_exc(e), ""
        tally[f"sa-core:attrname:{' '.join(out.split(' ')[:2])}"] += 1
        if cols is None:
            if not out.startswith("lib InvalidFieldException"):
                viol.append(("sa-core", impl.real_parse_ast(t), out + " " + sql[-120:], "unknown field not reported as InvalidFieldException"))
        elif out != "ok":
            if not out.startswith("lib "):
                viol.append(("sa-core", impl.real_parse_ast(t), out, "internal error leaked"))
        else:
            where = sql.split("WHERE", 1)[-1]
            missing = [c for c in cols if f'z.{c}' not in where and f'z."{c}"' not in where]
            if missing:
                viol.append(("sa-core", impl.real_parse_ast(t), "ok " + where[:160], f"the field(s) {missing} of the filter are not represented in the translation"))
    for t in ("keys eq 1", "metadata eq 1", "registry eq 1", "__table__ eq 1", "query eq 1", "__mapper__ eq 1", "mro eq 1"):
        for bname, comp in (("sa-orm", lambda x: oc.sa_shorthand_sql(x, "orm")),):
            out, sql, params = comp(t)
            ctx.evaluations += 1
            tally[f"{bname}:attrname:{' '.join(out.split(' ')[:2])}"] += 1
            if not out.startswith("lib InvalidFieldException"):
                viol.append((bname, impl.real_parse_ast(t), out + " " + str(sql)[-120:], "unknown field not reported as InvalidFieldException"))
    ctx.extra["judged"] = dict(sorted(tally.items()))
    ctx.note(f"judge C12 on real outcomes: {len(viol)} violations; classes: " + ", ".join(f"{k}={v}" for k, v in sorted(tally.items()) if "foreign" in k or "notimpl" in k or "env" in k))
    new = [(b, n, r, why) for (b, n, r, why) in viol if f"C12:{b}:{type(n).__name__}" not in known_sigs]
    if new:
        b, n, r, why = new[0]
        ctx.broken.append(f"real outcome violates C12 in {len(new)} cases; first: backend={b} {n!r}: {r[:120]} — {why}"[:900])

    def search(ctx):
        found = []
        for b, n, r, why in new[:40]:
            found.append({"property": "C12", "backend": b, "tree": repr(n), "wire": enc(n), "real_outcome": r[:400], "why": why,
                          "signature": f"C12:{b}:{type(n).__name__}:{r.split(' ')[0]}",
                          "replay": "run the backend's visitor on the tree (ormcommon.django_compile / sa_compile / sqlcommon.real_sql) and classify the outcome"})
        ctx.extra["searched"] = "node-kind x operand-position matrix, every built-in with arguments of every kind, typed and untyped random trees, relational filters with unknown fields — all seven backends"
        return found

    return common.finish(
        ctx,
        rule="every node kind (42 representatives incl. all literal kinds, paths, lambdas, named parameters) in every operand position of every parent kind, "
             "every built-in function with each argument kind in each position, namespaced look-alikes, seeded typed and untyped trees; raw SQL x3 and roundtrip "
             "compared with the model (outcome class, payload, text); ORM backends run on the strictly well-typed subset and on relational filters with unknown "
             "fields at every depth; every case is non-trivial (each exercises one dispatch decision)",
        assumptions=["well-typed = Spec.wellTypedFilter (strict typed grammar) for scalar filters; relational filters are well-typed by construction",
                     "a refusal raised by the host ORM itself while the query is built (Django FieldError / EmptyResultSet) counts as a refusal, not as a leak; counted in the evidence",
                     "ORM backends: outcome classes are observed on the real code only (no Lean model of Django / SQLAlchemy internals)"],
        trusted_extra=["Spec/TypesStrict.lean (well-typedness), Spec/SqlMirror.lean + Spec/SqlParse.lean (completeness of an SQL translation)"],
        search_fn=search, known_replay_fn=None)
