"""C17 — making a lambda body relative strips exactly the lambda variable's prefix."""
import copy
import common, driver, gens_ast, gens, impl
from sexpr import enc
from odata_query import ast, utils

PROP_MODS = ["ODataVerif.Props.C17", "ODataVerif.Props.C17Path"]
VARS = [ast.Identifier("x"), ast.Identifier("t"), ast.Identifier("a"), ast.Identifier("name"), ast.Identifier("x", ("ns",)),
        ast.Identifier("k1"), ast.Identifier("zz")]

def real_strip(x, node):
    before = enc(node)
    try:
        r = enc(utils.expression_relative_to_identifier(x, node))
    except Exception as e:  # noqa
        return "raise:" + type(e).__name__
    if enc(node) != before:
        return "mutated-input " + r
    return r

def run(ctx):
    common.build_and_audit(ctx, PROP_MODS)
    rng = ctx.rng
    g = gens_ast.AstGen(rng, names=["a", "b", "x", "t", "name", "k1", "c"])
    nodes = [g.gen(rng.randint(0, 4)) for _ in range(5000 if ctx.thorough else 1200)]
    # paths of depth 1..4 in every operand position / inside calls, lists, nested lambdas
    for v in VARS:
        for d in range(1, 5):
            p = v
            for i in range(d):
                p = ast.Attribute(p, ["a", "b", "x", "name"][i % 4])
            q = ast.Attribute(ast.Attribute(ast.Identifier("y"), v.name), "a")      # variable name as inner segment
            for ctxf in [lambda e: e, lambda e: ast.Compare(ast.Eq(), e, ast.Integer("1")), lambda e: ast.Compare(ast.Eq(), ast.Integer("1"), e),
                         lambda e: ast.BinOp(ast.Add(), e, e), lambda e: ast.Call(ast.Identifier("concat"), [e, ast.String("s")]),
                         lambda e: ast.Compare(ast.In(), ast.Identifier("b"), ast.List([e, q])), lambda e: ast.UnaryOp(ast.Not(), e),
                         lambda e: ast.Call(ast.Identifier("f", ("ns",)), [ast.NamedParam(ast.Identifier("p"), e)]),
                         lambda e: ast.CollectionLambda(ast.Attribute(v, "kids"), ast.Any(), ast.Lambda(ast.Identifier("w"), ast.Compare(ast.Eq(), ast.Attribute(ast.Identifier("w"), "a"), e))),
                         lambda e: ast.BoolOp(ast.And(), ast.Compare(ast.Eq(), v, e), ast.Compare(ast.Eq(), q, ast.Identifier(v.name)))]:
                nodes.append(ctxf(p))
    for f in gens.VALID_FILTERS:
        try:
            nodes.append(impl.real_parse_ast(f))
        except Exception:  # noqa
            pass
    uniq = list({enc(x): x for x in nodes}.items())
    cases = [(enc(v), v, w, nd) for (w, nd) in uniq for v in (VARS if ctx.thorough else [VARS[i % len(VARS)] for i in (common.stable_hash(w) % 7, (common.stable_hash(w) // 7) % 7)])]
    cases = list({(c[0], c[2]): c for c in cases}.values())
    common.correspond(ctx, "strip", cases, real_fn=lambda c: real_strip(c[1], copy.deepcopy(c[3])),
                      model_reqs=lambda c: driver.req("strip", c[0], c[2]),
                      nontrivial=lambda c, r: r != c[2], describe=lambda c: (repr(c[1]), repr(c[3])[:300]),
                      bucket=lambda c, r: "changed" if r != c[2] else "identity")

    # the same pairs on trees an application has already USED: every computed attribute of every node read (py_val of the literals, full_name …), the tree hashed,
    # printed, compared and traversed — stripping a used tree gives what stripping a fresh one gives (state an earlier use leaves on the nodes must not show)
    import dataclasses as _dc, functools as _ft
    from odata_query import visitor as _vis
    def touch(n):
        if isinstance(n, list):
            for x in n:
                touch(x)
            return
        if not _dc.is_dataclass(n):
            return
        for attr in dir(type(n)):
            if attr.startswith("__"):
                continue
            d = getattr(type(n), attr, None)
            if isinstance(d, (property, _ft.cached_property)):
                try:
                    getattr(n, attr)
                except Exception:  # noqa
                    pass
            elif attr in ("full_name",) and callable(d):
                try:
                    getattr(n, attr)()
                except Exception:  # noqa
                    pass
        for f in _dc.fields(n):
            touch(getattr(n, f.name))
    def used_strip(c):
        tree = copy.deepcopy(c[3])
        touch(tree)
        try:
            hash(tree)
        except TypeError:
            pass
        repr(tree); tree == copy.deepcopy(c[3])
        try:
            _vis.NodeVisitor().visit(tree)
        except RecursionError:
            pass
        return real_strip(c[1], tree)
    lit_kinds = (ast.DateTime, ast.Duration, ast.Date, ast.Time, ast.GUID, ast.Float, ast.Geography)
    def has_lit(n):
        return isinstance(n, lit_kinds) or (isinstance(n, list) and any(has_lit(x) for x in n)) or (_dc.is_dataclass(n) and any(has_lit(getattr(n, f.name)) for f in _dc.fields(n)))
    used = [c for i, c in enumerate(cases) if has_lit(c[3]) or i % 4 == 0]
    for t in ["x/dt eq 2020-01-01T10:00:00Z", "x/d gt duration'P1DT2H'", "x/a eq 1 and x/when lt 2020-02-29T23:59:59.5+02:00", "now() sub x/dt gt duration'PT1H'",
              "x/d in (2020-01-01, 1999-12-31) or x/t eq 12:00:00", "x/g eq 01234567-89ab-cdef-0123-456789abcdef", "x/kids/any(k: k/dt ge 2001-01-01T00:00:00Z and x/dur eq duration'P2D')"]:
        nd = impl.real_parse_ast(t)
        used.append((enc(VARS[0]), VARS[0], enc(nd), nd)); used.append((enc(ast.Identifier("x")), ast.Identifier("x"), enc(nd), nd))
    common.correspond(ctx, "strip-used-tree", used, real_fn=used_strip, model_reqs=lambda c: driver.req("strip", c[0], c[2]),
                      nontrivial=lambda c, r: r != c[2], describe=lambda c: (repr(c[1]), repr(c[3])[:300], "after reading every computed attribute of every node"),
                      bucket=lambda c, r: "used/changed" if r != c[2] else "used/identity")

    def search(ctx):
        cand = [c for (n, c, r, m) in ctx.diffs] or cases
        specs = driver.run_batch([driver.req("reroot", c[0], c[2]) for c in cand])
        found = []
        for c, sp in zip(cand, specs):
            r = real_strip(c[1], copy.deepcopy(c[3]))
            if r == sp:
                r = used_strip(c)      # … and on a tree whose computed attributes have been read before
            if r != sp:
                found.append({"property": "C17", "variable": repr(c[1]), "expression": repr(c[3]), "real_result": r[:1500], "specified": sp[:1500],
                              "why": "expression_relative_to_identifier differs from re-rooting the paths rooted at the variable",
                              "signature": "C17:" + type(c[3]).__name__,
                              "replay": "odata_query.utils.expression_relative_to_identifier(<variable>, <expression>)"})
        ctx.extra["searched"] = f"{len(cand)} (variable, expression) pairs judged by Spec.Reroot (Lean)"
        return found

    return common.finish(
        ctx,
        rule="random ASTs of depth 0..4 + paths of depth 1..4 rooted at each variable in 10 operand contexts (calls, lists, named parameters, "
             "nested lambdas binding another name, the variable name as a plain field / inner segment / namespaced) x 7 variable names; "
             "non-trivial = the result differs from the input",
        assumptions=["the input tree is compared before/after the call (non-mutation is a runtime fact)"],
        trusted_extra=["Spec/Reroot.lean ((root, segments) view of paths)"],
        search_fn=search, known_replay_fn=None)
