"""C19 — whitespace layout and keyword case do not change the meaning of a filter."""
import dataclasses, re
import common, driver, impl, gens, gens_typed, gen_tables, dbenv
from sexpr import enc, hexs, unhex
from odata_query import ast
from odata_query.grammar import ODataLexer, ODataParser

PROP_MODS = ["ODataVerif.Props.Accepted", "ODataVerif.Tie.ParserTables", "ODataVerif.Props.C19", "ODataVerif.Props.C13Text", "ODataVerif.Props.C19Text"]
WS_RUNS = [" ", "  ", "\t", "\n", " \n ", "\r\n", "\n\n", "\t \t", "\x0b", "\x0c", " ", " "]
LONG_RUNS = [" " * 64, " " * 65, "\n" + " " * 72, "\n" * 4 + "\t" * 30 + " " * 40, " " * 500, "\t" * 129, " \r\n" * 100, " " * 5000]
OPS = {"ADD", "SUB", "MUL", "DIV", "MOD", "AND", "OR", "EQ", "NE", "LT", "LE", "GT", "GE", "IN"}

def tokens_with_text(text):
    toks = list(ODataLexer().tokenize(text))
    out = []
    for i, t in enumerate(toks):
        end = toks[i + 1].index if i + 1 < len(toks) else len(text)
        out.append((t.type, text[t.index:end]))
    return out

def randcase(rng, s):
    return "".join(c.upper() if rng.random() < 0.5 else c.lower() for c in s)

def variant(rng, text, mode, WS_RUNS=WS_RUNS, p_ins=0.6):
    """re-spell one accepted filter: mode in {"ws", "case", "bws", "all"}"""
    toks = tokens_with_text(text)
    out = []
    def kind(k):
        # punctuation is recognised by its text: whatever the token is called, `,` `(` `)` `:` delimit the same way
        ty_, raw_ = toks[k]
        st = raw_.strip()
        if st in (",", "(", ")", ":") and ty_ not in ("STRING", "GEOGRAPHY"):
            return st
        return "WS" if (raw_ != "" and st == "") else ty_
    for i, (ty, raw) in enumerate(toks):
        nxt = kind(i + 1) if i + 1 < len(toks) else None
        prv = kind(i - 1) if i > 0 else None
        ty = kind(i)
        if ty == "," and raw != ",":
            # a comma token that carries whitespace of its own: strip it, the re-layout decides
            raw = ","
        s = raw
        if ty in OPS:
            kw = raw.strip()
            l, r = raw[: len(raw) - len(raw.lstrip())], raw[len(raw.rstrip()):]
            if mode in ("ws", "all"):
                l, r = rng.choice(WS_RUNS), rng.choice(WS_RUNS)
            if mode in ("case", "all"):
                kw = randcase(rng, kw)
            s = l + kw + r
        elif ty == "NOT":
            kw, w = raw.rstrip(), raw[len(raw.rstrip()):]
            if mode in ("ws", "all"):
                w = rng.choice(WS_RUNS)
            if mode in ("case", "all"):
                kw = randcase(rng, kw)
            s = kw + w
        elif ty in ("BOOLEAN", "NULL", "ANY", "ALL", "DURATION", "DATETIME", "DECIMAL"):
            if mode in ("case", "all"):
                if ty == "DURATION":
                    # the prefix and the designators; keep the quotes
                    s = randcase(rng, raw)
                else:
                    s = randcase(rng, raw)
        elif ty == "ODATA_IDENTIFIER" and raw.lower() == "not" and nxt == "(":
            # `not(` (the keyword glued to a parenthesis) is not in today's grammar; a tree that accepts it as the operator must accept NOT( / Not( alike
            if mode in ("case", "all"):
                s = raw.upper() if raw != raw.upper() else raw.title()
        elif ty == "GEOGRAPHY":
            if mode in ("case", "all"):
                s = randcase(rng, raw[:9]) + raw[9:]
        elif ty == "WS":
            if mode in ("ws", "all"):
                s = rng.choice(WS_RUNS)
        out.append(s)
        if mode in ("bws", "all"):
            # optional whitespace where the grammar has BWS
            ins = False
            if ty == "(" and nxt != "WS" and not (nxt == ")" and prv == "ODATA_IDENTIFIER"):
                ins = rng.random() < p_ins
            elif nxt in (")", ",", ":") and ty not in ("WS", "("):
                ins = rng.random() < p_ins
            elif ty in (",", ":", "UMINUS") and nxt != "WS":
                ins = rng.random() < p_ins
            if ins:
                out.append(rng.choice(WS_RUNS))
    return "".join(out)

def norm(n):
    """structure + literal values (keyword spellings of literals folded)"""
    if isinstance(n, ast.Boolean):
        return ast.Boolean(n.val.lower())
    if isinstance(n, ast.Float):
        return ast.Float(n.val.lower())
    if dataclasses.is_dataclass(n):
        kw = {}
        for f in dataclasses.fields(n):
            v = getattr(n, f.name)
            if isinstance(v, list):
                kw[f.name] = [norm(x) for x in v]
            elif isinstance(v, ast._Node):
                kw[f.name] = norm(v)
            else:
                kw[f.name] = v
        return type(n)(**kw)
    return n

NUM = re.compile(r"(?<![\w'])[+-]?\d+(?:\.\d+)?[eE][+-]?\d+")
def backends():
    from odata_query.sql import AstToSqlVisitor, AstToSqliteSqlVisitor, AstToAthenaSqlVisitor
    from odata_query.roundtrip import AstToODataVisitor
    def sqltxt(v):
        return lambda n: NUM.sub(lambda m: m.group(0).lower(), v.visit(n))
    out = [("sql", sqltxt(AstToSqlVisitor())), ("sqlite", sqltxt(AstToSqliteSqlVisitor())), ("athena", sqltxt(AstToAthenaSqlVisitor("t")))]
    try:
        env = dbenv.sa_env()
        from odata_query.sqlalchemy.orm import AstToSqlAlchemyOrmVisitor
        from odata_query.sqlalchemy.core import AstToSqlAlchemyCoreVisitor
        comp = lambda c: str(c.compile(compile_kwargs={"literal_binds": True}))
        out.append(("sa-orm", lambda n: comp(AstToSqlAlchemyOrmVisitor(env["T"]).visit(n))))
        out.append(("sa-core", lambda n: comp(AstToSqlAlchemyCoreVisitor(env["t_table"]).visit(n))))
    except Exception:  # noqa
        pass
    try:
        denv = dbenv.django_env()
        from odata_query.django.django_q import AstToDjangoQVisitor
        def dj(n):
            v = AstToDjangoQVisitor(denv["T"]); q = v.visit(n)
            return str(denv["T"].objects.annotate(**v.queryset_annotations).filter(q).query) if v.queryset_annotations else str(denv["T"].objects.filter(q).query)
        out.append(("django", dj))
    except Exception:  # noqa
        pass
    return out

def backend_out(fn, node):
    try:
        return "ok " + str(fn(node))
    except Exception as e:  # noqa
        return "exc " + type(e).__name__

def run(ctx):
    import sys
    # the harness compares deep trees (long or-chains are left-nested) with the dataclasses' own recursive ==; both spellings of a filter run under the same limit
    sys.setrecursionlimit(max(sys.getrecursionlimit(), 10000))
    common.build_and_audit(ctx, PROP_MODS, gen=lambda c: gen_tables.generate(["ParserTables"]))
    rng = ctx.rng
    base = list(gens.VALID_FILTERS) + ["b1 eq TRUE", "dt1 gt 2020-01-01T10:00:00Z", "f1 lt 1.5e3", "dt1 gt 2020-01-01T10:00:00.5+02:00 and b1 ne false",
                                       "s1 in ('a', 'b') and not (i1 in (1, 2))", "x eq duration'P1DT2H3M4.5S'", "not b1 and not contains(s1, 'a')", "- i1 lt -2 add 3",
                                       "(i1 add 2) mul 3 gt 4", "kids/all(k: k/x gt 0 or k/x eq null)", "geo.intersects(geo1, geography'POINT(1 2)')"]
    # literals whose CONTENT holds whitespace runs (a re-layout of the filter around them never touches them) and keyword look-alikes
    WS_LITERALS = ["s1 eq 'John  Smith'", "s1 eq 'a\tb' or s1 eq ' lead' or s1 eq 'trail  '", "contains(s1, 'x  y') and s1 ne 'a\nb'", "s1 in ('a  b', ' ', '\t', 'x\r\ny')",
                   "geo.intersects(geo1, geography'POINT(1  2)')", "s1 eq 'a  AND  b' and i1 eq 1", "concat(s1, '  ') eq 'a  ' and not (s1 eq 'NOT  x')",
                   "kids/any(k: k/s eq 'p  q')", "f.g(p='a  b', q=s1)", "s1 eq 'it''s  ok'"]
    base += WS_LITERALS
    # spellings just outside today's grammar (a keyword glued to a parenthesis, an operator without blanks ...): rejected filters are skipped, but IF one is
    # accepted then all its re-spellings must be accepted alike
    base += ["not(i1 gt 5)", "not(contains(s1,'a'))", "i1 eq 1 and not(b1 eq true)", "(i1 eq 1)and(b1 eq true)", "(i1 eq 1)or(i1 eq 2)", "i1 in(1,2)", "kids/any (k: k/x eq 1)", "f.g (1)",
             "i1 eq 1 and(b1 eq true)", "not(i1 in (1, 2))", "not (i1 eq 1)or b1 eq true", "true and not(false)", "i1 add(2) eq 3", "null eq(s1)"]
    # LONG filters (hundreds of clauses, thousands of tokens): a re-layout changes the number of whitespace tokens by a large factor, never the meaning
    LONG = [" or ".join(f"i1 in ({i},{i + 1})" for i in range(n)) for n in (100, 240, 300)] + \
           [" and ".join(f"concat(s1,'{i}') ne 'x{i}'" for i in range(200)), "i1 in (" + ",".join(str(i) for i in range(1500)) + ")",
            " or ".join(f"kids/any(k:k/x eq {i})" for i in range(150))]
    base += LONG
    g = gens_typed.TypedGen(rng, fields={**gens_typed.FIELDS, "time": ["tm1"], "coll": ["c1"]})
    trees = [g.gen("bool", rng.randint(1, 4)) for _ in range(1500 if ctx.thorough else 250)]
    outs = driver.run_batch([driver.req("refprint", "min", "000000", enc(t)) for t in trees])
    base += [unhex(o) for o in outs if o not in ("not-expr", "bad-arg")]
    base = list(dict.fromkeys(base))
    lx, ps = ODataLexer(), ODataParser()
    cases = []
    for f in base:
        try:
            canon = ps.parse(lx.tokenize(f))
        except Exception:  # noqa
            continue
        seen = {f}
        for mode in ("ws", "case", "bws", "all", "all", "all" if ctx.thorough else "case"):
            try:
                v = variant(rng, f, mode)
            except Exception:  # noqa
                continue
            if v not in seen:
                seen.add(v); cases.append((f, v, mode))
        # every whitespace position filled with ONE very long run (alignment, continuation lines, pasted indentation)
        if f in WS_LITERALS or f in base[:12]:
            for run in LONG_RUNS:
                for mode in ("ws", "all"):
                    try:
                        v = variant(rng, f, mode, [run], p_ins=1.0)
                    except Exception:  # noqa
                        continue
                    if v not in seen:
                        seen.add(v); cases.append((f, v, mode))
        if f in LONG:
            for runs in ([" "], ["\n"], ["  \t "]):
                try:
                    v = variant(rng, f, "all", runs, p_ins=1.0)     # a run at EVERY optional-whitespace position
                except Exception:  # noqa
                    continue
                if v not in seen:
                    seen.add(v); cases.append((f, v, "all"))
        # one whitespace kind at a time, everywhere (a line break somewhere in the filter, tabs only, ...)
        for runs in ((["\n"], ["\r\n"], ["\t"], ["\r"]) if (ctx.thorough or f in WS_LITERALS) else (["\n"],)):
            for mode in ("ws", "all"):
                try:
                    v = variant(rng, f, mode, runs)
                except Exception:  # noqa
                    continue
                if v not in seen:
                    seen.add(v); cases.append((f, v, mode))
    common.correspond(ctx, "parse-variants", cases, real_fn=lambda c: impl.real_parse(c[1], lx, ps),
                      model_reqs=lambda c: driver.req("parse", hexs(c[1])[1:-1]),
                      nontrivial=lambda c, r: r.startswith("ok"), describe=lambda c: {"canonical": c[0], "variant": c[1], "mode": c[2]},
                      bucket=lambda c, r: c[2] + "/" + r.split(" ")[0])
    # the property itself, executed: same structure + literal values, same backend results
    bk = backends()
    ctx.extra["backends"] = [b[0] for b in bk]
    viol = []
    for f, v, mode in cases:
        ctx.evaluations += 1
        try:
            a = ps.parse(lx.tokenize(f))
        except Exception:  # noqa
            continue
        try:
            b = ps.parse(lx.tokenize(v))
        except Exception as e:  # noqa
            viol.append((f, v, mode, f"variant rejected: {type(e).__name__}")); continue
        if norm(a) != norm(b):
            viol.append((f, v, mode, "different structure / literal values")); continue
        for name, fn in bk:
            oa, ob = backend_out(fn, a), backend_out(fn, b)
            if oa != ob:
                viol.append((f, v, mode, f"backend {name} translates the two spellings differently: {oa[:200]} vs {ob[:200]}")); break
    ctx.note(f"executed: {len(cases)} variants x {len(bk)} backends, {len(viol)} violations")
    if viol:
        ctx.broken.append(f"property fails on the real code for {len(viol)} variants; first: {viol[0][1]!r}: {viol[0][3]}")

    def search(ctx):
        found = [{"property": "C19", "canonical": f, "variant": v, "mode": mode, "why": why, "signature": "C19:" + mode + ":" + why.split(":")[0][:50],
                  "replay": f"parse({v!r}) vs parse({f!r}), then every backend"} for f, v, mode, why in viol[:50]]
        ctx.extra["searched"] = "every generated variant: real parse of both spellings, normalised ASTs compared, every backend's output compared"
        return found

    return common.finish(
        ctx,
        rule="accepted filters (corpus + typed-grammar trees rendered by the reference printer) x re-layouts: every whitespace run replaced by another "
             "(spaces, tabs, newlines, CR LF, VT, FF, NBSP, EM SPACE), optional whitespace inserted at BWS positions, random case masks on operator / "
             "literal keywords (eq AND Not NULL True in any duration T/Z e); judged by normalised-AST equality and equality of every backend's output; "
             "non-trivial = the variant is accepted",
        assumptions=["backend outputs are compared as text (SQL dialects, with exponent case folded), as compiled SQL with literal binds (SQLAlchemy) and as the query's SQL (Django)",
                     "GUID hex case is not a keyword and is left alone"],
        trusted_extra=[], search_fn=search, known_replay_fn=None)
