"""C15 — shorthands conjoin the filter with the incoming query and leave the host intact."""
import collections, os, subprocess, sys, json
import common, driver, impl, gen_tables, dbenv
import relcommon as rc, ormcommon as oc
from sexpr import enc

PROP_MODS = ["ODataVerif.Tie.Orm", "ODataVerif.Tie.SaFunctions"] + [m for m in ("ODataVerif.Props.C15",) if os.path.exists(common.lean_module_path(m))]

FILTERS = ["a gt 0", "a eq 2 or s eq 'a'", "o/n eq 5", "o/n eq 5 or a eq 2", "o/n eq null", "not (o/name eq 'x')", "w/o/label eq 'l'", "o/name eq 'x' and w/o/label eq 'l'",
           "kids/any(k: k/x eq 2)", "kids/all(k: k/x eq 2)", "tags/any()", "o/n eq 5 and kids/any()", "not (kids/any()) or o/n lt 0", "o/ps/any(q: q/a gt 0)", "s ne null and o/name ne null",
           # through a foreign key that references a natural key: the needed join cannot be replaced by the local column
           "dept/id eq 2", "dept/id eq 10 or a eq 2", "not (dept/id eq 2)", "dept/number eq 10 and dept/id eq 2", "dept/id eq null",
           # null tests, `or` and `not` as OPERANDS of a comparison with true / false (the parents without a related row decide the result)
           "(o/name eq null) eq true", "true eq (o/name eq null)", "(o/name ne null) eq false", "(o/n eq 5 or a eq 2) eq true", "(not (o/name eq 'x')) eq true",
           "(o/n eq null) ne false", "((o/name eq null) eq true) and a ge 0"]

def sat_ids(db, filters):
    D = rc.enc_db(db)
    ids = [r["id"] for r in db["p"]]
    trees = [(t, impl.real_parse_ast(t)) for t in filters]
    outs = driver.run_batch([driver.req("releval", "p", enc(n), D) for t, n in trees])
    res = {}
    for (t, n), o in zip(trees, outs):
        if o in ("noelab", "bad-db", "not-expr", "bad-arg"):
            raise RuntimeError(f"C15 harness: the reference semantics does not elaborate the filter {t!r} ({o}); every filter of this check must be inside the relational grammar")
        cells = o.split(" ")
        res[t] = ({i for i, c in zip(ids, cells) if c.lstrip("x") == "T"}, {i for i, c in zip(ids, cells) if c.startswith("x")})
    return res

def django_bases(env):
    from django.db.models import F, Value, Count
    P = env["P"]
    return [
        ("Manager", lambda: P.objects, None),
        ("QuerySet.all", lambda: P.objects.all(), None),
        ("pre-filtered", lambda: P.objects.filter(a__gte=0), None),
        ("pre-filtered on a relation", lambda: P.objects.filter(o__n=5), None),
        ("pre-excluded", lambda: P.objects.exclude(s="a"), None),
        ("select_related", lambda: P.objects.select_related("o"), None),
        ("ordered desc", lambda: P.objects.order_by("-id"), "order"),
        ("annotated", lambda: P.objects.annotate(twice=F("a") * 2, nkids=Count("kids")), "annot"),
        ("annotated + filtered on annotation", lambda: P.objects.annotate(nk=Count("kids")).filter(nk__gte=1), None),
        ("values-restricted (only)", lambda: P.objects.only("id", "a"), None),
        # managers other than the default one: a secondary manager with its own conditions, a related manager (rows of ONE owner), a many-to-many manager
        ("secondary manager P.live", lambda: P.live, None),
        ("secondary manager P.live.all()", lambda: P.live.all(), None),
        ("related manager o1.ps", lambda: env["O"].objects.get(id=1).ps, None),
        ("many-to-many manager tag1.ps", lambda: env["Tag"].objects.get(id=1).ps, None),
    ]

def sa_bases(env, style):
    sa = env["sa"]; P, O, W, K = env["P"], env["O"], env["W"], env["K"]
    from sqlalchemy.orm import aliased
    import sqlalchemy.orm as _orm
    PA = aliased(P)
    if style == "legacy":
        q = lambda: oc.sa_session().query(P)
        return [("query", q, None), ("pre-filtered", lambda: q().filter(P.a >= 0), None), ("pre-joined P.o (used)", lambda: q().join(P.o), "join:o"),
                ("pre-joined outer P.o", lambda: q().outerjoin(P.o), "join:o"), ("pre-joined P.w (maybe unused)", lambda: q().outerjoin(P.w), "join:w"), ("pre-joined P.dept (natural key)", lambda: q().outerjoin(P.dept), None),
                ("pre-joined P.o filtered on it", lambda: q().join(P.o).filter(O.n == 5), "join:o"), ("ordered desc", lambda: q().order_by(P.id.desc()), "order"),
                ("joinedload(P.o)", lambda: q().options(_orm.joinedload(P.o)), None), ("joinedload(P.w).joinedload(W.o)", lambda: q().options(_orm.joinedload(P.w).joinedload(W.o)), None),
                ("aliased root", lambda: oc.sa_session().query(PA), None), ("aliased root pre-filtered", lambda: oc.sa_session().query(PA).filter(PA.a >= 0), None)]
    if style == "core":
        t = P.__table__; ot = O.__table__; kt = K.__table__
        s = lambda: sa.select(t)
        return [("select(table)", s, None), ("pre-filtered", lambda: s().where(t.c.a >= 0), None), ("ordered desc", lambda: s().order_by(t.c.id.desc()), "order"),
                # pre-joined Core statements: the filter is about the SELECTED table wherever the FROM clause is anchored
                ("select(p) joined to o", lambda: sa.select(t).join(ot, t.c.o_id == ot.c.id, isouter=True), None),
                ("select(p) FROM o JOIN p", lambda: sa.select(t).select_from(ot).join(t, t.c.o_id == ot.c.id), None),
                ("select(p cols) join_from(o, p)", lambda: sa.select(t.c.id, t.c.a, t.c.s).join_from(ot, t, t.c.o_id == ot.c.id), None),
                ("select(p) FROM k JOIN p", lambda: sa.select(t).select_from(kt).join(t, kt.c.p_id == t.c.id).distinct(), None)]
    s = lambda: sa.select(P)
    return [("select", s, None), ("pre-filtered", lambda: s().where(P.a >= 0), None), ("pre-joined P.o (used)", lambda: s().join(P.o), "join:o"),
            ("pre-joined outer P.o", lambda: s().outerjoin(P.o), "join:o"), ("pre-joined P.w (maybe unused)", lambda: s().outerjoin(P.w), "join:w"),
            ("pre-joined P.o filtered on it", lambda: s().join(P.o).where(O.n == 5), "join:o"), ("ordered desc", lambda: s().order_by(P.id.desc()), "order"),
            ("pre-joined W via P.w then W.o", lambda: s().outerjoin(P.w).outerjoin(W.o), "join:w"),
            # loader options: joinedload joins under an anonymous alias a WHERE clause cannot refer to (not "already joined"); contains_eager uses the explicit join
            ("joinedload(P.o)", lambda: s().options(_orm.joinedload(P.o)), None), ("joinedload(P.o) + joinedload(P.w)", lambda: s().options(_orm.joinedload(P.o), _orm.joinedload(P.w)), None),
            ("selectinload(P.kids)", lambda: s().options(_orm.selectinload(P.kids)), None), ("join + contains_eager(P.o)", lambda: s().join(P.o).options(_orm.contains_eager(P.o)), "join:o"),
            ("joinedload(P.o) pre-filtered", lambda: s().options(_orm.joinedload(P.o)).where(P.a >= 0), None),
            # the root entity is an ALIAS of the model (self-joins need one): names resolve against the alias the query selects from
            ("aliased root", lambda: sa.select(PA), None), ("aliased root pre-filtered ordered", lambda: sa.select(PA).where(PA.a >= 0).order_by(PA.id.desc()), "order")]

def single_child_db(db):
    """the same database with at most ONE kid and ONE tag per parent: navigating THROUGH such a collection (kids/x eq 2 - the backends join) then
    denotes the same parents as kids/any(k: k/x eq 2), and no join multiplies a row"""
    import copy
    d = copy.deepcopy(db)
    seen, kids = set(), []
    for k in d["k"]:
        if k["p_id"] not in seen:
            seen.add(k["p_id"]); kids.append(k)
    d["k"] = kids
    seen, pt = set(), []
    for (p, t) in d["p_tags"]:
        if p not in seen:
            seen.add(p); pt.append((p, t))
    d["p_tags"] = pt
    return d

# (filter as applied, the filter whose reference semantics it has on a single-child database)
PROJ_FILTERS = [("a gt 0", None), ("o/n eq 5", None), ("o/n eq null or a eq 2", None), ("kids/any(k: k/x eq 2)", None), ("not kids/any()", None), ("tags/all(t: t/label eq 'l')", None),
                ("kids/x eq 2", "kids/any(k: k/x eq 2)"), ("kids/x gt 0 and a ge 0", "kids/any(k: k/x gt 0) and a ge 0"), ("tags/label eq 'l'", "tags/any(t: t/label eq 'l')"),
                ("kids/x eq 2 or a eq 3", "kids/any(k: k/x eq 2) or a eq 3"), ("kids/o/name eq 'x'", "kids/any(k: k/o/name eq 'x')")]

def projection_runs(ctx, db, tally, viol):
    """base queries that SELECT A NON-UNIQUE COLUMN (the rows of the base are not distinct): the result is compared as a multiset with the
    column values of the base rows that satisfy the filter"""
    from odata_query.django import apply_odata_query as dj_apply
    from odata_query.sqlalchemy import apply_odata_query as sa_apply, apply_odata_core as sa_core
    from odata_query import exceptions as oex
    d1 = single_child_db(db)
    rc.load(d1)
    denv = dbenv.django_env(); senv = dbenv.sa_env()
    sa = senv["sa"]; P = senv["P"]; t = P.__table__; DP = denv["P"]
    sat = sat_ids(d1, sorted({sp or f for f, sp in PROJ_FILTERS}))
    srow = {r["id"]: r["s"] for r in d1["p"]}
    def run_sa(stmt):
        with senv["engine"].connect() as c:
            return [r[0] for r in c.execute(stmt).fetchall()]
    bases = [("sa-orm", "select(P.s)", lambda f: run_sa(sa_apply(sa.select(P.s), f))),
             ("sa-orm", "select(P.s, P.a) ordered", lambda f: run_sa(sa_apply(sa.select(P.s, P.a).order_by(P.id), f))),
             ("sa-legacy", "query(P.s)", lambda f: [r[0] for r in sa_apply(oc.sa_session().query(P.s), f).all()]),
             ("sa-core", "select(t.c.s)", lambda f: run_sa(sa_core(sa.select(t.c.s), f))),
             ("django", "values_list('s', flat=True)", lambda f: list(dj_apply(DP.objects.values_list("s", flat=True), f))),
             ("django", "values('s')", lambda f: [r["s"] for r in dj_apply(DP.objects.values("s"), f)])]
    for f, sp in PROJ_FILTERS:
        want_set, excl = sat[sp or f]
        if excl:
            continue
        want = collections.Counter(srow[i] for i in want_set)
        for backend, bname, fn in bases:
            if backend == "sa-core" and "/" in f:
                continue
            ctx.evaluations += 1
            try:
                got = collections.Counter(fn(f))
            except (oex.ODataException, NotImplementedError) as e:
                if sp is not None:
                    tally[f"{backend}:projection:refused-collection-path"] += 1; continue    # navigating through a collection is not OData: a refusal is fine
                viol.append((backend, bname, f, f"raised {type(e).__name__}: {str(e)[:100]}")); continue
            except Exception as e:  # noqa
                if oc.canon(e).startswith("env:OperationalError") and rc.same_table_twice(f, "P"):
                    tally[f"{backend}:KF-same-table-twice"] += 1; continue
                viol.append((backend, bname, f, f"raised {type(e).__name__}: {str(e)[:100]}")); continue
            if got != want:
                viol.append((backend, "projection base " + bname + " (at most one child per parent)", f,
                             f"returned the values {sorted(got.elements(), key=repr)[:14]} but the base rows that satisfy the filter have {sorted(want.elements(), key=repr)[:14]}"))
            else:
                tally[f"{backend}:projection:" + bname] += 1
    rc.load(db)

def dj_ids(qs, ordered=False):
    ids = list(qs.values_list("id", flat=True))
    return ids if ordered else sorted(set(ids))

def sa_ids(q, style, ordered=False):
    env = dbenv.sa_env()
    if style == "legacy":
        ids = [r.id for r in q.all()]
    elif style == "orm":
        # through a Session: the rows are ENTITIES (loader options such as contains_eager add the related table's columns to the statement, so the first
        # column of a raw row is not always p.id)
        ids = [e.id for e in oc.sa_session().execute(q).unique().scalars().all()]
    else:
        with env["engine"].connect() as c:
            ids = [r[0] for r in c.execute(q).fetchall()]
    return ids if ordered else sorted(set(ids))

REGISTRY_PROBE = r'''
import json, sys
import sqlalchemy as sa
from sqlalchemy import func
names = ["lower", "upper", "substr", "round", "ceil", "floor", "strpos", "ltrim", "rtrim", "char_length", "concat", "now", "coalesce", "length", "trim", "replace", "abs", "max", "min", "count", "sum",
         "instr", "substring", "cast", "extract", "date", "time", "strftime", "like", "random", "current_timestamp", "nullif", "mod"]
def snap():
    out = {}
    col = sa.column("c", sa.Numeric(10, 4))
    from sqlalchemy.dialects import sqlite, postgresql, mysql
    txt = sa.column("s", sa.String)
    for n in names:
        try:
            f = getattr(func, n)(col)
            out[n] = [type(f).__module__ + "." + type(f).__name__, type(f.type).__name__, str(f.compile(compile_kwargs={"literal_binds": True}))]
        except Exception as e:  # noqa
            out[n] = ["raises " + type(e).__name__]
        # the same call, and a call with several arguments, compiled for real dialects (a dialect-specific compilation hook on one of SQLAlchemy's OWN
        # function classes changes the host's statements on that dialect only)
        for dname, d in (("sqlite", sqlite.dialect()), ("postgresql", postgresql.dialect()), ("mysql", mysql.dialect())):
            for tag, call in (("1", lambda: getattr(func, n)(col)), ("3", lambda: getattr(func, n)(txt, "x", txt)), ("2", lambda: getattr(func, n)(txt, 2))):
                try:
                    out[n + ":" + dname + ":" + tag] = str(call().compile(dialect=d, compile_kwargs={"literal_binds": True}))
                except Exception as e:  # noqa
                    out[n + ":" + dname + ":" + tag] = "raises " + type(e).__name__
    out["_expr_type"] = type((func.round(col, 2) / sa.column("d", sa.Integer)).type).__name__
    return out
order = sys.argv[1]
res = {}
if order == "before-then-after":
    res["before"] = snap()
    import odata_query.sqlalchemy  # noqa
    res["after"] = snap()
else:
    import odata_query.sqlalchemy  # noqa
    res["after"] = snap()
print(json.dumps(res))
'''

def registry_probe():
    outs = {}
    for order in ("before-then-after", "after-only"):
        p = subprocess.run([sys.executable, "-c", REGISTRY_PROBE, order], stdout=subprocess.PIPE, stderr=subprocess.PIPE, timeout=120,
                           env=dict(os.environ, PYTHONPATH=os.environ.get("ODATA_QUERY_REPO", "/repo")))
        if p.returncode != 0:
            return None, p.stderr.decode()[-400:]
        outs[order] = json.loads(p.stdout.decode().strip().split("\n")[-1])
    return outs, None

def run(ctx):
    common.build_and_audit(ctx, PROP_MODS, gen=lambda c: gen_tables.generate(["Orm", "SaFunctions"]))
    rng = ctx.rng
    tally, viol = collections.Counter(), []
    dbs = [rc.shapes_db()] + [rc.random_db(rng, 12) for _ in range(3 if ctx.thorough else 1)]
    denv = dbenv.django_env(); senv = dbenv.sa_env()
    from odata_query.django import apply_odata_query as dj_apply
    from odata_query.sqlalchemy import apply_odata_query as sa_apply, apply_odata_core as sa_core
    for db in dbs:
        rc.load(db)
        sat = sat_ids(db, FILTERS)
        # Django
        for bname, mk, tag in django_bases(denv):
            base_ids = dj_ids(mk().all(), ordered=(tag == "order"))
            for f in FILTERS:
                ctx.evaluations += 1
                try:
                    qs = dj_apply(mk(), f)
                    got = dj_ids(qs, ordered=(tag == "order"))
                    if tag == "annot":
                        row = qs.values("id", "twice", "nkids").first()     # the base annotations must still be there
                except Exception as e:  # noqa
                    viol.append(("django", bname, f, f"raised {type(e).__name__}: {str(e)[:100]}")); continue
                want_set, excl = sat[f]
                want = [i for i in base_ids if i in want_set]
                if [i for i in got if i not in excl] != [i for i in (want if tag == "order" else sorted(set(want))) if i not in excl]:
                    viol.append(("django", bname, f, f"returned {got[:12]} but base ∩ filter is {want[:12]}"))
                else:
                    tally["django:" + bname] += 1
        # SQLAlchemy, three entry styles
        for style, apply_fn in (("orm", sa_apply), ("legacy", sa_apply), ("core", sa_core)):
            for bname, mk, tag in sa_bases(senv, style):
                base_ids = sa_ids(mk(), style, ordered=(tag == "order"))
                for f in FILTERS:
                    if style == "core" and ("/" in f):
                        continue
                    ctx.evaluations += 1
                    try:
                        q = apply_fn(mk(), f)
                        got = sa_ids(q, style, ordered=(tag == "order"))
                        stmt = q.statement if style == "legacy" else q
                        sql = str(stmt.compile(dialect=senv["engine"].dialect))
                    except Exception as e:  # noqa
                        if oc.canon(e).startswith("env:OperationalError") and rc.same_table_twice(f, "P"):
                            tally[f"sa-{style}:KF-same-table-twice"] += 1; continue
                        viol.append((f"sa-{style}", bname, f, f"raised {type(e).__name__}: {str(e)[:100]}")); continue
                    want_set, excl = sat[f]
                    want = [i for i in base_ids if i in want_set]
                    if [i for i in got if i not in excl] != [i for i in (want if tag == "order" else sorted(set(want))) if i not in excl]:
                        viol.append((f"sa-{style}", bname, f, f"returned {got[:12]} but base ∩ filter is {want[:12]}"))
                        continue
                    # a relationship the base already joins is not joined twice; a needed one is joined once
                    if tag and tag.startswith("join:"):
                        rel = tag.split(":")[1]
                        tbl = {"o": '"o"' if False else " o ", "w": " w "}[rel]
                        n_join = sql.upper().count("JOIN" + tbl.upper())
                        if n_join > 1:
                            viol.append((f"sa-{style}", bname, f, f"table{tbl}joined {n_join} times: {sql[-200:]}"))
                            continue
                    tally[f"sa-{style}:" + bname] += 1
        projection_runs(ctx, db, tally, viol)
        # the SAME filter text on different root models in ONE process: the relation `ps` exists on Tag (many-to-many), O and W (two different foreign keys),
        # `kids` / `emps` elsewhere; what was compiled for one model must not be reused for another
        shared = ["ps/any(q: q/a gt 0)", "ps/any()", "ps/all(q: q/a ge 0)", "not ps/any(q: q/a gt 0)", "ps/any(q: q/a gt 0) and id gt 1"]
        D_enc = rc.enc_db(db)
        for rnd in range(2):
            for tbl, model in (("tag", "Tag"), ("o", "O"), ("w", "W"), ("o", "O"), ("tag", "Tag")):
                ids = [r["id"] for r in db[tbl]]
                outs = driver.run_batch([driver.req("releval", tbl, enc(impl.real_parse_ast(f)), D_enc) for f in shared])
                for f, o in zip(shared, outs):
                    want = sorted(i for i, c in zip(ids, o.split(" ")) if c.lstrip("x") == "T")
                    excl = {i for i, c in zip(ids, o.split(" ")) if c.startswith("x")}
                    for bname, r in (("django", oc.dj_shorthand_ids(f, model)), ("sa-orm", oc.sa_shorthand_ids(f, "orm", model)), ("sa-legacy", oc.sa_shorthand_ids(f, "legacy", model))):
                        ctx.evaluations += 1
                        if not r.startswith("ids"):
                            viol.append((bname, f"root {model}", f, f"raised / refused: {r[:100]}")); continue
                        got = sorted(int(x) for x in r.split()[1:])
                        if [i for i in got if i not in excl] != [i for i in want if i not in excl]:
                            viol.append((bname, f"root {model} (after the same text on other models)", f, f"returned {got[:12]} but the filter denotes {want[:12]}"))
                        else:
                            tally[f"{bname}:shared-text:{model}"] += 1
    # host's sqlalchemy.func.* before / after importing the backend, in fresh processes
    probe, err = registry_probe()
    if probe is None:
        ctx.broken.append("registry probe subprocess failed: " + str(err))
    else:
        before = probe["before-then-after"]["before"]; after1 = probe["before-then-after"]["after"]; after2 = probe["after-only"]["after"]
        for k in before:
            ctx.evaluations += 1
            if before[k] != after1[k] or before[k] != after2[k]:
                viol.append(("sqlalchemy.func", "import", k, f"host expression changed by importing the backend: before {before[k]} after {after1[k]} / {after2[k]}"))
            else:
                tally["registry:" + ("ok")] += 1
    ctx.extra["judged"] = dict(sorted(tally.items()))
    ctx.note(f"judge C15: {sum(tally.values())} (base, filter, database) combinations agree with base ∩ Spec.RelSem; {len(viol)} violations")
    if viol:
        v = viol[0]
        ctx.broken.append(f"real result violates C15 in {len(viol)} cases; first: {v[0]} base={v[1]} filter={v[2]!r}: {v[3]}"[:800])

    def search(ctx):
        found = [{"property": "C15", "backend": v[0], "base": v[1], "filter": v[2], "why": v[3], "signature": f"C15:{v[0]}:{v[1]}",
                  "replay": "build the base query on the shape database (relcommon.shapes_db), apply the shorthand, compare ids with (ids of the base) ∩ Spec.evalR"} for v in viol[:40]]
        ctx.extra["searched"] = "10 Django bases, 8+7+3 SQLAlchemy bases x 20 filters x databases; sqlalchemy.func probes in two fresh processes (before/after and after-only)"
        return found

    return common.finish(
        ctx,
        rule="base queries {Manager, QuerySet, pre-filtered (own column / relation), pre-excluded, select_related, ordered, annotated (+ filtered on the annotation), only(); select / legacy Query / "
             "select(table): pre-filtered, pre-joined inner / outer on a relationship the filter uses or does not use, pre-joined and filtered, ordered, two-step pre-join} x 15 filters (plain, "
             "navigation, null tests, negation, lambdas) x shape database + random databases: ids (and order) of the result compared with (ids of the base query) ∩ Spec.RelSem; JOIN count of pre-joined "
             "relationships; sqlalchemy.func.<12 names> class / type / SQL before and after importing the backend in two fresh processes; every combination is non-trivial",
        assumptions=["Spec.lambdaClean exclusions as in C04"],
        trusted_extra=["Spec/RelSem.lean; the base query's own rows are taken from executing the base query"],
        search_fn=search, known_replay_fn=None)
