"""C07 — no filter string can inject SQL through the raw SQL dialects."""
import collections
import common, driver, gens_typed, gens, impl, gen_tables
import sqlcommon as sc
from sexpr import enc, hexs
from odata_query import ast

import os
PROP_MODS = ["ODataVerif.Props.Accepted", "ODataVerif.Tie.Sql", "ODataVerif.Tie.SqlTemplates", "ODataVerif.Tie.ParserTables", "ODataVerif.Props.C07", "ODataVerif.Props.C07Lex", "ODataVerif.Props.C07Shape", "ODataVerif.Props.C06Image"]
BENIGN = "x"
KF_ESCAPE = "C07:sql/base.py:_to_pattern:escape-clause"

FIELD_NAMES = ["s1", "Name", "SELECT", "a1_b", "é", "x" * 60, "İd", "K", "_u", "名前", "a٣", "null1", "drop_table"]

def lex_real(texts):
    """Lean's independent tokeniser on real emitted texts"""
    return driver.run_batch([driver.req("sqllex", t) for t in texts])

def shape(tokline):
    """token line -> (shape tuple with literal contents / identifier spellings erased, list of str contents, list of qid names)"""
    if not tokline.startswith("ok"):
        return None, None, None
    toks = tokline.split(" ")[1:]
    sh, strs, qids = [], [], []
    for t in toks:
        if t.startswith("S\""):
            sh.append("S"); strs.append(bytes.fromhex(t[2:-1]).decode("utf-8", "surrogatepass"))
        elif t.startswith("Q\""):
            sh.append("Q"); qids.append(bytes.fromhex(t[2:-1]).decode("utf-8", "surrogatepass"))
        else:
            sh.append(t)
    return tuple(sh), strs, qids

ESC = ("W" + hexs("ESCAPE"), "S")

def strip_escape(sh):
    out, i = [], 0
    while i < len(sh):
        if i + 1 < len(sh) and sh[i] == ESC[0] and sh[i + 1] == "S":
            i += 2
        else:
            out.append(sh[i]); i += 1
    return tuple(out)

def like_escape(s):
    return s.replace("\\", "\\\\").replace("%", "\\%").replace("_", "\\_")

def judge_pair(host, ben, content):
    """host / ben: token lines of the real text for the hostile and the benign variant of ONE filter.
    -> (verdict, detail)  verdict in ok | KF-escape | VIOL-*"""
    hs, hstr, hq = shape(host)
    bs, bstr, bq = shape(ben)
    if bs is None:
        return "skip", "benign variant not tokenisable"
    if hs is None:
        return "VIOL-untokenisable", "the text is rejected by the SQL tokeniser (unterminated literal, comment marker, stray character)"
    if hs != bs:
        if strip_escape(hs) == strip_escape(bs):
            return "KF-escape", ""
        return "VIOL-tokens-changed", f"token shapes differ: {hs[:40]} vs {bs[:40]}"
    # every occurrence of the content sits inside one string token: same number of string tokens, and each one that held the
    # benign content now holds the hostile content (verbatim, or LIKE-escaped with the pattern's wildcards around it)
    if len(hstr) != len(bstr):
        return "VIOL-count", "number of string tokens changed"
    for h, b in zip(hstr, bstr):
        if h == b:
            continue
        cands = {b.replace(BENIGN, content), b.replace(BENIGN, like_escape(content))}
        if h not in cands:
            return "VIOL-content", f"string token {h!r} is neither {b!r} with the content substituted nor its LIKE-escaped form"
    return "ok", ""

def run(ctx):
    common.build_and_audit(ctx, PROP_MODS, gen=lambda c: gen_tables.generate(["Sql", "SqlTemplates", "ParserTables"]))
    rng = ctx.rng
    hostile = list(sc.HOSTILE)
    if ctx.thorough:
        for _ in range(300):
            hostile.append("".join(rng.choice("'\"\\%_-;/* \n\x00xX’＇") for _ in range(rng.randint(1, 8))))
    # 1. correspondence: model text == real text for every (position x hostile content x dialect x alias)
    nodes = []
    pos_index = []          # (position index, content) per node, for the pairing below
    for h in hostile + [BENIGN]:
        for pi, n in enumerate(sc.string_positions(h)):
            nodes.append(n); pos_index.append((pi, h))
    g = gens_typed.TypedGen(rng, str_pool=hostile + gens_typed.STR_POOL)
    rnd = [g.gen("bool", rng.randint(1, 5)) for _ in range(6000 if ctx.thorough else 1200)]
    uniq = sc.dedup(nodes + rnd)
    cases = [(d, a, w, n) for w, n in uniq for d in sc.DIALECTS for a in (None, "t")]
    real_cache = {}
    def real_fn(c):
        r = sc.real_sql(c[0], c[1], c[3]); real_cache[(c[0], c[1], c[2])] = r; return r
    common.correspond(ctx, "sql-text-hostile", cases, real_fn=real_fn,
                      model_reqs=lambda c: sc.model_req(c[0], c[1], c[2]),
                      nontrivial=lambda c, r: r.startswith("ok "),
                      describe=lambda c: f"{c[0]} alias={c[1]} {c[3]!r}"[:400],
                      bucket=lambda c, r: c[0] + "/" + (r.split(" ")[0] if r.startswith("ok") else " ".join(r.split(" ")[:2])))
    # 2. the property on the REAL text, judged by the independent Lean tokeniser:
    #    (a) non-interference of literal contents, per syntactic position
    positions_b = sc.string_positions(BENIGN)
    pairs = []
    for d in sc.DIALECTS:
        for a in (None, "t"):
            ben_txt = []
            for n in positions_b:
                r = sc.real_sql(d, a, n)
                ben_txt.append(r[3:] if r.startswith("ok ") else None)
            for h in hostile:
                for pi, n in enumerate(sc.string_positions(h)):
                    if ben_txt[pi] is None:
                        continue
                    r = sc.real_sql(d, a, n)
                    pairs.append((d, a, pi, h, n, r, ben_txt[pi]))
    texts = []
    for p in pairs:
        texts.append(p[5][3:] if p[5].startswith("ok ") else "")
        texts.append(p[6])
    toks = lex_real(texts)
    tally = collections.Counter()
    viol = []
    kf_hits = 0
    for i, p in enumerate(pairs):
        d, a, pi, h, n, r, _ = p
        if not r.startswith("ok "):
            # the benign variant was accepted, the hostile one raised: contents changed the outcome class
            tally["raised"] += 1
            viol.append((p, ("VIOL-outcome", f"benign content accepted, this content raised {r}")))
            continue
        v = judge_pair(toks[2 * i], toks[2 * i + 1], h)
        tally[v[0]] += 1
        ctx.evaluations += 1
        if v[0] == "KF-escape":
            kf_hits += 1
        elif v[0].startswith("VIOL"):
            viol.append((p, v))
    #    (b) field spellings: every name inside exactly one quoted identifier, tokens outside unchanged
    fpairs = []
    for d in sc.DIALECTS:
        for a in (None, "t"):
            for mk in (lambda f: ast.Compare(ast.Eq(), f, ast.Integer("1")), lambda f: sc.call("contains", f, sc.S("x")),
                       lambda f: ast.Compare(ast.Eq(), sc.call("length", sc.call("concat", f, f)), ast.Integer("2")),
                       lambda f: ast.Compare(ast.In(), f, ast.List([f, ast.Integer("1")]))):
                base = sc.real_sql(d, a, mk(ast.Identifier("s1")))
                for nm in FIELD_NAMES:
                    fpairs.append((d, a, nm, mk(ast.Identifier(nm)), sc.real_sql(d, a, mk(ast.Identifier(nm))), base))
    ftoks = lex_real([x[3:] if x.startswith("ok ") else "" for p in fpairs for x in (p[4], p[5])])
    for i, p in enumerate(fpairs):
        hs, _, hq = shape(ftoks[2 * i]); bs, _, bq = shape(ftoks[2 * i + 1])
        ctx.evaluations += 1
        if hs is None:
            viol.append(((p[0], p[1], -1, p[2], p[3], p[4], ""), ("VIOL-untokenisable", "field spelling breaks tokenisation")))
        elif hs != bs or len(hq) != len(bq):
            viol.append(((p[0], p[1], -1, p[2], p[3], p[4], ""), ("VIOL-tokens-changed", "field spelling changed the token sequence")))
        else:
            tally["field-ok"] += 1
    #    (c) the same through TEXT (lexer and parser in front of the dialect): the filter is written with the content inside a string literal (quotes doubled),
    #        with and without blanks anywhere in the text; contents a decoder would rewrite (%27 %20 + &#39; \u0027 ...) must reach the SQL literal verbatim
    TEXT_CONTENTS = hostile[:40] + ["%27", "%20", "a%27)%20or%20contains(s1,%27", "%27%20or%201%20eq%201%20or%20s1%20eq%20%27", "%25", "%41", "%2527", "a+b", "&#39;", "&apos;", "\\u0027", "\\x27",
                                    "%c0%a7", "%EF%BC%87", "%", "%%", "%2", "%zz", "'%27'", "%27--", "%3B", "%2F*"]
    TEXT_TEMPLATES = ["contains(s1,{q})", "s1 eq {q}", "startswith(s1,{q})", "contains(s1, {q}) and i1 eq 1", "concat(s1,{q}) eq {q}", "s1 in ({q},{q})", "not endswith(s1,{q})"]
    tpairs = []
    lx0, ps0 = None, None
    def text_sql(d, a, text):
        try:
            node = impl.real_parse_ast(text)
        except Exception as e:  # noqa
            return "parse-raised " + type(e).__name__
        return sc.real_sql(d, a, node)
    for tmpl in TEXT_TEMPLATES:
        ben_text = tmpl.replace("{q}", "'" + BENIGN + "'")
        for d in sc.DIALECTS:
            ben = text_sql(d, None, ben_text)
            if not ben.startswith("ok "):
                continue
            for h in TEXT_CONTENTS:
                if "\x00" in h:
                    continue
                txt = tmpl.replace("{q}", "'" + h.replace("'", "''") + "'")
                tpairs.append((d, None, -2, h, txt, text_sql(d, None, txt), ben[3:]))
    ttoks = lex_real([x for p in tpairs for x in ((p[5][3:] if p[5].startswith("ok ") else ""), p[6])])
    for i, p in enumerate(tpairs):
        ctx.evaluations += 1
        if not p[5].startswith("ok "):
            tally["text:raised"] += 1
            viol.append((p, ("VIOL-outcome", f"the same filter text with a benign content was accepted, with this content: {p[5][:80]}"))); continue
        v = judge_pair(ttoks[2 * i], ttoks[2 * i + 1], p[3])
        tally["text:" + v[0]] += 1
        if v[0] == "KF-escape":
            kf_hits += 1
        elif v[0].startswith("VIOL"):
            viol.append((p, v))
    #    (d) FIELD spellings through TEXT: whatever spelling of a field the lexer accepts must end up inside exactly one quoted identifier (spellings the
    #        lexer rejects are simply not accepted filters)
    FIELD_TEXTS = ['"a"', '"a b"', '"a"" OR 1=1 --"', '"x"";DROP TABLE t;--"', "[a]", "`a`", 'a"b', "a'b", "a;b", "a--b", "a/*b*/", '""', '"', 'a""b', "s1\"", '"s1" or "1"="1"', "ns.s1", "s1.x", "_s1", "S1",
                   "\u017f1", "s\u00b9", "\uff531", 's1"', "\"s1\"\"\""]
    FIELD_TEMPLATES = ["{f} eq 1", "contains({f},'x')", "length(concat({f},{f})) eq 2", "{f} in ({f},1)", "not ({f} eq null)"]
    fviol_text = []
    for tmpl in FIELD_TEMPLATES:
        for d in sc.DIALECTS:
            for a in (None, "t"):
                ben = text_sql(d, a, tmpl.replace("{f}", "s1"))
                if not ben.startswith("ok "):
                    continue
                rows_ = [(nm, text_sql(d, a, tmpl.replace("{f}", nm))) for nm in FIELD_TEXTS]
                acc = [(nm, r) for nm, r in rows_ if r.startswith("ok ")]
                tally["text:field-rejected"] += len(rows_) - len(acc)
                ft = lex_real([x for nm, r in acc for x in (r[3:], ben[3:])])
                for i, (nm, r) in enumerate(acc):
                    ctx.evaluations += 1
                    hs, _, hq = shape(ft[2 * i]); bs, _, bq = shape(ft[2 * i + 1])
                    if hs is None:
                        viol.append(((d, a, -3, nm, tmpl.replace("{f}", nm), r, ben[3:]), ("VIOL-untokenisable", "an accepted field spelling breaks the tokenisation of the SQL text")))
                    elif hs != bs or len(hq) != len(bq):
                        viol.append(((d, a, -3, nm, tmpl.replace("{f}", nm), r, ben[3:]), ("VIOL-tokens-changed", "an accepted field spelling changed the token sequence outside the quoted identifier")))
                    else:
                        tally["text:field-ok"] += 1
    ctx.extra["judged"] = dict(tally)
    ctx.note(f"judge C07 on real output (Lean tokeniser): {dict(tally)}; {len(viol)} violations outside known findings")
    if viol:
        p, v = viol[0]
        ctx.broken.append(f"real output violates C07 in {len(viol)} cases; first: {p[0]} alias={p[1]} content={p[3]!r} {p[4]!r}: {v[0]} {v[1]}"[:900])

    def search(ctx):
        found = []
        for p, v in viol[:40]:
            d, a, pi, h, n, r, bt = p
            found.append({"property": "C07", "dialect": d, "alias": a, "position": pi, "content": h, "tree": repr(n),
                          "real_sql": bytes.fromhex(r[3:]).decode("utf-8", "replace") if r.startswith("ok ") else r,
                          "benign_sql": bytes.fromhex(bt).decode("utf-8", "replace") if bt else "",
                          "verdict": v[0], "detail": v[1], "signature": f"C07:{d}:{v[0]}:pos{pi}",
                          "replay": "Visitor().visit(tree) -> Spec.sqlLex (Lean); compare token shape with the same filter holding the content 'x'"})
        if not found:
            # model/real text differences: tokenise the real text of each differing case; an untokenisable text is a violation
            diffs = [(c, r) for (_, c, r, m) in ctx.diffs[:300] if r.startswith("ok ")]
            if diffs:
                tl = lex_real([r[3:] for c, r in diffs])
                for (c, r), t in zip(diffs, tl):
                    if not t.startswith("ok"):
                        found.append({"property": "C07", "dialect": c[0], "alias": c[1], "tree": repr(c[3]),
                                      "real_sql": bytes.fromhex(r[3:]).decode("utf-8", "replace"), "verdict": "VIOL-untokenisable",
                                      "signature": f"C07:{c[0]}:VIOL-untokenisable:diff"})
        ctx.extra["searched"] = "every string position x hostile content x dialect x alias, and field spellings: real text tokenised by Spec.sqlLex and compared with the benign variant"
        return found

    def known_replay(f):
        if f["signature"] == KF_ESCAPE:
            a = sc.real_sql("sqlite", None, sc.call("contains", sc.I("s1"), sc.S("100%")))
            b = sc.real_sql("sqlite", None, sc.call("contains", sc.I("s1"), sc.S("x")))
            ta, tb = lex_real([a[3:], b[3:]])
            return judge_pair(ta, tb, "100%")[0] == "KF-escape"
        return True

    ctx.extra["known_finding_hits"] = kf_hits
    return common.finish(
        ctx,
        rule=f"{len(positions_b)} syntactic positions of a string literal x {len(hostile)} hostile contents x 3 dialects x alias none/'t' (exhaustive), "
             f"{len(FIELD_NAMES)} field spellings x 4 contexts, and seeded typed filters drawing literals from the hostile pool; exact text vs the model, "
             "then the real text is tokenised by the independent Lean tokeniser and its token shape compared with the same filter holding a benign content; "
             "non-trivial = the dialect accepted the filter",
        assumptions=["the table alias comes from the caller, not from the filter, and is trusted",
                     "lone surrogates are outside the modelled input space"],
        trusted_extra=["Spec/SqlLex.lean: the independent SQL tokeniser (rejects comments, ';', stray characters, unterminated literals)"],
        search_fn=search, known_replay_fn=known_replay)
