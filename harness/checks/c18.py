"""C18 — type inference never reports a wrong type."""
import common, driver, gen_tables, gens_typed
from sexpr import enc
from odata_query import ast, typing, exceptions as ex

PROP_MODS = ["ODataVerif.Tie.ReturnTypes", "ODataVerif.Props.C18"]
TYPES = ["bool", "int", "float", "str", "date", "datetime", "time", "coll"]
ALLOWED_SETS = [("String",), ("String", "List"), ("Integer", "Float"), ("Boolean",), ("Date", "DateTime"), ("List",),
                # every single kind on its own (a single class is passed as such, not as a tuple) and a few more pairs
                ("DateTime",), ("Date",), ("Time",), ("Integer",), ("Float",), ("GUID",), ("Time", "DateTime"), ("Date", "Time"), ("String", "GUID"), ("Duration",), ("Duration", "Integer")]

def real_infer(node):
    try:
        t = typing.infer_type(node)
    except Exception as e:  # noqa
        return "raise:" + type(e).__name__
    return t.__name__ if t is not None else "None"

def real_typecheck(node, allowed):
    classes = tuple(getattr(ast, a) for a in allowed)
    try:
        typing.typecheck(node, classes if len(classes) > 1 else classes[0], "field")
    except ex.ArgumentTypeException as e:
        from sexpr import hexs
        return f"lib ArgumentTypeException {hexs(str(getattr(e, 'function_name', '<no-attribute-function_name>') or ''))}"
    except Exception as e:  # noqa
        return "foreign " + type(e).__name__
    return "ok unit"

def all_builtin_calls(rng):
    """every built-in with arguments of every admissible kind (rows of the OData signature table are in
    Lean; here: each function applied to each combination of representative typed arguments)"""
    from odata_query import grammar
    g = gens_typed.TypedGen(rng)
    # per kind: a LITERAL (its type is known to inference), a field (unknown), and a computed term (a call / operator of that type)
    lit = {"bool": ast.Boolean("true"), "int": ast.Integer("5"), "float": ast.Float("2.5"), "str": ast.String("ab"), "date": ast.Date("2020-01-01"),
           "datetime": ast.DateTime("2020-01-01T10:00:00Z"), "time": ast.Time("12:00:00"), "coll": ast.List([ast.Integer("1"), ast.Integer("2")])}
    fld = {"bool": "b1", "int": "i1", "float": "f1", "str": "s1", "date": "d1", "datetime": "dt1", "time": "tm1", "coll": "c1"}
    comp = {"bool": gens_typed.call("contains", ast.String("ab"), ast.String("a")), "int": gens_typed.call("length", ast.String("abc")),
            "float": gens_typed.call("round", ast.Float("1.5")), "str": gens_typed.call("tolower", ast.String("AB")),
            "date": gens_typed.call("date", ast.DateTime("2020-01-01T10:00:00Z")), "datetime": gens_typed.call("now"),
            "time": gens_typed.call("time", ast.DateTime("2020-01-01T10:00:00Z")), "coll": gens_typed.call("concat", ast.List([ast.Integer("1")]), ast.List([ast.Integer("2")]))}
    reps = {t: [lit[t], ast.Identifier(fld[t]), comp[t]] for t in TYPES}
    reps["geo"] = [ast.Geography("POINT(1 2)"), ast.Identifier("geo1"), ast.Identifier("geo2")]
    reps["duration"] = [ast.Duration("P1D"), ast.Identifier("du1"), ast.Identifier("du2")]
    out = []
    import itertools
    for name, ar in grammar.ODATA_FUNCTIONS.items():
        lo, hi = (ar, ar) if isinstance(ar, int) else ar
        for n in range(lo, hi + 1):
            for tys in itertools.product(list(reps.keys()), repeat=n):
                for pick in range(3):
                    args = [reps[t][pick] for t in tys]
                    out.append(gens_typed.call(name, *args))
    return out

def run(ctx):
    common.build_and_audit(ctx, PROP_MODS, gen=lambda c: gen_tables.generate(["ReturnTypes"]))
    rng = ctx.rng
    g = gens_typed.TypedGen(rng)
    nodes = all_builtin_calls(rng)
    n_rand = 20000 if ctx.thorough else 3000
    claimed = {}
    for i in range(n_rand):
        ty = TYPES[i % len(TYPES)]
        nd = g.gen(ty, rng.randint(0, 3))
        nodes.append(nd)
        claimed[id(nd)] = ty
    # arithmetic over every pair of representative terms of every kind (numeric promotion; temporal arithmetic: date sub date is a duration …), plain and nested
    lit = {"int": ast.Integer("5"), "float": ast.Float("2.5"), "date": ast.Date("2020-01-01"), "datetime": ast.DateTime("2020-01-01T10:00:00Z"), "duration": ast.Duration("P1D"),
           "time": ast.Time("12:00:00"), "str": ast.String("ab"), "bool": ast.Boolean("true")}
    comp = {"int": gens_typed.call("length", ast.String("abc")), "float": gens_typed.call("round", ast.Float("1.5")), "date": gens_typed.call("date", ast.DateTime("2020-01-01T10:00:00Z")),
            "datetime": gens_typed.call("now"), "duration": ast.UnaryOp(ast.USub(), ast.Duration("PT1H"))}
    terms = list(lit.values()) + list(comp.values())
    for op in (ast.Add, ast.Sub, ast.Mult, ast.Div, ast.Mod):
        for a in terms:
            for b in terms:
                e = ast.BinOp(op(), a, b)
                nodes.append(e)
                if op in (ast.Add, ast.Sub):
                    nodes.append(ast.BinOp(ast.Add(), e, ast.Duration("PT1H")))
    for a in terms:
        nodes.append(ast.UnaryOp(ast.USub(), a)); nodes.append(ast.UnaryOp(ast.Not(), a))
    # literals at the extremes of their SPELLING (the kind of a literal is the kind of its node, however long or oddly signed its text is), alone and as arguments
    extreme = [ast.Integer(v) for v in ("-9223372036854775808", "+1000000000000000000", "00000000000000000042", "123456789012345678901234567890", "9" * 60, "-0", "+0")] + \
              [ast.Float(v) for v in ("1e400", "-1.5E-400", "0." + "0" * 40 + "1", "1" * 30 + ".5", "+.5e+5" if False else "5e5")] + \
              [ast.String(v) for v in ("", "1", "true", "null", "2020-01-01", "x" * 300)] + [ast.Boolean(v) for v in ("TRUE", "False", "tRuE")] + \
              [ast.Duration(v) for v in ("P", "-P1Y", "+PT0.000001S", "P" + "9" * 30 + "D")] + [ast.Date("0001-01-01"), ast.DateTime("9999-12-31T23:59:59.999999999999+23:59"), ast.Time("00:00:00.000000000001"),
               ast.GUID("00000000-0000-0000-0000-000000000000"), ast.GUID("FFFFFFFF-FFFF-FFFF-FFFF-FFFFFFFFFFFF")]
    for x in extreme:
        nodes += [x, gens_typed.call("concat", x, x), gens_typed.call("substring", ast.String("abc"), x), gens_typed.call("round", x), gens_typed.call("year", x), gens_typed.call("length", x),
                  ast.Compare(ast.Eq(), gens_typed.call("year", ast.Identifier("d1")), x), ast.List([x])]
    # nest: every generated term as first/second argument of concat / substring (argument-derived types)
    for nd in list(nodes[: 400]):
        nodes.append(gens_typed.call("concat", nd, ast.Identifier("s1")))
        nodes.append(gens_typed.call("concat", ast.Identifier("s1"), nd))
        nodes.append(gens_typed.call("substring", nd, ast.Integer("1")))
    wires = {}
    uniq = []
    for nd in nodes:
        w = enc(nd)
        if w not in wires:
            wires[w] = nd; uniq.append((w, nd))
    common.correspond(ctx, "infer_type", uniq,
                      real_fn=lambda c: real_infer(c[1]),
                      model_reqs=lambda c: driver.req("infer", c[0]),
                      nontrivial=lambda c, r: r != "None",
                      describe=lambda c: repr(c[1])[:300],
                      bucket=lambda c, r: type(c[1]).__name__ + "->" + r)
    tc_cases = [(w, nd, al) for (w, nd) in uniq[:: max(1, len(uniq) // (4000 if ctx.thorough else 800))] for al in ALLOWED_SETS]
    common.correspond(ctx, "typecheck", tc_cases,
                      real_fn=lambda c: real_typecheck(c[1], c[2]),
                      model_reqs=lambda c: driver.req("typecheck", c[0], ",".join(c[2])),
                      nontrivial=lambda c, r: r != "ok unit",
                      describe=lambda c: (repr(c[1])[:200], c[2]),
                      bucket=lambda c, r: r.split(" ")[0])

    def judge_literals():
        found = []
        # second consequence: a LITERAL of a kind outside the allowed set is rejected
        kinds = {"Integer:long": ast.Integer("-9223372036854775808"), "Integer:zeros": ast.Integer("00000000000000000042"), "Integer:huge": ast.Integer("9" * 40), "Float:big": ast.Float("1e400"),
                 "String:date-like": ast.String("2020-01-01"), "Boolean:upper": ast.Boolean("TRUE"), "Duration": ast.Duration("P" + "9" * 30 + "D"),
                 "Null": ast.Null(), "Geography": ast.Geography("POINT(1 2)"), "Duration:short": ast.Duration("P1D"),
                 "Integer": ast.Integer("5"), "Float": ast.Float("2.5"), "String": ast.String("ab"), "Boolean": ast.Boolean("true"), "Date": ast.Date("2020-01-01"),
                 "DateTime": ast.DateTime("2020-01-01T10:00:00Z"), "List": ast.List([ast.Integer("1")]), "Time": ast.Time("12:00:00"), "GUID": ast.GUID("01234567-89ab-cdef-0123-456789abcdef")}
        for kname, lit in kinds.items():
            for al in ALLOWED_SETS:
                got = real_typecheck(lit, al)
                kname = kname.split(":")[0]
                if kname in al and got != "ok unit":
                    found.append({"property": "C18", "input": repr(lit), "allowed": al, "why": "typecheck rejects a literal of an allowed kind", "signature": "C18:typecheck-literal:" + kname})
                if kname not in al and not got.startswith("lib ArgumentTypeException"):
                    found.append({"property": "C18", "input": repr(lit), "allowed": al, "real": got, "why": "typecheck does not reject a literal of a kind outside the allowed set",
                                  "signature": "C18:typecheck-literal-accepted:" + kname, "replay": "odata_query.typing.typecheck(<literal>, <allowed classes>, 'field')"})
        return found
    literal_findings = judge_literals()
    ctx.evaluations += 9 * len(ALLOWED_SETS)
    if literal_findings:
        ctx.broken.append(f"typecheck on literals violates C18 in {len(literal_findings)} cases; first: {literal_findings[0]['input']} allowed={literal_findings[0]['allowed']}: {literal_findings[0]['why']}")

    def search(ctx):
        cand = [(c[0], c[1]) for (n, c, r, m) in ctx.diffs] + uniq
        seen, cands = set(), []
        for w, nd in cand:
            if w not in seen:
                seen.add(w); cands.append((w, nd))
        specs = driver.run_batch([driver.req("typeof", w) for w, _ in cands])
        found = []
        for (w, nd), sp in zip(cands, specs):
            real = real_infer(nd)
            if sp in ("None", "not-expr", "bad-arg"):
                continue   # not in the typed grammar: the property says nothing
            if real != "None" and real != sp:
                found.append({"property": "C18", "input": repr(nd), "wire": w, "real_inferred": real, "actual_type": sp,
                              "why": f"infer_type reports {real} for a well-typed expression of type {sp}",
                              "signature": "C18:infer:" + (nd.func.full_name() if isinstance(nd, ast.Call) else type(nd).__name__) + ":" + real,
                              "replay": "odata_query.typing.infer_type(<input>)"})
            elif real == "None" or real == sp:
                # consequence: typecheck must accept when the actual type is allowed
                for al in ALLOWED_SETS:
                    if sp in al and real_typecheck(nd, al) != "ok unit":
                        found.append({"property": "C18", "input": repr(nd), "wire": w, "allowed": al, "actual_type": sp,
                                      "why": "typecheck rejects a well-typed argument", "signature": "C18:typecheck:" + sp})
        found += literal_findings
        ctx.extra["searched"] = f"{len(cands)} typed terms judged by Spec.typeOf (Lean); 9 literal kinds x {len(ALLOWED_SETS)} allowed sets"
        return found

    return common.finish(
        ctx,
        rule="every built-in x every combination of argument kinds (exhaustive over 10 representative kinds), typed terms of depth 0..3 from "
             "the typed grammar, each also nested under concat/substring; non-trivial = infer_type answers something other than None",
        assumptions=["infer_type is exercised on AST objects directly (the parser is C05's)",
                     "args[i] past the end of a call's argument list (IndexError in the real code) is outside the model: the parser guarantees arities"],
        trusted_extra=["Spec/Types.lean: OData 4.01 operator and built-in signatures, typed in from the specification"],
        search_fn=search, known_replay_fn=None)
