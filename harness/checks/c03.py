"""C03 — SQLAlchemy ORM and Core shorthands return exactly the rows the filter denotes, and agree with each other."""
import checks.c02 as c02

def run(ctx):
    return c02.run(ctx, "C03")
