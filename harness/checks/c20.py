"""C20 — lexer and parser instances are reusable and deterministic."""
import hashlib, json, os, subprocess, sys
import common, driver, impl, gens
from sexpr import enc, hexs
from odata_query import ast
from odata_query.grammar import ODataLexer, ODataParser
from odata_query.rewrite import AliasRewriter

PROP_MODS = ["ODataVerif.Tie.ParserTables", "ODataVerif.Props.C20"]

POOL_OK = gens.VALID_FILTERS + ["a/b/c eq 1", "x/y/z/w ne null", "a/b/c/d/e eq a/b/c", "order/customer/address/city eq 'G'", "invoice/customer/address ne null",
                                "geo.distance(a, b) lt 1", "geo.intersects(a, b)", "geo.length(a) gt 0", "contains(a, 'x')", "length(n) eq 1", "f.g(x=1, y=2, z=3)",
                                "k/p/q/any(t: t/u/v eq 1)", "a/b/c eq a/b/c",
                                "status in ('new', 'open', 'held', 'done', 'void', 'open', 'new')", "id in (10, 20, 30, 40, 50, 60, 10)", "f.g(unit=0, radius=1, alpha=2, unit2=3)",
                                "x in (a, b, c, a, geo.b, b)", "concat(concat(a, b), concat(b, a)) eq 'zz'",
                                "tags/any(t: t/name eq 'x')", "c/any(x: x eq 1)", "items/all(i: i/tags/any(t: t eq 'x'))", "c/all(x: x/y/any(t: t/u eq x/v))"]
POOL_BAD = ["a eq", "a eq 1 )", "(((", "a/b/c/d eq", "foo(1)", "distance(a, b) lt 1", "intersects(a, b)", "geo.contains(a, 'x')", "concat(1)", "substring(a)",
            "a ½", "'abc", "a eq 'x", "x/any(", "a in (1", "f.g(x=1, 2)", "a/b/c/", "not", "1 2", "now(1)", "geo.length()", "contains(a)", "a/b/c/d eq ½",
            # two errors in one string: a call that would be rejected, then a syntax / tokenising error later in the text (and the other way round)
            "frobnicate(name) eq 1 and )", "substring(name) eq 'a' and price gt #5", "toupper(a, b) eq 'X' or (", "geo.nosuch(a) and ½", "concat(1) eq 2 eq", "now(1) ) (", ") and frobnicate(1)",
            "length() eq 1 and 'x", "x/any(t: nosuch(t) eq 1 and", "f.g(length()) )",
            # an error strictly INSIDE a lambda body (function error, tokenising error, syntax error), nested too; the probes re-declare the same variables
            "tags/any(t: foo(t/name) eq 1)", "items/all(i: i/tags/any(t: substring(t) eq 'x'))", "tags/any(t: t/name eq #)", "c/any(t: t eq", "c/all(x: x/y/any(t: length() eq 1))",
            "k/any(t: t/u eq 1 and geo.nosuch(t))", "c/any(x: concat(x) eq 'a')", "c/any(x: x eq 1) and c/any(x: nosuch(x))"]
# every OData built-in (names and arities from the specification, typed in here - NOT read from the library's table, which is what is being probed)
# called with 0..4 arguments: acceptance of a call may not depend on which parts of the library were imported or used before
BUILTIN_ARITIES = {"concat": (2, 2), "contains": (2, 2), "endswith": (2, 2), "indexof": (2, 2), "length": (1, 1), "startswith": (2, 2), "substring": (2, 3), "hassubset": (2, 2),
                   "hassubsequence": (2, 2), "matchesPattern": (2, 2), "tolower": (1, 1), "toupper": (1, 1), "trim": (1, 1), "year": (1, 1), "month": (1, 1), "day": (1, 1),
                   "hour": (1, 1), "minute": (1, 1), "second": (1, 1), "fractionalseconds": (1, 1), "totalseconds": (1, 1), "date": (1, 1), "time": (1, 1),
                   "totaloffsetminutes": (1, 1), "mindatetime": (0, 0), "maxdatetime": (0, 0), "now": (0, 0), "ceiling": (1, 1), "floor": (1, 1), "round": (1, 1),
                   "geo.distance": (2, 2), "geo.intersects": (2, 2), "geo.length": (1, 1)}
_ARGS = ["a", "' '", "b", "c"]
ARITY_PROBES = [n + "(" + ", ".join(_ARGS[:k]) + ")" for n in BUILTIN_ARITIES for k in range(0, 5)]
PROBES = POOL_OK + POOL_BAD + ARITY_PROBES

def outcome(lx, ps, text):
    return impl.real_parse(text, lx, ps)

def fresh(text):
    return impl.real_parse(text)

def tokens_interleaved(text_a, text_b, schedule):
    """two tokenizers on ONE lexer instance, advanced according to schedule; returns the two token streams"""
    lx = ODataLexer()
    ga, gb = lx.tokenize(text_a), lx.tokenize(text_b)
    ra, rb = [], []
    for pick_b in schedule:
        g, r = (gb, rb) if pick_b else (ga, ra)
        if r and r[-1].startswith(("stop", "err")):
            continue
        try:
            t = next(g)
            r.append(impl.tokname(t))
        except StopIteration:
            r.append("stop")
        except Exception as e:  # noqa
            r.append("err " + impl.canon_exc(e))
    return ra, rb

def tokens_alone(text, n):
    lx = ODataLexer()
    g = lx.tokenize(text); r = []
    for _ in range(n):
        if r and r[-1].startswith(("stop", "err")):
            break
        try:
            r.append(impl.tokname(next(g)))
        except StopIteration:
            r.append("stop")
        except Exception as e:  # noqa
            r.append("err " + impl.canon_exc(e))
    return r

FRESH_PROG = r'''
import sys, json, os
sys.path.insert(0, sys.argv[1])
import impl                      # imports the library; nothing has been parsed yet in this process
probes = json.loads(sys.stdin.read())
out = []
for p in probes:
    r, w = os.pipe()
    pid = os.fork()
    if pid == 0:                 # child: a process in which no parse has happened before
        os.close(r)
        os.write(w, impl.real_parse(p).encode("utf-8", "surrogatepass")); os._exit(0)
    os.close(w)
    buf = b""
    while True:
        chunk = os.read(r, 65536)
        if not chunk:
            break
        buf += chunk
    os.close(r); os.waitpid(pid, 0)
    out.append(buf.decode("utf-8", "surrogatepass"))
print(json.dumps(out))
'''

def fresh_process_outcomes(probes):
    """outcome of each probe in a process where nothing was parsed before (one forked child per probe)"""
    p = subprocess.run([sys.executable, "-c", FRESH_PROG, common.HERE], input=json.dumps(probes).encode(),
                       stdout=subprocess.PIPE, stderr=subprocess.PIPE, timeout=600)
    return dict(zip(probes, json.loads(p.stdout.decode())))

DIGEST_PROG = r'''
import sys, hashlib, json
order = sys.argv[1]
if order == "rewrite-first":
    import odata_query.rewrite, odata_query.roundtrip, odata_query.grammar
elif order == "sql-first":
    import odata_query.sql, odata_query.typing, odata_query.grammar
elif order == "sqlalchemy-first":
    import odata_query.sqlalchemy, odata_query.grammar
elif order == "django-first":
    import odata_query.django, odata_query.grammar
elif order == "everything-first":
    import odata_query.sql, odata_query.sqlalchemy, odata_query.django, odata_query.rewrite, odata_query.roundtrip, odata_query.typing, odata_query.utils, odata_query.grammar
else:
    import odata_query.grammar
sys.path.insert(0, sys.argv[2])
import impl
probes = json.loads(sys.stdin.read())
print(json.dumps([impl.real_parse(p) for p in probes]))
'''

def run(ctx):
    common.build_and_audit(ctx, PROP_MODS)
    rng = ctx.rng
    n_hist = 1500 if ctx.thorough else 300
    fresh_cache = fresh_process_outcomes(sorted(set(PROBES + POOL_OK + POOL_BAD + ["name eq 'x';", "price lt 10 and ~flag", "a eq 1 #", "a eq 1 and b eq 2 ½", "contains(a, 'x') $", "x/any(t: t eq 1) ;", "a in (1, 2) ~", "not a ½ b"])))
    cases = []
    for h in range(n_hist):
        hist = [rng.choice(POOL_OK if rng.random() < 0.55 else POOL_BAD) for _ in range(rng.randint(1, 8))]
        probe = rng.choice(PROBES)
        mode = rng.choice(["shared-both", "shared-both", "shared-parser", "shared-lexer", "new-after"])
        cases.append((tuple(hist), probe, mode))
    # every ordered pair of filters with navigation paths of three or more segments (paths that share inner segments; state keyed on path pieces)
    deep = [f for f in POOL_OK if f.count("/") >= 2] + ["a/b/c/d eq", "x/b/c eq 1", "a/b/c/d eq 1", "x/y/b/c/d ne null"]
    for h1 in deep:
        for pr in deep:
            if h1 != pr and not pr.endswith(" eq"):
                cases.append(((h1,), pr, "shared-parser"))
    # every input that fails INSIDE a lambda body, followed by every probe that declares a lambda variable (scope bookkeeping must not outlive a failed parse)
    lam_poison = [p for p in POOL_BAD if "any(" in p or "all(" in p]
    lam_probe = [p for p in POOL_OK if "any(" in p or "all(" in p][-8:] + ["tags/any(t: foo(t))", "c/any(x: nosuch(x))"]
    for hp in lam_poison:
        for pr in lam_probe:
            cases.append(((hp,), pr, "shared-both")); cases.append(((hp, hp), pr, "shared-parser"))
    # the SAME failing text twice (and three times, and with a valid text in between) on one lexer / one parser / both: a text that failed once must fail the same way again
    # (token streams, positions or partial results remembered per text); tokenising errors directly after a complete expression are the sharpest case
    TRAIL = ["name eq 'x';", "price lt 10 and ~flag", "a eq 1 #", "a eq 1 and b eq 2 ½", "contains(a, 'x') $", "x/any(t: t eq 1) ;", "a in (1, 2) ~", "not a ½ b"]
    for bad in POOL_BAD + TRAIL:
        for mode in ("shared-both", "shared-lexer", "shared-parser"):
            cases.append(((bad,), bad, mode))
        cases.append(((bad, bad), bad, "shared-both")); cases.append(((bad, "a eq 1"), bad, "shared-both")); cases.append(((bad, "a eq 1", bad), "a eq 1", "shared-lexer"))
    # accumulation: long runs of ONE kind of input (state that only builds up — counters, caches, stacks — needs many steps of the same kind), and
    # single extreme inputs (deep nesting, long chains), each followed by probes that use parentheses, calls, lists and lambdas
    OPEN = ["(a eq", "f.g(", "((a", "x/any(t: t eq", "(½", "a in (1, (2", "not (a eq 1", "concat(a, (b", "x/any(t: t/y/all(u: (u eq"]
    PAREN_PROBES = ["(a eq 1)", "f.g(1)", "x in (1, 2)", "not (a eq 1)", "((a eq 1) and (b eq 2)) or (c eq 3)", "x/any(t: t eq 1)", "concat(a, concat(b, c)) eq 'x'", "a eq 1"]
    EXTREME = ["(" * 40 + "a eq 1" + ")" * 40, "(" * 200, ")" * 50, "not " * 60 + "a", "a" + " and a" * 150, "f.g(" * 40 + "1" + ")" * 40, "x in (" + "(1, " * 30 + "2" + ")" * 31,
               "'" + "x''" * 300, "a/" * 200 + "b eq 1", "-" * 100 + "1 eq 1"]
    for rep in (40, 120) if not ctx.thorough else (40, 120, 400):
        for bad in OPEN + POOL_BAD[:8] + POOL_OK[:4]:
            for probe in PAREN_PROBES[:: (1 if ctx.thorough else 3)]:
                cases.append((tuple([bad] * rep), probe, "shared-both"))
        cases.append((tuple(rng.choice(OPEN) for _ in range(rep)), rng.choice(PAREN_PROBES), "shared-lexer"))
        cases.append((tuple(rng.choice(OPEN) for _ in range(rep)), rng.choice(PAREN_PROBES), "shared-parser"))
    for ext in EXTREME:
        for probe in PAREN_PROBES[::2]:
            cases.append(((ext,), probe, "shared-both"))
        cases.append(((), ext, "shared-both"))      # the extreme input itself on fresh instances (model = fresh)
    def real_hist(c):
        hist, probe, mode = c
        lx, ps = ODataLexer(), ODataParser()
        for t in hist:
            a = lx if mode in ("shared-both", "shared-lexer") else ODataLexer()
            b = ps if mode in ("shared-both", "shared-parser") else ODataParser()
            outcome(a, b, t)
        if mode == "new-after":
            return outcome(ODataLexer(), ODataParser(), probe)
        return outcome(lx if mode != "shared-parser" else ODataLexer(), ps if mode != "shared-lexer" else ODataParser(), probe)
    # model: the probe parsed by the (history-independent, proved) model
    common.correspond(ctx, "history-then-probe", cases, real_fn=real_hist,
                      model_reqs=lambda c: driver.req("parse", hexs(c[1])[1:-1]),
                      nontrivial=lambda c, r: len(c[0]) >= 2, describe=lambda c: {"history": list(c[0]), "probe": c[1], "instances": c[2]},
                      bucket=lambda c, r: c[2] + "/" + r.split(" ")[0])
    # interleaved tokenizers on one lexer instance
    il = []
    for _ in range(600 if ctx.thorough else 150):
        a, b = rng.choice(POOL_OK + POOL_BAD), rng.choice(POOL_OK + POOL_BAD)
        sch = tuple(rng.random() < 0.5 for _ in range(rng.randint(2, 30)))
        il.append((a, b, sch))
    bad_il = []
    for a, b, sch in il:
        ra, rb = tokens_interleaved(a, b, sch)
        if ra != tokens_alone(a, len(ra)) or rb != tokens_alone(b, len(rb)):
            bad_il.append((a, b, sch))
    ctx.evaluations += len(il)
    ctx.note(f"interleaved tokenizers on one lexer: {len(il)} schedules, {len(bad_il)} interfered")
    if bad_il:
        ctx.broken.append(f"correspondence interleaved-tokenizers: {len(bad_il)} schedules interfere; first {bad_il[0]!r}")
    # AliasRewriter with caller-supplied (used) lexer/parser vs fresh ones
    ar_bad = []
    maps = [{"a": "x/y/z", "b/c": "q"}, {"n": "order/customer/address/city", "m": "invoice/customer/address"}, {"d": "geo.distance(p, q)", "e": "contains(a, 'x')"}]
    for i in range(200 if ctx.thorough else 60):
        lx, ps = ODataLexer(), ODataParser()
        for t in [rng.choice(POOL_OK + POOL_BAD) for _ in range(rng.randint(1, 6))]:
            outcome(lx, ps, t)
        m = maps[i % len(maps)]
        try:
            used = AliasRewriter(m, lx, ps).replacements
            r1 = {enc(k): enc(v) for k, v in used.items()}
        except Exception as e:  # noqa
            r1 = "raise " + type(e).__name__
        r2 = {enc(k): enc(v) for k, v in AliasRewriter(m).replacements.items()}
        if r1 != r2:
            ar_bad.append((m, r1))
    # the rewriter as part of the HISTORY: building it (successfully or with an alias that raises — syntax error, tokenising error, function error,
    # a key that is not a field) on caller-supplied instances, then parsing probes on those same instances
    bad_maps = [{"b": "author/ eq"}, {"b": "author # name"}, {"length(a)": "a_len"}, {"b": "foo(1)"}, {"b": "concat(1)"}, {"(": "x"}, {"a": "x", "b": "'unterminated"},
                {"a": "(((", "c": "d"}, {"x": "f.g(x=1, 2)"}]
    for i, m in enumerate(bad_maps + maps):
        for probe in ["coalesce(a, b) eq 1", "substring(name) eq 'x'", "geo.area(x) gt 1", "foo(1)", "concat(1)", "a eq 1", "(a eq 1)", "f.g(x=1)", "x/any(t: t eq 1)", "now(1)"]:
            lx, ps = ODataLexer(), ODataParser()
            try:
                AliasRewriter(m, lx, ps)
            except Exception:  # noqa
                pass
            got = outcome(lx, ps, probe)
            want = fresh(probe)
            ctx.evaluations += 1
            if got != want:
                ar_bad.append((m, f"after AliasRewriter({m!r}, lexer, parser) the probe {probe!r} gives {got[:120]} on those instances, fresh instances give {want[:120]}"))
    ctx.evaluations += 200 if ctx.thorough else 60
    if ar_bad:
        ctx.broken.append(f"AliasRewriter built with used lexer/parser differs from fresh ones: {ar_bad[0]!r}")
    # process-level determinism: digests of a probe set in fresh subprocesses under several hash seeds / import orders
    seeds = ["0", "1", "42", "12345", "random"] + (["7", "99", "2024", "31337", "4294967295"] if ctx.thorough else [])
    digests, per_process = {}, {}
    for sd in seeds:
        for order in (["grammar-first", "rewrite-first", "sql-first", "sqlalchemy-first", "django-first", "everything-first"] if sd in ("0", "1") or ctx.thorough else ["grammar-first"]):
            env = dict(os.environ, PYTHONHASHSEED=sd)
            p = subprocess.run([sys.executable, "-c", DIGEST_PROG, order, common.HERE], input=json.dumps(PROBES).encode(), env=env,
                               stdout=subprocess.PIPE, stderr=subprocess.PIPE, timeout=300)
            try:
                outs_p = json.loads(p.stdout.decode().strip().split("\n")[-1])
                per_process[(sd, order)] = outs_p
                digests[(sd, order)] = hashlib.sha256("\n".join(outs_p).encode()).hexdigest()
            except Exception:  # noqa
                digests[(sd, order)] = "ERR " + p.stderr.decode()[-200:]
    here = hashlib.sha256("\n".join(fresh(p) for p in PROBES).encode()).hexdigest()
    truly_fresh = hashlib.sha256("\n".join(fresh_cache[p] for p in PROBES).encode()).hexdigest()
    if truly_fresh != here:
        ctx.broken.append("outcomes of the probe set parsed one after another in this process differ from each probe parsed in a process of its own")
    ctx.extra["process_digests"] = {f"{k[0]}/{k[1]}": v[:16] for k, v in digests.items()}
    ctx.evaluations += len(digests)
    if len(set(digests.values()) | {here}) != 1:
        ctx.broken.append(f"probe digests differ across hash seeds / import orders: {sorted(set(digests.values()))[:3]} vs in-process {here[:16]}")

    def search(ctx):
        found = []
        for (n, c, r, m) in ctx.diffs[:200]:
            want = fresh_cache.get(c[1]) or fresh_process_outcomes([c[1]])[c[1]]
            if r != want:
                found.append({"property": "C20", "history": list(c[0]), "probe": c[1], "instances": c[2], "real_after_history": r[:600], "fresh": want[:600],
                              "why": "the result of the probe depends on what the instances processed before", "signature": "C20:history:" + c[1][:30],
                              "replay": "run the history on one (lexer, parser) pair, then parse the probe; compare with fresh instances"})
        for a, b, sch in bad_il[:5]:
            found.append({"property": "C20", "text_a": a, "text_b": b, "schedule": list(sch), "why": "tokenizers interleaved on one lexer instance interfere", "signature": "C20:interleave"})
        for m, r1 in ar_bad[:5]:
            found.append({"property": "C20", "alias_map": m, "with_used_instances": str(r1)[:600], "why": "AliasRewriter with caller-supplied instances differs from fresh ones", "signature": "C20:rewriter"})
        if truly_fresh != here:
            for pr in PROBES:
                if fresh(pr) != fresh_cache[pr]:
                    found.append({"property": "C20", "probe": pr, "after_other_parses_in_this_process": fresh(pr)[:400], "in_a_process_of_its_own": fresh_cache[pr][:400],
                                  "why": "a NEW lexer/parser pair gives a different result after other instances parsed other inputs in the same process",
                                  "signature": "C20:process-state:" + pr[:30]})
                    break
        for (sd, order), outs_p in per_process.items():
            for pr, o in zip(PROBES, outs_p):
                if o != fresh_cache.get(pr, o):
                    found.append({"property": "C20", "probe": pr, "PYTHONHASHSEED": sd, "import_order": order, "outcome_there": o[:400], "in_a_process_that_imports_only_the_parser": fresh_cache[pr][:400],
                                  "why": "the outcome of parsing the probe depends on the hash seed / on which modules of the library were imported first",
                                  "signature": "C20:process:" + order + ":" + pr[:30],
                                  "replay": "PYTHONHASHSEED=<seed> python -c 'import <modules in that order>; parse the probe with a fresh ODataLexer / ODataParser'"})
                    break
        if len(set(digests.values()) | {here}) != 1 and not any(f.get("import_order") for f in found):
            found.append({"property": "C20", "digests": {f"{k[0]}/{k[1]}": v for k, v in digests.items()}, "in_process": here,
                          "why": "outcomes depend on PYTHONHASHSEED / import order", "signature": "C20:process"})
        ctx.extra["searched"] = "differing histories re-judged against fresh instances; interleavings; rewriter; process digests"
        return found

    return common.finish(
        ctx,
        rule="accumulation histories (40 / 120 repetitions of one failing or valid input, incl. nine kinds of input that leave a parenthesis open) and ten extreme single inputs (nesting depth 40-200, chains of 60-150 operators), each followed by parenthesised probes; random histories of 1..8 parse calls (valid filters with long shared-prefix paths and geo/plain function pairs, syntax / tokenising / function errors) "
             "on shared lexer+parser, shared parser only, shared lexer only, or new instances after the history, followed by a probe; interleaved tokenizers; "
             "AliasRewriter with used instances; probe digests in fresh subprocesses under several PYTHONHASHSEED values and three import orders; "
             "non-trivial = history of at least two calls",
        assumptions=["hash seed, import order and SLY's table construction are runtime facts: checked, not proved (partial)",
                     "the instance state machine of Model/Instances.lean abstracts the LR driver to 'started from the reset configuration'"],
        trusted_extra=["Model/Instances.lean follows sly.lex.Lexer.tokenize / sly.yacc.Parser.parse (sly 0.4)"],
        search_fn=search, known_replay_fn=None)
