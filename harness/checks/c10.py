"""C10 — parsing any string terminates with an AST or a library syntax/function error."""
import signal, sys, time
import common, driver, gens, impl, gen_tables
from sexpr import hexs
from odata_query import ast, exceptions as ex
from odata_query.grammar import ODataLexer, ODataParser

PROP_MODS = ["ODataVerif.Tie.ExceptionTree", "ODataVerif.Tie.ParserTables", "ODataVerif.Props.C10", "ODataVerif.Props.C10Total", "ODataVerif.Props.C10Image"]
PER_CASE_TIMEOUT = 20.0
ALLOWED = ("ok ", "lib TokenizingException", "lib ParsingException", "lib UnknownFunctionException", "lib ArgumentCountException")

class _Timeout(BaseException):
    pass

_TIMEOUTS = [0]
_BUDGET_SCALE = [1.0]     # thorough: 5x (inputs up to 20 k characters)

def _alarm(signum, frame):
    raise _Timeout()

def guarded_parse(text, lx=None, ps=None, tree=True):
    """real outcome with a wall-clock budget: CPython's re checks for signals while matching"""
    # after a few cases have exhausted the full budget the run is already a violation: later cases get a short budget
    budget = PER_CASE_TIMEOUT * _BUDGET_SCALE[0] if _TIMEOUTS[0] < 3 else 1.5
    old = signal.signal(signal.SIGALRM, _alarm)
    signal.setitimer(signal.ITIMER_REAL, budget)
    try:
        if tree:
            return impl.real_parse(text, lx, ps)
        # long inputs: outcome class only (the tree can be deeper than the harness can encode); parsed under the interpreter's DEFAULT recursion
        # limit - the harness raises the limit for its own encoder, and a user's process has the default
        rl = sys.getrecursionlimit()
        try:
            sys.setrecursionlimit(1000)
            try:
                r = (ps or ODataParser()).parse((lx or ODataLexer()).tokenize(text))
            finally:
                sys.setrecursionlimit(rl)
        except Exception as e:  # noqa
            return impl.canon_exc(e).split(" ")[0] + " " + impl.canon_exc(e).split(" ")[1] if impl.canon_exc(e).startswith("lib") else impl.canon_exc(e)
        return "ok" if isinstance(r, ast._Node) else "nonnode " + type(r).__name__
    except _Timeout:
        _TIMEOUTS[0] += 1
        return f"timeout>{budget}s"
    except RecursionError:
        return "foreign RecursionError"
    finally:
        signal.setitimer(signal.ITIMER_REAL, 0)
        signal.signal(signal.SIGALRM, old)

def long_inputs(ctx):
    n_small = [30, 200, 1500]
    n_big = [5000, 20000] if ctx.thorough else []
    out = []
    # string CONTENTS that another parser would choke on (regex repetition bounds, deeply nested groups, format fields, huge exponents): a literal's content
    # is data, whatever function it is handed to
    payloads = ["^x{4294967296}$", "x{2147483648,}", "(" * 1500 + ")" * 1500, "(" * 200, "[" * 500, "(?P<n>" * 300, "\\", "\\1" * 50, "{0" * 300 + "}" * 300, "%(x)s" * 100, "${" * 200,
                "a" * 70000, "(a*)*b" + "a" * 40, "[[:alpha:]]", "(?i)(?s)(?x)", "\\N{LATIN SMALL LETTER A}", "\\x", "\\u12", "{4294967296}", "1e999999999", "9" * 400 + "e" + "9" * 400]
    from odata_query import grammar as _g
    for nm, ar in list(_g.ODATA_FUNCTIONS.items()):
        lo = ar if isinstance(ar, int) else ar[0]
        if lo == 0:
            continue
        for pl in payloads[: (len(payloads) if nm in ("matchesPattern", "contains", "substring", "concat", "date", "length") else 4)]:
            q = "'" + pl.replace("'", "''") + "'"
            out.append(nm + "(" + ", ".join(["a"] * (lo - 1) + [q]) + ")")
            out.append(nm + "(" + ", ".join([q] + ["a"] * (lo - 1)) + ")")
    # digit runs beyond the interpreter's int <-> str conversion limit (4300 digits): a literal's TEXT is never a reason for a foreign exception
    for n in (4299, 4301, 5000):
        out += ["1" * n, "a eq " + "9" * n, "1." + "5" * n, "-" + "7" * n + " lt x", "x in (1, " + "0" * n + "1)", "1e" + "9" * n, "f(" + "3" * n + ")"]
    for n in n_small + n_big:
        out += ["'" + "x" * n, "'" + "x''" * n, "a eq '" + "ab" * n, "geography'" + "y" * n, "'" + "''" * n, "'" + "''" * n + "'",
                "(" * n, "(" * n + "1" + ")" * n, "not " * n + "a", "-" * n + "a", "a" + " add a" * n, "a" + " and a" * n + " or",
                "f(" * min(n, 3000) + "1" + ")" * min(n, 3000), "1," * n, "(" + "1, " * n + "1)", "a in (" + "'s', " * n + "'t')",
                "a" * n, "a." * n + "b", "a" + ".b" * n, "1" * n, "1." + "5" * n, "duration'P" + "1" * n + "D'", "duration'P" + "1" * n,
                " " * n, "a eq 1" + " " * n, "{" * min(n, 50), "a eq {" + "x" * min(n, 100) + "}", "'{" + "0}" * min(n, 200) + "'", "a" + " eq {1}" ,
                "x/any(" * min(n, 400) + "y: y" + ")" * min(n, 400)]
    # the real parser is quadratic in the number of path segments (0.6 s at 1000, 10 s at 4000 on this machine): sizes are kept where the
    # per-case budget is >= 20x the unloaded time, so that a loaded machine cannot turn slowness into a reported non-termination
    for n in ([100, 1000] + ([2500] if ctx.thorough else [])):
        out += ["/".join(["seg"] * n) + " eq 1", "/".join(["s"] * n) + "/any()", "/".join(["s"] * n) + "/",
                # two features together: a long path that ENDS in a lambda / is the owner inside one / is called
                "/".join(["s"] * n) + "/any(x: x eq 1)", "/".join(["s"] * n) + "/all(x: x/a gt 1)", "c/any(x: " + "/".join(["x"] * n) + " eq 1)",
                "/".join(["s"] * n) + "/any(x: x/" + "/".join(["t"] * min(n, 300)) + "/any())", "f.g(" + "/".join(["s"] * n) + ")", "a in (" + "/".join(["s"] * n) + ", 1)"]
    return list(dict.fromkeys(out))

def run(ctx):
    sys.setrecursionlimit(max(sys.getrecursionlimit(), 3000))
    _BUDGET_SCALE[0] = 5.0 if ctx.thorough else 1.0
    common.build_and_audit(ctx, PROP_MODS, gen=lambda c: gen_tables.generate(["ExceptionTree", "ParserTables"]))
    rng = ctx.rng
    atoms = gens.ATOMS + ["{", "}", "{0}", "%s", "\\", "\"", "\x00", "é", "ı", "’", "＇", "\n", "\t"]
    # "the same string always gives the same outcome" whatever was parsed before: every corpus filter is first parsed in other LETTER CASES
    # (identifiers and function names are case-sensitive, keywords are not), then as written — all in this one process
    texts = []
    for f in list(gens.VALID_FILTERS) + gens.KEYWORD_FILTERS:
        texts += [f.upper(), f.title(), f.swapcase()]
    texts += list(gens.atom_sequences(2, atoms))
    texts += list(gens.atom_sequences(4 if ctx.thorough else 3, gens.ATOMS_SMALL))
    for f in gens.VALID_FILTERS:
        texts.append(f)
        for _ in range(1500 if ctx.thorough else 120):
            m = f
            for _ in range(rng.randrange(1, 4)):
                m = gens.mutate(rng, m)
            texts.append(m)
    # valid texts of the FULL grammar: random trees (calls, lists and lambdas inside in-lists and arguments, named parameters, every literal kind)
    # rendered by the independent reference printer, then mutated
    import gens_ast
    from sexpr import enc, unhex
    g = gens_ast.AstGen(rng)
    trees = [g.gen(rng.randint(1, 5)) for _ in range(3000 if ctx.thorough else 500)]
    texts += ["name in (tolower(first_name), 'bob')", "year(created_at) in (year(now()), 2020)", "total in (length(name) add 1, 10)",
              "pair in ((1, 2), (3, 4))", "name in (concat(a, b),)", "x in (a/b, c/any(t: t eq 1), -y, not z)", "f.g(p=(1, (2, 3)), q=h.i(j=1))"]
    rendered = [unhex(o) for o in driver.run_batch([driver.req("refprint", "min", "000000", enc(t)) for t in trees]) if o not in ("not-expr", "bad-arg")]
    texts += rendered
    for f in rendered[:: (1 if ctx.thorough else 4)]:
        texts.append(gens.mutate(rng, f))
    # every name the parser's own source singles out, as a call with 0-3 arguments, with a one-element trailing-comma list, with named parameters,
    # under a namespace, and as a field
    for nm in gens.source_names():
        texts += [f"{nm}()", f"{nm}(a)", f"{nm}('a',)", f"{nm}(a, 'b')", f"{nm}(1, 2, 3)", f"{nm}((1, 2),)", f"{nm}(x=1)", f"ns.{nm}('a',)", f"geo.{nm}(a, b)", f"{nm} eq 1",
                  f"x/{nm} eq 1", f"x eq 1 and {nm}('a',)", f"{nm}( a , )"]
    # keywords respelled with Unicode case twins (ſ ı İ K): re.I still matches them, the actions see a non-ASCII spelling
    for f in list(gens.VALID_FILTERS) + gens.KEYWORD_FILTERS:
        texts += gens.unicode_case_variants(f)
    pools = ["abcxyzEQ nd'(),/:=-+.0123456789{}", "ıİſK  ٠١é½\t\n{}%\\\"", "truefalsenullanyallnotindivmod "]
    for _ in range(60000 if ctx.thorough else 6000):
        k = rng.randrange(1, 14)
        texts.append("".join(rng.choice(rng.choice(pools)) for _ in range(k)))
    for _ in range(3000 if ctx.thorough else 500):
        texts.append("".join(chr(rng.choice([rng.randrange(32, 127), rng.randrange(128, 0x3000), rng.randrange(0x10000, 0x10400)])) for _ in range(rng.randrange(1, 10))))
    texts = list(dict.fromkeys(texts))
    lx, ps = ODataLexer(), ODataParser()
    t0 = time.time()
    common.correspond(ctx, "parse-any-string", texts, real_fn=lambda t: guarded_parse(t, lx, ps),
                      model_reqs=lambda t: driver.req("parse", hexs(t)[1:-1]),
                      nontrivial=lambda t, r: True, describe=lambda t: t,
                      bucket=lambda t, r: r.split(" ")[0] + (" " + r.split(" ")[1] if r.startswith("lib") else ""))
    # determinism on shared instances (same string, same outcome) — a runtime fact
    sample = texts[:: max(1, len(texts) // 3000)]
    nondet = [t for t in sample if guarded_parse(t, lx, ps) != guarded_parse(t, lx, ps)]
    ctx.evaluations += len(sample)
    if nondet:
        ctx.broken.append(f"same string gave two different outcomes: {nondet[0]!r}")
        ctx.diffs += [("determinism", t, "differs", "same") for t in nondet]
    # "the same string always gives the same outcome": the corpus filters, parsed here AFTER everything above (incl. their own re-spellings in other
    # letter cases), must give what each gives in a process of its own in which nothing was parsed before
    import checks.c20 as c20
    corpus = list(dict.fromkeys(list(gens.VALID_FILTERS) + gens.KEYWORD_FILTERS))
    # … and every built-in called with too few / too many arguments, unknown names under the built-in namespaces and custom namespaces (the outcomes that
    # depend on the function table: a table or namespace set consumed / mutated by earlier parses shows here)
    from odata_query import grammar as _gr
    for nm in _gr.ODATA_FUNCTIONS:
        corpus += [f"{nm}()", f"{nm}(a, b, c, d)", f"{nm}(a)", f"{nm}(a, b)"]
    corpus += ["geo.area(x)", "geo.nosuch()", "nosuch(1)", "my.fn()", "my.fn(a, b, c)", "my.geo.length()", "geo.x.length(a, b)", "f.g(a=1, b=2)", "geo.distance(a=p, b=q)"]
    corpus = list(dict.fromkeys(corpus))
    fresh = c20.fresh_process_outcomes(corpus)
    hist_diff = [(t, guarded_parse(t), fresh[t]) for t in corpus]
    hist_diff = [(t, a, b) for t, a, b in hist_diff if a != b]
    ctx.evaluations += len(corpus)
    ctx.note(f"corpus after the run vs each filter in a fresh process: {len(corpus)} filters, {len(hist_diff)} differ")
    if hist_diff:
        ctx.broken.append(f"the same string gives different outcomes depending on what was parsed before: {hist_diff[0][0]!r} gives {hist_diff[0][2][:80]} in a fresh process but {hist_diff[0][1][:80]} after other inputs")
    # long repetitive inputs: outcome class only, under a per-case time budget
    longs = long_inputs(ctx)
    def model_class(ans):
        if ans.startswith("ok "):
            return "ok"
        return " ".join(ans.split(" ")[:2]) if ans.startswith("lib") else ans
    common.correspond(ctx, "long-inputs", longs, real_fn=lambda t: guarded_parse(t, None, None, tree=False),
                      model_reqs=lambda t: driver.req("parse", hexs(t)[1:-1]), model_parse=model_class,
                      nontrivial=lambda t, r: True, describe=lambda t: f"{t[:40]!r}… (len {len(t)})",
                      bucket=lambda t, r: "long/" + r)
    ctx.extra["longest_input_chars"] = max(len(t) for t in longs)
    ctx.extra["per_case_timeout_s"] = PER_CASE_TIMEOUT

    def search(ctx):
        found = []
        for t, a, b in hist_diff[:20]:
            found.append({"property": "C10", "input": t, "in_a_fresh_process": b[:400], "after_other_inputs_in_one_process": a[:400],
                          "why": "the same string does not always give the same outcome: it depends on what was parsed earlier in the process",
                          "signature": "C10:history:" + t[:30], "replay": "parse the case re-spellings (upper / title / swapcase) of the corpus, then this string; compare with a fresh process"})
        # inputs on which the model and the real parser differ: does the real parser itself give them another outcome in a process of their own?
        # (inputs that do not terminate within the budget are left to the scan below: a fresh process would not terminate either)
        dtexts = [c for c in dict.fromkeys(c for (n, c, r, m) in ctx.diffs if isinstance(c, str) and len(c) < 2000 and not str(r).startswith("timeout"))][:300]
        inproc = {t: guarded_parse(t) for t in dtexts} if _TIMEOUTS[0] < 3 else {}
        dtexts = [t for t in dtexts if t in inproc and not inproc[t].startswith("timeout")]
        if dtexts:
            try:
                fr = c20.fresh_process_outcomes(dtexts)
            except Exception:  # noqa  (a child that does not terminate: nothing to compare)
                fr = {}
            for t in dtexts:
                a = inproc[t]
                if t in fr and a != fr[t]:
                    found.append({"property": "C10", "input": t, "in_a_fresh_process": fr[t][:400], "after_other_inputs_in_one_process": a[:400],
                                  "why": "the same string does not always give the same outcome: it depends on what was parsed earlier in the process",
                                  "signature": "C10:history:" + t[:30], "replay": "parse the string in a fresh process, and again in a process that has parsed other filters (e.g. one with a namespaced call)"})
                    if len(found) > 30:
                        break
        cand = [c for (n, c, r, m) in ctx.diffs] or (texts + longs)
        for t in cand[:20000]:
            r = guarded_parse(t, None, None, tree=len(t) < 2000)
            if not r.startswith(ALLOWED) and not r == "ok":
                found.append({"property": "C10", "input": t if len(t) < 400 else None, "input_prefix": t[:200], "input_len": len(t),
                              "input_hex": t.encode("utf-8", "surrogatepass").hex() if len(t) < 4000 else None,
                              "real_outcome": r, "why": "outcome is neither an AST node nor one of the library's four syntax/function errors "
                              "(foreign exception, non-node result, or no termination within the budget)",
                              "signature": "C10:" + r.split(" ")[0] + ":" + (r.split(" ")[1] if " " in r else ""),
                              "replay": "ODataParser().parse(ODataLexer().tokenize(<input>))"})
                if len(found) > 30:
                    break
        ctx.extra["searched"] = "every differing input (then all generated ones) re-run on the real code; judge: outcome class in {AST node, Tokenizing, Parsing, UnknownFunction, ArgumentCount}"
        return found

    return common.finish(
        ctx,
        rule="all sequences of <= 2 atoms over a 63-atom alphabet and <= 3 (thorough: 4) over a 27-atom alphabet; token-level mutations of 40 valid "
             "filters; random strings over operator/keyword/Unicode pools incl. braces, percent, backslash, NUL, astral code points; long repetitive "
             "inputs (unterminated strings, deep parentheses, long paths, operator chains) up to tens of thousands of characters under a 20 s "
             "per-case budget; every case counts as non-trivial",
        assumptions=["termination and memory of the real LR driver and of CPython's regex engine are runtime facts: a per-case wall-clock budget stands in for them (partial)",
                     "for inputs longer than 2000 characters only the outcome class is compared (the tree can exceed the interpreter's recursion limit when encoded)",
                     "lone surrogates are outside the modelled input space"],
        trusted_extra=["Model/ExceptionTree.lean tied to exceptions.py"],
        search_fn=search, known_replay_fn=None)
