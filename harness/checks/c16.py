"""C16 — visitor and transformer base classes traverse completely and never mutate."""
import copy, dataclasses
import common, driver, gens_ast, gens
from sexpr import enc
from odata_query import ast, visitor

PROP_MODS = ["ODataVerif.Props.C16"]
KINDS = ["Identifier", "Attribute", "Integer", "String", "List", "BinOp", "Compare", "BoolOp", "UnaryOp", "Call", "NamedParam",
         "Lambda", "CollectionLambda", "Add", "Eq", "In", "And", "Not", "USub", "Any", "All", "Null", "Float", "Boolean",
         "Date", "Time", "DateTime", "Duration", "GUID", "Geography"]

class Tracer(visitor.NodeVisitor):
    def __init__(self):
        self.log = []
    def visit(self, node):
        method = "visit_" + node.__class__.__name__
        # which attribute the base class would dispatch to
        self.log.append(method + ":" + enc(node))
        return super().visit(node)

def real_trace(node):
    t = Tracer()
    try:
        t.visit(node)
    except Exception as e:  # noqa
        return "raise:" + type(e).__name__
    return " ".join(t.log)

def real_generic(node):
    try:
        return enc(visitor.NodeTransformer().visit(node))
    except Exception as e:  # noqa
        return "raise:" + type(e).__name__

def W(n):
    return ast.Call(ast.Identifier("W"), [n])

def real_override(node, kind, mode):
    if mode == "rec":
        h = lambda self, n: W(self.generic_visit(n))
    else:
        h = lambda self, n: W(n)
    T = type("T", (visitor.NodeTransformer,), {"visit_" + kind: h})
    try:
        return enc(T().visit(node))
    except Exception as e:  # noqa
        return "raise:" + type(e).__name__

def shipped_visitors():
    """(name, callable(ast)) for every shipped visitor that needs no database model"""
    from odata_query.rewrite import AliasRewriter, IdentifierStripper
    from odata_query.roundtrip import AstToODataVisitor
    from odata_query.sql import AstToSqlVisitor, AstToSqliteSqlVisitor, AstToAthenaSqlVisitor
    out = [
        ("NodeVisitor", lambda n: visitor.NodeVisitor().visit(n)),
        ("NodeTransformer", lambda n: visitor.NodeTransformer().visit(n)),
        ("AliasRewriter", lambda n: AliasRewriter({"a": "z/w", "x/a": "q", "name": "tolower(nm)", "t": "u"}).visit(n)),
        ("IdentifierStripper", lambda n: IdentifierStripper(ast.Identifier("x")).visit(n)),
        ("IdentifierStripper-t", lambda n: IdentifierStripper(ast.Identifier("t")).visit(n)),
        ("Override-String", lambda n: type("T", (visitor.NodeTransformer,), {"visit_String": lambda s, m: ast.String(m.val.upper())})().visit(n)),
        ("Override-Identifier", lambda n: type("T", (visitor.NodeTransformer,), {"visit_Identifier": lambda s, m: ast.Identifier(m.name + "_")})().visit(n)),
        ("AstToODataVisitor", lambda n: AstToODataVisitor().visit(n)),
        ("AstToSqlVisitor", lambda n: AstToSqlVisitor().visit(n)),
        ("AstToSqliteSqlVisitor", lambda n: AstToSqliteSqlVisitor("t").visit(n)),
        ("AstToAthenaSqlVisitor", lambda n: AstToAthenaSqlVisitor().visit(n)),
    ]
    try:
        import dbenv
        out += dbenv.orm_visitors()
    except Exception:  # noqa
        pass
    return out

def ids_of_lists(n, acc):
    """identity of every list object in the tree (to detect aliasing of input lists into outputs)"""
    if dataclasses.is_dataclass(n):
        for f in dataclasses.fields(n):
            v = getattr(n, f.name)
            if isinstance(v, list):
                acc.add(id(v))
                for x in v:
                    ids_of_lists(x, acc)
            else:
                ids_of_lists(v, acc)
    return acc

def state_snapshot(n, acc):
    """the instance state of every node object in the tree: its __dict__ exactly (names, and children by identity / scalars by value).
    Dataclass equality does not see extra instance attributes (e.g. a cached value written into a frozen node's __dict__); this does."""
    if dataclasses.is_dataclass(n) and not isinstance(n, type):
        st = []
        for k, v in sorted(vars(n).items()):
            if isinstance(v, list):
                st.append((k, "list", id(v), tuple(id(x) for x in v)))
                for x in v:
                    state_snapshot(x, acc)
            elif dataclasses.is_dataclass(v):
                st.append((k, "node", id(v)))
                state_snapshot(v, acc)
            else:
                st.append((k, "val", repr(v)))
        acc[id(n)] = (type(n).__name__, tuple(st))
    return acc

def real_nonmutation(case):
    name, fn, node = case
    before = enc(node)
    snap = state_snapshot(node, {})
    trace0, gen0 = real_trace(node), real_generic(node)
    try:
        fn(node)
    except Exception:  # noqa: backends may refuse; the tree must still be intact
        pass
    if enc(node) != before:
        return "mutated:" + name
    if state_snapshot(node, {}) != snap:
        return "instance-state-changed:" + name
    # … and the same tree object is traversed / rebuilt exactly as before the translation
    if real_trace(node) != trace0 or real_generic(node) != gen0:
        return "later-traversal-differs:" + name
    return "unchanged"

def run(ctx):
    common.build_and_audit(ctx, PROP_MODS)
    g = gens_ast.AstGen(ctx.rng)
    n = 6000 if ctx.thorough else 1200
    nodes = [g.gen(ctx.rng.randint(0, 4)) for _ in range(n)]
    # parsed corpus too: the parser builds lists by in-place append (grammar.py:405)
    import impl
    # filters over the scalar verification table, so that the ORM visitors really translate every literal kind (and read its py_val)
    T_FILTERS = ["d1 eq 2020-01-01", "dt1 ge 2020-01-01T10:00:00Z", "s1 eq 01234567-89ab-cdef-0123-456789abcdef", "d1 in (2020-01-01, 1999-12-31)",
                 "dt1 lt 2020-01-01T00:00:00+02:00 or d1 ne null", "i1 add 2 gt i2 and contains(s1, 'a')", "f1 lt 1.5 and b1 eq true", "year(d1) eq 2020 and hour(dt1) lt 12",
                 "not (s1 in ('a', 'b')) and length(s2) gt 1", "dt1 eq 2020-02-29T23:59:59.5Z", "d1 ge 0001-01-01 and d1 le 9999-12-31",
                 # built-ins called with NAMED parameters (a backend may accept or refuse them; it must not take them out of the tree)
                 "contains(field=s1, substr='a')", "length(arg=s1) eq 1", "substring(fullstr=s1, index=1) eq 'x'", "concat(a=s1, b=s2) eq 'ab' and tolower(x=s1) eq 'a'",
                 "f.g(x=s1, y=1)", "i1 in (1, 2, 1) and round(number=f1) eq 1",
                 # a call NESTED in the same call (left, right, three deep), chains of one operator: a translation that flattens them must not do it in the caller's lists
                 "concat(concat(s1, ' '), s2) eq 'a b'", "concat(s1, concat(s2, 'x')) eq 'y'", "concat(concat(concat(s1, 'a'), 'b'), s2) eq 'z'", "tolower(tolower(s1)) eq 'a'",
                 "contains(concat(concat(s1, s2), s1), 'a')", "indexof(concat(concat(s1, 'a'), 'b'), 'b') eq 1", "substring(substring(s1, 1), 1) eq 'x'",
                 "length(concat(concat(s1, s2), 'z')) gt 2", "i1 add i2 add 3 eq 1", "(i1 add i2) add (i1 add 3) gt 0", "s1 in ('a', 'b') or s1 in ('c', 'd') or s1 in ('e',)",
                 "i1 eq 1 and i2 eq 2 and i1 eq 3 and i2 eq 4", "concat(concat(s1, s2), concat(s2, s1)) eq concat(concat(s1, s2), s1)", "trim(trim(concat(trim(s1), trim(s2)))) eq 'x'"]
    for f in gens.VALID_FILTERS + T_FILTERS:
        try:
            nodes.append(impl.real_parse_ast(f))
        except Exception:  # noqa
            pass
    uniq = list({enc(x): x for x in nodes}.items())
    common.correspond(ctx, "visit-trace", uniq, real_fn=lambda c: real_trace(c[1]),
                      model_reqs=lambda c: driver.req("trace", c[0]),
                      nontrivial=lambda c, r: r.count("visit_") > 1, describe=lambda c: repr(c[1])[:300],
                      bucket=lambda c, r: type(c[1]).__name__)
    common.correspond(ctx, "transform-identity", uniq, real_fn=lambda c: real_generic(c[1]),
                      model_reqs=lambda c: driver.req("tgeneric", c[0]),
                      nontrivial=lambda c, r: True, describe=lambda c: repr(c[1])[:300])
    ov = [(w, nd, k, m) for i, (w, nd) in enumerate(uniq) for k in ([KINDS[i % len(KINDS)], KINDS[(i * 7 + 3) % len(KINDS)]] if not ctx.thorough else KINDS)
          for m in ("rec", "td")]
    common.correspond(ctx, "transform-override", ov, real_fn=lambda c: real_override(c[1], c[2], c[3]),
                      model_reqs=lambda c: driver.req("toverride", c[2], c[3], c[0]),
                      nontrivial=lambda c, r: '"57"' in r,   # the wrapper W occurs: the override fired
                      describe=lambda c: (repr(c[1])[:200], c[2], c[3]), bucket=lambda c, r: c[2] + "/" + c[3])
    # a NodeVisitor with a handler for ONE kind (the others go through generic_visit): the handled nodes are met in depth-first field order
    import dataclasses as _dc0
    def ref_order(n, kind, acc):
        if isinstance(n, list):
            for x in n:
                ref_order(x, kind, acc)
            return acc
        if not _dc0.is_dataclass(n):
            return acc
        if type(n).__name__ == kind:
            acc.append(enc(n))
        for f in _dc0.fields(n):
            v = getattr(n, f.name)
            if _dc0.is_dataclass(v) or isinstance(v, list):
                ref_order(v, kind, acc)
        return acc
    def real_order(n, kind):
        log = []
        def h(self, m):
            log.append(enc(m))
            self.generic_visit(m)
        V = type("One", (visitor.NodeVisitor,), {"visit_" + kind: h})
        V().visit(n)
        return log
    ord_bad = []
    for k_, (w_, nd_) in enumerate(uniq[:: max(1, len(uniq) // (1500 if ctx.thorough else 400))]):
        for kind in ("Identifier", "Compare", "Call", "String", "Integer", "Attribute", "BoolOp", "List")[k_ % 3::3] + ("Identifier",):
            ctx.evaluations += 1
            try:
                got, want = real_order(nd_, kind), ref_order(nd_, kind, [])
            except RecursionError:
                continue
            except Exception as e:  # noqa
                ord_bad.append((nd_, kind, "raised " + type(e).__name__, [])); continue
            if got != want:
                ord_bad.append((nd_, kind, got, want))
    ctx.note(f"single-kind visitors: handled nodes in document order on all but {len(ord_bad)} (tree, kind) pairs")
    if ord_bad:
        ctx.broken.append(f"a visitor with a handler for one kind does not meet the nodes of that kind in depth-first field order; first: kind {ord_bad[0][1]} on {ord_bad[0][0]!r}"[:500])
    # every OCCURRENCE of a node is dispatched, also when one node OBJECT sits at several positions of the tree (hand-built trees, the output of a rewriter that
    # inserts one replacement object at every use of an alias): a numbering override must number every occurrence, in document order
    import dataclasses as _dc
    def share(n, pool):
        """the same tree with equal subtrees replaced by ONE shared object"""
        if isinstance(n, list):
            return [share(x, pool) for x in n]
        if not _dc.is_dataclass(n):
            return n
        m = _dc.replace(n, **{f.name: share(getattr(n, f.name), pool) for f in _dc.fields(n) if _dc.is_dataclass(getattr(n, f.name)) or isinstance(getattr(n, f.name), list)})
        try:
            return pool.setdefault(enc(m), m)
        except Exception:  # noqa
            return m
    def ref_number(n, k):
        """independent reference: depth-first, fields in declaration order, lists in order; every Identifier occurrence gets the next number"""
        if isinstance(n, list):
            return [ref_number(x, k) for x in n]
        if isinstance(n, ast.Identifier):
            k[0] += 1
            return ast.Identifier(n.name + str(k[0]), n.namespace)
        if not _dc.is_dataclass(n):
            return n
        return _dc.replace(n, **{f.name: ref_number(getattr(n, f.name), k) for f in _dc.fields(n) if _dc.is_dataclass(getattr(n, f.name)) or isinstance(getattr(n, f.name), list)})
    def real_number(n):
        class Num(visitor.NodeTransformer):
            def __init__(self):
                self.k = 0
            def visit_Identifier(self, m):
                self.k += 1
                return ast.Identifier(m.name + str(self.k), m.namespace)
        return Num().visit(n)
    occ_bad = []
    price = ast.Identifier("price")
    hand = [ast.BoolOp(ast.And(), ast.Compare(ast.Gt(), price, ast.Integer("1")), ast.Compare(ast.Lt(), price, ast.Integer("9"))),
            ast.Compare(ast.Eq(), ast.BinOp(ast.Add(), price, price), ast.BinOp(ast.Mult(), price, price)), ast.List([price, price, price]),
            ast.Call(ast.Identifier("concat"), [ast.Attribute(price, "a"), ast.Attribute(price, "a")])]
    from odata_query.rewrite import AliasRewriter as _AR
    for f in ["nm eq 'a' and tags/any(name: nm eq name) and nm ne null", "a add a eq a mul a", "x in (a, a, b, a)", "concat(a, a) eq a"]:
        try:
            hand.append(_AR({"nm": "name", "a": "z/w"}).visit(impl.real_parse_ast(f)))
        except Exception:  # noqa
            pass
    occ_cases = hand + [share(nd, {}) for w, nd in uniq[:: max(1, len(uniq) // (600 if ctx.thorough else 150))]]
    for t in occ_cases:
        ctx.evaluations += 1
        try:
            got = enc(real_number(t)); want = enc(ref_number(t, [0]))
        except RecursionError:
            continue
        except Exception as e:  # noqa
            occ_bad.append((t, "raised " + type(e).__name__, "")); continue
        if got != want:
            occ_bad.append((t, got, want))
    ctx.note(f"occurrence numbering on {len(occ_cases)} trees with shared node objects: {len(occ_bad)} differ from the document-order reference")
    if occ_bad:
        ctx.broken.append(f"a numbering override does not reach every occurrence in document order on {len(occ_bad)} trees with shared node objects; first: {occ_bad[0][0]!r}"[:500])
    # handlers attached AFTER the class (or another instance of it) has already been used: on an instance (`v.visit_K = fn`, the idiom the
    # library's own tests use) and on the class; and the reverse order (an instrumented instance first, a plain one afterwards)
    def seq_override(c):
        w, nd, kind, how = c
        Cls = type("Seq", (visitor.NodeTransformer,), {})
        try:
            Cls().visit(copy.deepcopy(nd))                       # prime: every kind of this tree is dispatched once without any handler
            if how == "instance-after":
                v = Cls(); setattr(v, "visit_" + kind, lambda n: W(n))
                return enc(v.visit(nd))
            if how == "class-after":
                setattr(Cls, "visit_" + kind, lambda self, n: W(n))
                return enc(Cls().visit(nd))
            # "plain-after-instrumented": a second class, instrumented instance first, then a plain instance must be the identity
            Cls2 = type("Seq2", (visitor.NodeTransformer,), {})
            v = Cls2(); setattr(v, "visit_" + kind, lambda n: W(n)); v.visit(copy.deepcopy(nd))
            return enc(Cls2().visit(nd))
        except Exception as e:  # noqa
            return "raise:" + type(e).__name__
    seq = [(w, nd, k, how) for i, (w, nd) in enumerate(uniq[:: (2 if ctx.thorough else 9)]) for k in [KINDS[i % len(KINDS)], "Identifier", "Integer", "String"]
           for how in ("instance-after", "class-after", "plain-after-instrumented")]
    common.correspond(ctx, "transform-override-sequences", seq, real_fn=seq_override,
                      model_reqs=lambda c: driver.req("toverride", c[2], "td", c[0]) if c[3] != "plain-after-instrumented" else driver.req("tgeneric", c[0]),
                      nontrivial=lambda c, r: '"57"' in r or c[3] == "plain-after-instrumented", describe=lambda c: (repr(c[1])[:200], c[2], c[3]),
                      bucket=lambda c, r: "seq/" + c[3])
    # structural equality: == on pairs including near-misses
    pairs = []
    for i in range(0, len(uniq) - 1, 2):
        a, b = uniq[i], uniq[i + 1]
        pairs += [(a[0], a[1], a[0], copy.deepcopy(a[1])), (a[0], a[1], b[0], b[1])]
    pairs += [(enc(x), x, enc(y), y) for x, y in [
        (ast.Integer("1"), ast.Float("1")), (ast.Integer("1"), ast.Integer("01")), (ast.String("a"), ast.Identifier("a")),
        (ast.Identifier("a"), ast.Identifier("a", ())), (ast.Identifier("a", ("n",)), ast.Identifier("a")),
        (ast.List([ast.Integer("1")]), ast.List([ast.Integer("1")])), (ast.List([]), ast.List([ast.Null()])),
        (ast.Boolean("true"), ast.Boolean("TRUE")), (ast.Eq(), ast.NotEq()), (ast.Any(), ast.Any()),
        # two spellings of ONE value are two different trees (the node keeps the spelling; rendering gives different texts)
        (ast.GUID("1edbc3b3-3685-4a19-a7ed-eb562c198d96"), ast.GUID("1EDBC3B3-3685-4A19-A7ED-EB562C198D96")), (ast.GUID("aaaaaaaa-bbbb-cccc-dddd-eeeeeeeeeeee"), ast.GUID("AAAAAAAA-bbbb-cccc-dddd-eeeeeeeeeeee")),
        (ast.String("a"), ast.String("A")), (ast.Integer("5"), ast.Integer("+5")), (ast.Integer("-0"), ast.Integer("0")), (ast.Float("1.0"), ast.Float("1.00")), (ast.Float("1e3"), ast.Float("1E3")),
        (ast.Float("1e3"), ast.Float("1000.0")), (ast.Duration("P1D"), ast.Duration("PT24H")), (ast.Duration("P1D"), ast.Duration("+P1D")), (ast.DateTime("2020-01-01T10:00:00Z"), ast.DateTime("2020-01-01T10:00:00+00:00")),
        (ast.Time("12:00:00"), ast.Time("12:00:00.0")), (ast.Date("2020-01-01"), ast.Date("2020-01-02")), (ast.Geography("POINT(1 2)"), ast.Geography("point(1 2)")),
        (ast.Identifier("a"), ast.Identifier("A")), (ast.Identifier("a", ("n",)), ast.Identifier("a", ("N",))), (ast.Attribute(ast.Identifier("a"), "b"), ast.Attribute(ast.Identifier("a"), "B")),
        (ast.Compare(ast.Eq(), ast.Identifier("id"), ast.GUID("1edbc3b3-3685-4a19-a7ed-eb562c198d96")), ast.Compare(ast.Eq(), ast.Identifier("id"), ast.GUID("1EDBC3B3-3685-4a19-a7ed-eb562c198d96"))),
        (ast.List([ast.GUID("aaaaaaaa-bbbb-cccc-dddd-eeeeeeeeeeee")]), ast.List([ast.GUID("AAAAAAAA-BBBB-CCCC-DDDD-EEEEEEEEEEEE")])),
        (ast.Call(ast.Identifier("f", ("x",)), [ast.NamedParam(ast.Identifier("p"), ast.Boolean("true"))]), ast.Call(ast.Identifier("f", ("x",)), [ast.NamedParam(ast.Identifier("p"), ast.Boolean("True"))])),
        (ast.CollectionLambda(ast.Identifier("a"), ast.Any(), None), ast.CollectionLambda(ast.Identifier("a"), ast.All(), None))]]
    # ... through == , != , hashing (set membership) alike
    def eq3(c):
        a, b = c[1], c[3]
        r = a == b
        if (a != b) == r:
            return "== and != disagree"
        try:
            if r != (b in {a}):
                return "== and set membership disagree"
        except TypeError:
            pass          # unhashable nodes (lists inside): nothing to compare
        return str(r)
    common.correspond(ctx, "structural-equality", pairs, real_fn=eq3,
                      model_reqs=lambda c: driver.req("treeeq", c[0], c[2]),
                      nontrivial=lambda c, r: True, describe=lambda c: (repr(c[1])[:150], repr(c[3])[:150]), bucket=lambda c, r: r)
    # non-mutation: a runtime fact, the model side is the constant "unchanged"
    vis = shipped_visitors()
    tkeys = set()
    for f in T_FILTERS:
        try:
            tkeys.add(enc(impl.real_parse_ast(f)))
        except Exception:  # noqa
            pass
    sample = uniq[:: (1 if ctx.thorough else 3)] + [u for u in uniq if u[0] in tkeys]
    nm = [(name, fn, copy.deepcopy(nd)) for (w, nd) in sample for (name, fn) in vis]
    common.correspond(ctx, "non-mutation", nm, real_fn=real_nonmutation,
                      model_reqs=lambda c: driver.req("ping"), model_parse=lambda m: "unchanged" if m == "pong" else m,
                      nontrivial=lambda c, r: True, describe=lambda c: (c[0], repr(c[2])[:300]), bucket=lambda c, r: c[0])
    ctx.extra["shipped_visitors"] = [v[0] for v in vis]

    # ONE instance reused after many traversals that were ABORTED by an exception from inside a handler (a validating user handler, an unsupported function deep in
    # the tree): it must traverse / rebuild / translate a legal tree exactly as a fresh instance does (bookkeeping on the instance must not outlive a failed traversal)
    class _Boom(Exception):
        pass
    def _boom(self, n):
        if getattr(n, "name", None) == "BOOM":
            raise _Boom()
        return self.generic_visit(n)
    class _TraceB(Tracer):
        def visit_Identifier(self, n):
            if n.name == "BOOM":
                raise _Boom()
            return super().visit_Identifier(n) if hasattr(Tracer, "visit_Identifier") else self.generic_visit(n)
    _TransB = type("_TransB", (visitor.NodeTransformer,), {"visit_Identifier": _boom})
    deep_bad = impl.real_parse_ast("a eq 1 and (b eq 2 or not (((((c add 1) mul 2) sub BOOM) div 3) gt 4))")
    deep_fn_bad = impl.real_parse_ast("a eq 1 and (b eq 2 or not (((((c add 1) mul 2) sub my.nosuchfn(d)) div 3) gt 4))")
    legal = [impl.real_parse_ast(t) for t in ("name eq 'x' and (price add 2) mul 3 gt 10", "a eq 1", "not (a in (1, 2)) or contains(s, 'x')", "tags/any(t: t/name eq 'x')")]
    from odata_query.sql import AstToSqlVisitor as _Std, AstToSqliteSqlVisitor as _Lite, AstToAthenaSqlVisitor as _Ath
    from odata_query.roundtrip import AstToODataVisitor as _RT
    def _outcome(fn):
        try:
            r = fn()
        except RecursionError:
            return "recursion"
        except Exception as e:  # noqa
            return "raise:" + type(e).__name__ + ":" + str(e)[:60]
        return r if isinstance(r, str) else enc(r) if _dc0.is_dataclass(r) else repr(r)[:200]
    reuse_bad = []
    makers = [("NodeVisitor (instrumented)", lambda: _TraceB(), deep_bad, lambda inst, t: (inst.log.clear(), inst.visit(t), " ".join(inst.log))[2]),
              ("NodeTransformer", lambda: _TransB(), deep_bad, lambda inst, t: inst.visit(t)),
              ("AstToSqlVisitor", lambda: _Std(), deep_fn_bad, lambda inst, t: inst.visit(t)), ("AstToSqliteSqlVisitor", lambda: _Lite(), deep_fn_bad, lambda inst, t: inst.visit(t)),
              ("AstToAthenaSqlVisitor", lambda: _Ath(), deep_fn_bad, lambda inst, t: inst.visit(t)), ("AstToODataVisitor", lambda: _RT(), deep_bad, lambda inst, t: inst.visit(t))]
    for vname, mk, bad, use in makers:
        inst = mk()
        for rounds in (1, 30, 300 if not ctx.thorough else 1200):
            for _ in range(rounds):
                try:
                    use(inst, bad)
                except Exception:  # noqa
                    pass
            for t in legal:
                ctx.evaluations += 1
                got, want = _outcome(lambda: use(inst, t)), _outcome(lambda: use(mk(), t))
                if got != want:
                    reuse_bad.append((vname, rounds, t, got, want))
    ctx.note(f"instances reused after aborted traversals: {len(makers)} visitor kinds x (1, 30, 300+) aborted traversals x {len(legal)} legal trees, {len(reuse_bad)} differ from a fresh instance")
    if reuse_bad:
        b = reuse_bad[0]
        ctx.broken.append(f"a {b[0]} instance reused after {b[1]}+ aborted traversals handles {b[2]!r} differently from a fresh instance: {b[3][:100]} vs {b[4][:100]}"[:700])

    def search(ctx):
        found = []
        for vname, rounds, t, got, want in reuse_bad[:10]:
            found.append({"property": "C16", "visitor": vname, "aborted_traversals_before": rounds, "tree": repr(t)[:600], "reused_instance": got[:400], "fresh_instance": want[:400],
                          "why": "an instance that has seen traversals aborted by an exception no longer reaches every node / rebuilds / translates a legal tree as a fresh instance does",
                          "signature": "C16:reuse:" + vname})
        for nd_, kind, got, want in ord_bad[:10]:
            found.append({"property": "C16", "tree": repr(nd_)[:600], "visitor": "NodeVisitor subclass with visit_" + kind + " only", "order_met": got[:8] if isinstance(got, list) else got,
                          "depth_first_field_order": want[:8], "why": "the nodes of the handled kind are not met in depth-first field order", "signature": "C16:order:" + kind})
        for t, got, want in occ_bad[:10]:
            found.append({"property": "C16", "tree_with_shared_node_objects": repr(t)[:600], "numbering_transformer_result": got[:600], "document_order_reference": want[:600],
                          "why": "a transformer override is not dispatched for every occurrence of a node (one node object at several positions)", "signature": "C16:occurrence"})
        for (name, c, r, m) in ctx.diffs[:400]:
            if name == "visit-trace":
                spec = driver.run_batch([driver.req("preorder", c[0])])[0]
                if r != spec:
                    found.append({"property": "C16", "input": repr(c[1]), "wire": c[0], "real_trace": r[:2000], "specified_trace": spec[:2000],
                                  "why": "default visitor does not reach every node exactly once in depth-first field order / wrong handler name",
                                  "signature": "C16:trace:" + type(c[1]).__name__})
            elif name == "transform-identity":
                if r != c[0]:
                    found.append({"property": "C16", "input": repr(c[1]), "wire": c[0], "real_result": r[:2000],
                                  "why": "transformer without overrides returns a tree different from its input", "signature": "C16:identity"})
            elif name == "transform-override":
                spec = driver.run_batch([driver.req("mapkind", c[2], c[3], c[0])])[0]
                if r != spec:
                    found.append({"property": "C16", "input": repr(c[1]), "override_kind": c[2], "mode": c[3], "real_result": r[:2000],
                                  "specified": spec[:2000], "why": "override does not change exactly the nodes of its kind", "signature": "C16:override:" + c[2]})
            elif name == "transform-override-sequences":
                spec = driver.run_batch([driver.req("mapkind", c[2], "td", c[0])])[0] if c[3] != "plain-after-instrumented" else c[0]
                if r != spec:
                    found.append({"property": "C16", "input": repr(c[1]), "override_kind": c[2], "sequence": c[3], "real_result": r[:2000], "specified": spec[:2000],
                                  "why": {"instance-after": "a handler attached to an instance after the class was used is not called for its kind",
                                          "class-after": "a handler added to the class after it was used is not called for its kind",
                                          "plain-after-instrumented": "a plain instance used after an instrumented one of the same class is not the identity"}[c[3]],
                                  "signature": "C16:override-sequence:" + c[3],
                                  "replay": "Cls = subclass of NodeTransformer; Cls().visit(tree); then attach visit_<kind> (instance / class) and visit again"})
            elif name == "structural-equality":
                want = str(c[0] == c[2])
                if r != want:
                    found.append({"property": "C16", "left": repr(c[1]), "right": repr(c[3]), "real_eq": r, "structurally_identical": want,
                                  "why": "== disagrees with structural identity", "signature": "C16:eq"})
            elif name == "non-mutation" and False:
                pass
            elif name == "non-mutation":
                if r != "unchanged":
                    found.append({"property": "C16", "visitor": c[0], "input_before": repr(c[2])[:1500], "why": "a traversal modified the tree it was given (value, instance state of a node, or what a later traversal of the same object does)",
                                  "signature": "C16:mutation:" + c[0]})
        ctx.extra["searched"] = "every differing case of the five correspondences, judged by Spec.Traversal (Lean) / structural identity of the wire form"
        return found

    return common.finish(
        ctx,
        rule="random ASTs of depth 0..4 over every node kind (lists in lists, optional lambdas, named parameters) + the parsed corpus; traces, "
             "identity transform, one override per kind (recursing and non-recursing), handlers attached after the class was already used (instance / class / reverse order), == on equal/near-miss pairs, every shipped visitor on a deep "
             "copy with before/after comparison; non-trivial = the trace has more than one node / the override fired",
        assumptions=["non-mutation of Python objects and `==` are runtime facts: checked here on generated trees, not provable in a pure model",
                     "instrumentation is from outside (subclasses of NodeVisitor / NodeTransformer)"],
        trusted_extra=["Spec/Traversal.lean (document-order node list, map over one kind)"],
        search_fn=search, known_replay_fn=None)
