"""C02 — Django apply_odata_query returns exactly the objects the filter denotes (scalar fragment).
C03 reuses this module with the SQLAlchemy entry styles (see checks/c03.py)."""
import collections, os
import common, driver, gens, impl, gen_tables, dbenv
import sqlcommon as sc, semcommon as sm, ormcommon as oc
from sexpr import enc, hexs
from odata_query import ast

def prop_mods(pid):
    base = ["ODataVerif.Tie.Orm", "ODataVerif.Spec.NumFn"] + [m for m in ("ODataVerif.Props.DateOrder", "ODataVerif.Props.BoolLit", "ODataVerif.Props.NullFlip") if os.path.exists(common.lean_module_path(m))]
    for m in (f"ODataVerif.Props.{pid}",):
        if os.path.exists(common.lean_module_path(m)):
            base.append(m)
    return base

def texts_of(nodes):
    outs = driver.run_batch([driver.req("refprint", "min", "101010", enc(n)) for n in nodes])
    return [bytes.fromhex(o).decode("utf-8", "surrogatepass") if not o.startswith(("bad", "not")) else None for o in outs]

def swap_case_in_literals(text):
    """the same filter text with the letters INSIDE string literals case-swapped (for the case-twin sequence)"""
    out, inside, i = [], False, 0
    while i < len(text):
        c = text[i]
        if c == "'":
            if inside and i + 1 < len(text) and text[i + 1] == "'":
                out.append("''"); i += 2; continue
            inside = not inside
            out.append(c)
        else:
            out.append(c.swapcase() if inside else c)
        i += 1
    return "".join(out)

def build_filters(ctx, features_drop=()):
    rng = ctx.rng
    g = sm.SemGen(rng)
    if features_drop:
        g.features = set(g.features) - set(features_drop)
    n_f = 6000 if ctx.thorough else 900
    filters = [g.gen("bool", rng.randint(1, 5 if ctx.thorough else 4)) for _ in range(n_f)]
    I, S, call = sc.I, sc.S, sc.call
    for a, b, c in [("i1", "i2", "3"), ("i2", "i1", "-7")]:
        for o1 in (ast.Sub, ast.Mod, ast.Mult, ast.Add) + (() if "div" in features_drop else (ast.Div,)):
            for o2 in (ast.Sub, ast.Mod, ast.Add) + (() if "div" in features_drop else (ast.Div,)):
                filters.append(ast.Compare(ast.Eq(), ast.BinOp(o1(), I(a), ast.BinOp(o2(), I(b), ast.Integer(c))), ast.Integer("1")))
                filters.append(ast.Compare(ast.Eq(), I(a), ast.BinOp(o1(), ast.Integer("7"), ast.Integer("2" if o1 is not ast.Mod else "-3"))))
    for s in sm.STR_POOL:
        for fn in ("contains", "startswith", "endswith"):
            filters += [call(fn, I("s1"), S(s)), call(fn, I("s1"), I("s2")), ast.Compare(ast.NotEq(), call(fn, I("s1"), S(s)), ast.Boolean("true")),
                        ast.Compare(ast.Eq(), call(fn, I("s1"), S(s)), ast.Boolean("false")), ast.UnaryOp(ast.Not(), call(fn, I("s2"), S(s))),
                        ast.BoolOp(ast.Or(), call(fn, I("s1"), S(s)), ast.Compare(ast.Eq(), I("i1"), ast.Integer("2")))]
        filters += [ast.Compare(ast.Eq(), I("s1"), S(s)), ast.Compare(ast.In(), I("s1"), ast.List([S(s), S("b")])),
                    ast.Compare(ast.Eq(), call("length", S(s)), call("length", I("s1")))]
    filters += [ast.Compare(ast.Eq(), ast.Null(), I("i1")), ast.Compare(ast.NotEq(), ast.Null(), I("s1")),
                ast.Compare(ast.Eq(), I("b1"), ast.Boolean("TRUE")), ast.Compare(ast.Eq(), I("b1"), ast.Boolean("False")), ast.Compare(ast.NotEq(), I("b1"), ast.Boolean("true"))]
    # every spelling of the Boolean literals x eq / ne x operand kind x side (the lexer is case-insensitive; the node keeps the spelling)
    for sp in ("true", "TRUE", "True", "tRuE", "false", "FALSE", "False", "fAlSe"):
        for cmpop in (ast.Eq, ast.NotEq):
            for operand in (I("b1"), call("contains", I("s1"), S("a")), call("startswith", I("s2"), S("A")), ast.Compare(ast.Gt(), I("i1"), ast.Integer("0")),
                            ast.Compare(ast.In(), I("i2"), ast.List([ast.Integer("0"), ast.Integer("7")]))):
                filters.append(ast.Compare(cmpop(), operand, ast.Boolean(sp)))
                filters.append(ast.Compare(cmpop(), ast.Boolean(sp), operand))
    # integer division / remainder of a column by a literal, against every small quotient (the integer-ness of the literal decides the SQL operator's meaning)
    if "div" not in features_drop:
        for col in ("i1", "i2"):
            for d in ("2", "3", "-2", "7"):
                for q in ("-4", "-3", "-1", "0", "1", "2", "3"):
                    filters.append(ast.Compare(ast.Eq(), ast.BinOp(ast.Div(), I(col), ast.Integer(d)), ast.Integer(q)))
                filters.append(ast.Compare(ast.Eq(), ast.BinOp(ast.Mod(), I(col), ast.Integer(d)), ast.Integer("1")))
                filters.append(ast.Compare(ast.Eq(), ast.BinOp(ast.Div(), ast.Integer("7"), ast.Integer(d)), I(col)))
    # arithmetic with the constants 0 and 1 on either side (x mul 0, 0 mul x, x add 0, x mul 1, x sub 0, 0 sub x, x div 1, x mod 1 …) over columns that
    # hold NULL: an algebraic simplification must keep the NULL (NULL * 0 is NULL, not 0)
    for col in ("i1", "i2"):
        for op in (ast.Mult, ast.Add, ast.Sub) + (() if "div" in features_drop else (ast.Div, ast.Mod)):
            for c in ("0", "1"):
                for rhs in ("0", "1", "-1"):
                    if not (op in (ast.Div, ast.Mod) and c == "0"):
                        filters.append(ast.Compare(ast.Eq(), ast.BinOp(op(), I(col), ast.Integer(c)), ast.Integer(rhs)))
                    filters.append(ast.Compare(ast.LtE(), ast.BinOp(op(), ast.Integer(c), I(col)), ast.Integer(rhs)) if not (op in (ast.Div, ast.Mod)) else
                                   ast.Compare(ast.Eq(), ast.BinOp(op(), ast.Integer(c), ast.BinOp(ast.Add(), I(col), ast.Integer("8"))), ast.Integer(rhs)))
                filters.append(ast.UnaryOp(ast.Not(), ast.Compare(ast.NotEq(), ast.BinOp(op(), I(col), ast.Integer(c)), ast.Integer("0")))) if not (op in (ast.Div, ast.Mod) and c == "0") else None
    filters = [f for f in filters if f is not None]
    # arithmetic on two INTEGER LITERALS, every sign combination, inexact quotients (truncation toward zero vs floor; the sign of a remainder), shifted so that
    # the result falls on a value the rows hold
    for a, b in [(-7, 2), (7, -2), (-9, 2), (9, -2), (-1, 2), (1, -2), (7, 2), (-7, -2), (-7, 3), (7, -3)]:
        A, B = ast.Integer(str(a)), ast.Integer(str(b))
        for op in (ast.Mod, ast.Add, ast.Sub, ast.Mult) + (() if ("div" in features_drop) else (ast.Div,)):
            for off in ("0", "1", "2", "3", "4", "5"):
                filters.append(ast.Compare(ast.Eq(), I("i1"), ast.BinOp(ast.Add(), ast.BinOp(op(), A, B), ast.Integer(off))))
            filters.append(ast.Compare(ast.Gt(), I("i1"), ast.BinOp(op(), A, B)))
            filters.append(ast.UnaryOp(ast.Not(), ast.Compare(ast.Lt(), I("i2"), ast.BinOp(op(), A, B))))
    # chains of three and four `eq` terms on ONE field joined by `or`, with a null test at every position (a rewrite into IN (...) loses the null test)
    def orchain(terms):
        e = terms[0]
        for t in terms[1:]:
            e = ast.BoolOp(ast.Or(), e, t)
        return e
    for col, lits in (("i1", [ast.Integer("7"), ast.Integer("-1"), ast.Integer("2")]), ("s1", [S("ab"), S(""), S("A%")])):
        eqs = [ast.Compare(ast.Eq(), I(col), l) for l in lits]
        nul = ast.Compare(ast.Eq(), I(col), ast.Null())
        for pos in range(4):
            terms = eqs[:pos] + [nul] + eqs[pos:]
            filters.append(orchain(terms)); filters.append(orchain(terms[:3])); filters.append(ast.UnaryOp(ast.Not(), orchain(terms)))
            filters.append(ast.BoolOp(ast.Or(), terms[0], ast.BoolOp(ast.Or(), terms[1], ast.BoolOp(ast.Or(), terms[2], terms[3]))))      # right-nested
        filters.append(orchain(eqs)); filters.append(orchain([ast.Compare(ast.NotEq(), I(col), l) for l in lits]))
    # a null guard joined with a comparison on the SAME operand (`x ne null and x gt 3`, either order, the operand on either side), alone and under every
    # negating context: the conjunction is FALSE on a NULL row where the bare comparison is UNKNOWN, so dropping the "redundant" guard shows only under not / eq false
    for col, lits in (("i1", [ast.Integer("3"), ast.Integer("-1")]), ("s1", [S("ab")])):
        for lit in lits:
            for cmpop in (ast.Gt, ast.Eq, ast.NotEq):
                for cmpn in (ast.Compare(cmpop(), I(col), lit), ast.Compare(cmpop(), lit, I(col))):
                    for guard, join in ((ast.Compare(ast.NotEq(), I(col), ast.Null()), ast.And), (ast.Compare(ast.Eq(), I(col), ast.Null()), ast.Or),
                                        (ast.Compare(ast.NotEq(), ast.Null(), I(col)), ast.And)):
                        for conj in (ast.BoolOp(join(), guard, cmpn), ast.BoolOp(join(), cmpn, guard)):
                            filters += [conj, ast.UnaryOp(ast.Not(), conj), ast.Compare(ast.Eq(), conj, ast.Boolean("false")), ast.Compare(ast.NotEq(), conj, ast.Boolean("true"))]
    # filters of ONE shape that differ only in a literal INSIDE a function of literals, one after the other (statement caches keyed on the shape
    # must not carry the first filter's constant into the next)
    for lits in (["ABC", "AB", "B", "A", "O'B"], ["abc", "ab", "b", "a", "é"]):
        for l in lits:
            filters += [ast.Compare(ast.Eq(), call("tolower", I("s1")), call("tolower", S(l))), ast.Compare(ast.Eq(), call("toupper", I("s1")), call("toupper", S(l))),
                        ast.Compare(ast.Eq(), I("s1"), call("trim", S(" " + l + " "))), ast.Compare(ast.Eq(), I("i1"), call("length", S(l))),
                        ast.Compare(ast.Eq(), I("s1"), call("tolower", S(l))), ast.Compare(ast.NotEq(), I("s1"), call("toupper", S(l))),
                        call("contains", S(l), I("s1")), call("startswith", call("tolower", S(l)), I("s1"))]
            if "concat" not in features_drop:
                filters += [ast.Compare(ast.Eq(), call("concat", S(l), I("s1")), S("abc")), ast.Compare(ast.Eq(), call("concat", I("s1"), call("tolower", S(l))), S("abc"))]
            if "substring" not in features_drop:
                filters += [ast.Compare(ast.Eq(), I("s1"), call("substring", S(l), ast.Integer("1")))]
    if "substring" not in features_drop:
        for start in ("0", "1", "2", "3"):
            filters += [ast.Compare(ast.Eq(), call("substring", I("s1"), ast.Integer(start)), S("bc")), ast.Compare(ast.Eq(), call("substring", I("s1"), ast.Integer(start)), S("c")),
                        ast.Compare(ast.NotEq(), call("substring", I("s2"), ast.Integer(start)), S(""))]
            for ln in ("0", "1", "2"):
                filters += [ast.Compare(ast.Eq(), call("substring", I("s1"), ast.Integer(start), ast.Integer(ln)), S("b")),
                            ast.Compare(ast.Eq(), call("substring", I("s1"), ast.Integer(start), ast.Integer(ln)), S("ab"))]
    for k in ("0", "1", "2", "3", "7"):
        filters += [ast.Compare(ast.Eq(), call("length", I("s1")), ast.Integer(k)), ast.Compare(ast.Eq(), ast.BinOp(ast.Add(), call("length", I("s1")), ast.Integer(k)), ast.Integer("3")),
                    ast.Compare(ast.Gt(), ast.BinOp(ast.Mult(), I("i1"), ast.Integer(k)), ast.Integer("2"))]
    # in-lists of 1 001 / 1 500 / 2 500 elements whose only elements that are row values sit at the END (a backend that splits or truncates long lists)
    for n, tail in ((1001, ["7"]), (1500, ["2", "-7"]), (2500, ["3"]), (999, ["1"])):
        items = [ast.Integer(str(100000 + k)) for k in range(n - len(tail))] + [ast.Integer(t) for t in tail]
        filters.append(ast.Compare(ast.In(), I("i1"), ast.List(items)))
        filters.append(ast.UnaryOp(ast.Not(), ast.Compare(ast.In(), I("i2"), ast.List(items))))
    sitems = [S("zz%d" % k) for k in range(1100)] + [S("ab"), S("O'B")]
    filters.append(ast.Compare(ast.In(), I("s1"), ast.List(sitems)))
    # one sub-expression twice in a filter, in every pair of operand contexts (a translator that keeps state per node between two visits)
    filters += sc.repeated_subterms(z=ast.Integer("3"), r=ast.Compare(ast.Eq(), I("i2"), ast.Integer("-7")))
    uniq = sc.dedup(filters)
    nodes = [n for w, n in uniq]
    texts = texts_of(nodes)
    return [(w, n, t) for (w, n), t in zip(uniq, texts) if t is not None]

def load_rows(rows):
    dbenv.django_load_scalar([dict({"f1": None, "d1": None, "dt1": None}, **{k: v for k, v in r.items() if not k.startswith("_")}) for r in rows])
    dbenv.sa_load_scalar(rows)

def run_semantic(ctx, pid, backend, styles, cases, rows_sets):
    """styles: list of (name, ids_fn(text)); backend: dj | sa.  Returns (violations, env mismatches, tally, kf hits, refusal diffs)"""
    tally, dist = collections.Counter(), collections.Counter()
    viol, env_mis, kf_hits, refusal = [], [], 0, []
    for rows in rows_sets:
        load_rows(rows)
        R = sm.enc_rows(rows)
        outs = driver.run_batch([driver.req("ormsem", backend, w, R) for w, n, t in cases])
        for (w, n, t), m in zip(cases, outs):
            results = [(sname, fn(t)) for sname, fn in styles]
            # all entry styles agree with each other
            base = results[0][1]
            for sname, r in results[1:]:
                if r != base and not (r.split(" ")[0] == base.split(" ")[0] != "ids"):
                    viol.append((t, n, None, f"entry styles disagree: {results[0][0]}={base[:80]} {sname}={r[:80]}"))
            real = base
            ctx.evaluations += 1
            if not real.startswith("ids"):
                cls = " ".join(real.split(" ")[:2])
                tally[f"real:{cls}"] += 1
                if m.startswith("ok "):
                    refusal.append((t, n, real, "model translates, real refuses"))
                elif m.startswith("lib ") and not real.startswith("lib "):
                    refusal.append((t, n, real, f"model says {m[:60]}"))
                if real.startswith("foreign") or real == "notimpl":
                    viol.append((t, n, None, f"internal error leaked: {real}"))
                continue
            ids = {int(x) for x in real.split()[1:]}
            sel = len(ids)
            dist["constant" if sel in (0, len(rows)) else "discriminating"] += 1
            if not m.startswith("ok "):
                tally[f"real ok / model {m[:24]}"] += 1
                if m.startswith("lib "):
                    refusal.append((t, n, real, f"real translates, model says {m[:60]}"))
                # no model of the compiled SQL (div / indexof / concat on SQLAlchemy …): judge against the specification only
                spec = driver.run_batch([driver.req("odataeval", w, R)])[0]
                if spec != "noelab":
                    for row, c in zip(rows, spec.split(" ")):
                        if c.startswith("x"):
                            continue
                        a = "1" if row["id"] in ids else "0"
                        if a != ("1" if c == "T" else "0"):
                            if pid == "C03" and has_div_or_unsupported(n):
                                kf_hits += 1
                            else:
                                viol.append((t, n, row, f"backend {'selects' if a == '1' else 'does not select'} the row, OData semantics says {c}"))
                continue
            for row, c in zip(rows, m.split(" ")[1:]):
                a = "1" if row["id"] in ids else "0"
                mod, spec = c[0], c[1:]
                if spec.startswith("x"):
                    tally["excluded-by-semOk"] += 1
                    if a != ("1" if spec[1:] == "T" else "0"):
                        kf_hits += 1
                    continue
                if mod == "?":
                    tally["env-outside-model"] += 1
                elif mod != a:
                    tally["ENV-MISMATCH"] += 1
                    env_mis.append((t, row, a, mod))
                else:
                    tally["env-agree"] += 1
                if a != ("1" if spec == "T" else "0"):
                    tally["SPEC-MISMATCH"] += 1
                    viol.append((t, n, row, f"backend {'selects' if a == '1' else 'does not select'} the row, OData semantics says {spec}"))
                else:
                    tally["spec-agree"] += 1
                    if sel not in (0, len(rows)):
                        ctx.nontrivial.add(w)
    return viol, env_mis, tally, dist, kf_hits, refusal

def has_div_or_unsupported(n):
    import dataclasses
    if isinstance(n, ast.BinOp) and isinstance(n.op, ast.Div):
        return True
    if dataclasses.is_dataclass(n):
        for f in dataclasses.fields(n):
            v = getattr(n, f.name)
            if isinstance(v, list):
                if any(has_div_or_unsupported(x) for x in v if isinstance(x, ast._Node)):
                    return True
            elif isinstance(v, ast._Node) and has_div_or_unsupported(v):
                return True
    return False

def case_twins(ctx, pid, backend, styles, cases, rows):
    """a filter, then the same text with string-literal letters case-swapped, applied one after the other in this process"""
    load_rows(rows)
    R = sm.enc_rows(rows)
    viol = []
    twins = [(w, n, t, swap_case_in_literals(t)) for w, n, t in cases if "'" in t and swap_case_in_literals(t) != t][: (600 if ctx.thorough else 150)]
    for w, n, t, t2 in twins:
        try:
            n2 = impl.real_parse_ast(t2)
        except Exception:  # noqa
            continue
        m2 = driver.run_batch([driver.req("ormsem", backend, enc(n2), R)])[0]
        if not m2.startswith("ok "):
            continue
        spec2 = " ".join(c[1:] for c in m2.split(" ")[1:])
        for sname, fn in styles:
            fn(t)                      # first spelling
            r2 = fn(t2)                # then the twin
            ctx.evaluations += 1
            if not r2.startswith("ids") or spec2 == "noelab":
                continue
            ids = {int(x) for x in r2.split()[1:]}
            for row, c in zip(rows, spec2.split(" ")):
                if c.startswith("x"):
                    continue
                if ("1" if row["id"] in ids else "0") != ("1" if c == "T" else "0"):
                    viol.append((t2, n2, row, f"after applying {t!r}, the case-twin selects wrongly via {sname} (OData semantics says {c})"))
                    break
    return viol

def run(ctx, pid="C02"):
    common.build_and_audit(ctx, prop_mods(pid), gen=lambda c: gen_tables.generate(["Orm"]))
    backend = "dj" if pid == "C02" else "sa"
    if pid == "C02":
        styles = [("QuerySet", lambda t: oc.dj_shorthand_ids(t)),
                  ("Manager", lambda t: oc.dj_shorthand_ids(t, base=dbenv.django_env()["T"].objects))]
        drop = ()
    else:
        styles = [("select(Model)", lambda t: oc.sa_shorthand_ids(t, "orm")), ("session.query(Model)", lambda t: oc.sa_shorthand_ids(t, "legacy")),
                  ("select(table)", lambda t: oc.sa_shorthand_ids(t, "core"))]
        drop = ("indexof", "concat")       # strpos / concat do not exist on SQLite: outside the supported fragment there
    # FIRST thing translated in this process: FLOAT literals equal to the integers the filters use (and strings equal to their spellings, Booleans equal
    # to 0 / 1): a translation must not depend on which spelling of a value was translated earlier in the process
    def prime():
      for t in ["f1 lt 2.0 or f1 gt 7.0", "f1 ne 1.0 and f1 ne 0.0", "f1 eq 3.0 or f1 eq -1.0 or f1 eq -7.0 or f1 eq -2.0", "f1 lt 4.0 and f1 gt -4.0 and f1 ne -3.0", "s1 eq '2' or s1 eq '7' or s1 eq 'true'",
                "b1 eq true or b1 eq false"]:
          for sname, fn in styles:
              fn(t)
    prime()
    cases = build_filters(ctx, drop)
    rng = ctx.rng
    rows_sets = [sm.product_rows()[:: (1 if ctx.thorough else 3)]] + [sm.rows_for(rng, 40) for _ in range(2 if ctx.thorough else 1)]
    # outcome correspondence of the visitor model on these filters
    def real_outcome(c):
        out = (oc.django_compile(c[1])[0] if pid == "C02" else oc.sa_compile(c[1], "orm")[0])
        return "env" if out.startswith("env:") else out
    outs = driver.run_batch([driver.req("djbuild", c[0]) if pid == "C02" else driver.req("sabuild", "orm", "id,i1,i2,f1,s1,s2,b1,d1,dt1", c[0]) for c in cases])
    keep = [c for c, m in zip(cases, outs) if m != "unmodelled" and real_outcome(c) != "env"]
    common.correspond(ctx, f"{backend}-visitor-outcome", keep, real_fn=real_outcome,
                      model_reqs=(lambda c: driver.req("djbuild", c[0])) if pid == "C02" else (lambda c: driver.req("sabuild", "orm", "id,i1,i2,f1,s1,s2,b1,d1,dt1", c[0])),
                      model_parse=lambda m: "ok" if m.startswith("ok ") else m, nontrivial=lambda c, r: r == "ok", describe=lambda c: c[2],
                      bucket=lambda c, r: backend + "/" + " ".join(r.split(" ")[:2]))
    prime()     # again right before the semantic pass: the outcome pass above has translated every filter once (long lists flush value-keyed caches)
    viol, env_mis, tally, dist, kf_hits, refusal = run_semantic(ctx, pid, backend, styles, cases, rows_sets)
    viol += case_twins(ctx, pid, backend, styles, cases, sm.rows_for(rng, 24))
    # numeric stream: floor / ceiling / round over a fractional column, judged against Spec.NumFn (Lean)
    ntally_all, nviol = collections.Counter(), []
    for sname, fn in styles:
        for with_null in (False, True):
            nrows = sm.numeric_rows(with_null)
            load_rows(nrows)
            def ids_of(t, fn=fn, with_null=with_null):
                r = fn(t)
                if pid == "C03" and with_null and t.startswith("floor(") and r.startswith("env:OperationalError"):
                    return "skip"      # SQLAlchemy's pysqlite dialect replaces floor() by a Python function that raises on NULL: environment
                return {int(x) for x in r.split()[1:]} if r.startswith("ids") else r
            v, tl = sm.judge_numeric(ctx, ids_of, nrows)
            nviol += [(f"{t}", None, row, f"[{sname}] {why}") for t, row, why in v if "skip" not in why]
            ntally_all.update(tl)
    # built-ins called with NAMED parameters (the Django backend accepts the handlers' parameter names): in declaration order and out of it, a named call denotes
    # what the positional call denotes (a backend that refuses named parameters with a library exception is fine)
    NAMED = [("contains(field=s1, substr='a')", "contains(s1, 'a')"), ("contains(substr='a', field=s1)", "contains(s1, 'a')"), ("startswith(substr='a', field=s1)", "startswith(s1, 'a')"),
             ("endswith(substr='b', field=s1)", "endswith(s1, 'b')"), ("not endswith(field=s1, substr='b')", "not endswith(s1, 'b')"), ("contains(substr=s2, field=s1)", "contains(s1, s2)"),
             ("indexof(first=s1, second='b') eq 1", "indexof(s1, 'b') eq 1"), ("indexof(second='b', first=s1) eq 1", "indexof(s1, 'b') eq 1"),
             ("substring(fullstr=s1, index=1) eq 'b'", "substring(s1, 1) eq 'b'"), ("substring(index=1, fullstr=s1) eq 'b'", "substring(s1, 1) eq 'b'"),
             ("substring(nchars=1, index=1, fullstr=s1) eq 'b'", "substring(s1, 1, 1) eq 'b'"), ("length(arg=s1) eq 2", "length(s1) eq 2"), ("tolower(field=s1) eq 'ab'", "tolower(s1) eq 'ab'"),
             ("contains(substr='a', field=s1) or i1 eq 7", "contains(s1, 'a') or i1 eq 7"), ("startswith(substr=s1, field='abc')", "startswith('abc', s1)")]
    load_rows(rows_sets[0])
    named_tally = collections.Counter()
    for sname, fn in styles:
        for tn, tp in NAMED:
            rn, rp = fn(tn), fn(tp)
            ctx.evaluations += 1
            if not rn.startswith("ids"):
                named_tally["refused:" + " ".join(rn.split(" ")[:2])] += 1
                if not (rn.startswith("lib ") or rn == "notimpl"):
                    viol.append((tn, None, None, f"[{sname}] named-parameter call leaks {rn[:80]}"))
                continue
            if rn != rp:
                viol.append((tn, None, None, f"[{sname}] the named-parameter call selects {rn[:60]} but the positional call {tp!r} selects {rp[:60]}"))
            else:
                named_tally["agree"] += 1
    # pattern stream: matchesPattern with patterns that are plain text (no regular-expression metacharacter: the match is case-SENSITIVE containment) and a few
    # anchored / class patterns on which ECMAScript and the reference below agree; rows whose strings differ from the patterns only in letter case
    import re as _re
    PAT_VALUES = [None, "", "copy", "Copy", "COPY", "photocopy", "PHOTOCOPY", "a copy b", "cop", "cópy", "ab1", "AB1", "ab", "1ab2", "x.y", "xzy"]
    prow = [{"id": k + 1, "i1": k % 3, "i2": None, "s1": v, "s2": PAT_VALUES[(k * 5 + 2) % len(PAT_VALUES)], "b1": None} for k, v in enumerate(PAT_VALUES)]
    load_rows(prow)
    PATTERNS = ["copy", "Copy", "COPY", "cop", "ab1", "AB", "1ab", "y", "^copy", "copy$", "^ab", "b1$", "x.y", "[0-9]", "^[a-z]+$", "o"]
    pat_tally = collections.Counter()
    for sname, fn in styles:
        for pat in PATTERNS:
            for tmpl, neg, extra in (("matchesPattern(s1, '{p}')", False, None), ("not matchesPattern(s1, '{p}')", True, None), ("matchesPattern(s1, '{p}') eq true", False, None),
                                     ("matchesPattern(s1, '{p}') and i1 eq 1", False, lambda r: r["i1"] == 1), ("matchesPattern(s2, '{p}') or i1 eq 0", False, "or0")):
                t = tmpl.format(p=pat)
                r = fn(t)
                ctx.evaluations += 1
                if not r.startswith("ids"):
                    pat_tally["refused:" + " ".join(r.split(" ")[:2])] += 1
                    if not (r.startswith("lib ") or r == "notimpl"):
                        viol.append((t, None, None, f"[{sname}] matchesPattern leaks {r[:80]}"))
                    continue
                col = "s2" if "s2" in t else "s1"
                want = set()
                for row in prow:
                    v = row[col]
                    m = None if v is None else bool(_re.search(pat, v))
                    if extra == "or0":
                        ok = (m is True) or row["i1"] == 0
                    else:
                        m = (None if m is None else (not m)) if neg else m
                        ok = (m is True) and (extra is None or extra(row))
                    if ok:
                        want.add(row["id"])
                got = {int(x) for x in r.split()[1:]}
                if got != want:
                    pat_tally["MISMATCH"] += 1
                    viol.append((t, None, None, f"[{sname}] matchesPattern selects {sorted(got)} but the pattern matches exactly the rows {sorted(want)} (values {[(r_['id'], r_[col]) for r_ in prow if (r_['id'] in got) != (r_['id'] in want)][:4]})"))
                else:
                    pat_tally["agree"] += 1
    ctx.extra["pattern_stream"] = dict(pat_tally)
    load_rows(rows_sets[0])
    ctx.extra["named_parameter_calls"] = dict(named_tally)
    ctx.extra["judged_numeric"] = dict(ntally_all)
    ctx.note(f"numeric stream (floor / ceiling / round x 6 comparisons x 7 constants, with and without a NULL row, every entry style, Spec.NumFn): {dict(ntally_all)}")
    viol += nviol
    # date stream: Edm.Date comparisons / membership / year … second, judged against Spec.DateSem (Lean)
    dtally_all, dviol = collections.Counter(), []
    drows = sm.date_rows()
    load_rows(drows)
    for sname, fn in styles:
        def ids_of_d(t, fn=fn):
            r = fn(t)
            return {int(x) for x in r.split()[1:]} if r.startswith("ids") else r
        # KNOWN FINDING C03-date-cast-sqlite: date(x) is CAST(x AS DATE), which SQLite evaluates with numeric affinity
        v, tl = sm.judge_dates(ctx, ids_of_d, drows, kf=(lambda t: t.startswith("date(dt1)")) if pid == "C03" else None)
        dviol += [(t, None, row, f"[{sname}] {why}") for t, row, why in v]
        dtally_all.update(tl)
    ctx.extra["judged_dates"] = dict(dtally_all)
    ctx.note(f"date stream (comparisons with 8 date literals on both sides, in-lists, year / month / day / hour / minute / second, rows incl. years 0001 / 0999 / 9999 and NULL, every entry style, Spec.DateSem): {dict(dtally_all)}")
    viol += dviol
    ctx.extra["judged"] = dict(tally)
    ctx.extra["filters_constant_vs_discriminating"] = dict(dist)
    ctx.extra["known_finding_hits"] = kf_hits
    ctx.note(f"execution: {dict(tally)}; constant/discriminating: {dict(dist)}; rows under a known finding where the result differs: {kf_hits}")
    if env_mis:
        t, row, a, b = env_mis[0]
        ctx.broken.append(f"environment model (Spec/OrmSql + SqliteSem) disagrees with the real backend on {len(env_mis)} (filter,row) pairs; first: {t!r} row={row} real={a} model={b}"[:700])
    if refusal:
        ctx.broken.append(f"refusal behaviour differs between model and real backend on {len(refusal)} filters; first: {refusal[0][0]!r}: {refusal[0][3]} (real {refusal[0][2][:60]})"[:700])
    if viol:
        t, n, row, why = viol[0]
        ctx.broken.append(f"real result violates {pid} on {len(viol)} cases; first: {t!r} row={row}: {why}"[:700])

    def search(ctx):
        found = [{"property": pid, "filter": t, "tree": repr(n), "row": row, "why": why, "signature": f"{pid}:{backend}:{why.split(' ')[0]}:{type(n).__name__}",
                  "replay": "load the row, apply the shorthand to the filter text, compare the returned ids with Spec.evalB (Lean, `odataeval`)"}
                 for t, n, row, why in viol[:40]]
        ctx.extra["searched"] = "every generated filter text x every row x every entry style, plus case-twin sequences"
        return found

    def known_replay(f):
        if f.get("stream") == "date":
            return dtally_all.get("under-known-finding", 0) > 0
        rows = [dict({"id": 1, "i1": None, "i2": None, "s1": None, "s2": None, "b1": None}, **f.get("row", {}))]
        load_rows(rows)
        r = styles[0][1](f["source_text"])
        if not r.startswith("ids"):
            return False
        n = impl.real_parse_ast(f["source_text"])
        spec = driver.run_batch([driver.req("odataeval", enc(n), sm.enc_rows(rows))])[0]
        return spec != "noelab" and (("1" in r.split()[1:]) != (spec.lstrip("x") == "T"))

    names = {"C02": "Django (QuerySet and Manager)", "C03": "SQLAlchemy (select(Model), session.query(Model), select(table))"}[pid]
    return common.finish(
        ctx,
        rule=f"seeded filters of the typed scalar grammar (depth <= 4-5) plus targeted shapes (right-nested and literal-only arithmetic, every LIKE function with every pool string "
             f"incl. %, _, quotes, compared with true/false via eq and ne, null on the left, upper-case Boolean keywords), rendered to text by the reference printer and applied "
             f"through {names} on in-memory SQLite over a 144-432-row product table and random tables; ids compared row by row with Spec.evalB and with the environment "
             "model; then case-twin sequences in one process; non-trivial = discriminating filter that agrees",
        assumptions=[f"rows inside Spec.semOk{'Dj' if pid == 'C02' else 'Sa'} (the listed known findings excluded and counted)",
                     "floats, dates and 64-bit overflow are outside the semantic model"],
        trusted_extra=["Spec/ODataSem.lean", "Spec/SqliteSem.lean + Spec/OrmSql.lean (environment models of SQLite and of the ORM compiler, validated against the real engines on every run)"],
        search_fn=search, known_replay_fn=known_replay)
