"""C06 — every literal and identifier is recognised as its own kind with its exact value."""
import datetime as dt, itertools, uuid
import common, driver, impl, gen_tables, gens
from sexpr import enc, hexs
from odata_query import ast
from odata_query.grammar import ODataLexer, ODataParser

PROP_MODS = ["ODataVerif.Tie.ParserTables", "ODataVerif.Props.C06", "ODataVerif.Props.C06Image", "ODataVerif.Props.C06Value"]

def canon_pyval(node):
    try:
        v = node.py_val
    except NotImplementedError:
        return "notimpl"
    except Exception as e:  # noqa
        return "foreign " + type(e).__name__
    if v is None:
        return "ok None"
    if isinstance(v, bool):
        return "ok bool " + str(v)
    if isinstance(v, int):
        return f"ok int {v}"
    if isinstance(v, str):
        return "ok str " + hexs(v)
    if isinstance(v, dt.datetime):
        off = "naive" if v.utcoffset() is None else str(int(v.utcoffset().total_seconds() // 60))
        return f"ok datetime {v.year} {v.month} {v.day} {v.hour} {v.minute} {v.second} {v.microsecond} {off}"
    if isinstance(v, dt.date):
        return f"ok date {v.year} {v.month} {v.day}"
    if isinstance(v, dt.time):
        return f"ok time {v.hour} {v.minute} {v.second} {v.microsecond}"
    if isinstance(v, uuid.UUID):
        return f"ok guid {v.int}"
    if isinstance(v, dt.timedelta):
        us = (v.days * 86400 + v.seconds) * 1000000 + v.microseconds
        return f"ok duration {us}"
    if isinstance(v, float):
        return "ok unmodelled"
    return "ok other " + type(v).__name__

# ---- spellings by kind: (text, kind, expected .val, meaning) ; meaning is the canonical py_val the generator knows by construction
def spellings(ctx):
    rng = ctx.rng
    out = []
    for s in ["0", "1", "42", "007", "-1", "+5", "-0", "123456789012345678901234567890", "2147483648", "9" * 40]:
        out.append((s, "Integer", s, f"ok int {int(s)}"))
    for s in ["1.5", "-0.25", "1e3", "1E3", "2.5e-2", "+3.0E+1", "0.0", "12.", ".5", "1e", "1.e3"]:
        ok = s not in ("12.", ".5", "1e", "1.e3")
        out.append((s, "Float" if ok else None, s, "ok unmodelled"))
    for s in ["true", "false", "True", "FALSE", "tRuE"]:
        out.append((s, "Boolean", s, "ok bool " + str(s.lower() == "true")))
    for s in ["null", "NULL", "Null"]:
        out.append((s, "Null", None, "ok None"))
    strs = ["Cafe\u0301", "Caf\u00e9", "\u212b", "\u00c5", "\u2126", "\u03a9", "\u1112\u1161\u11ab", "\ud55c", "a\u0323\u0307", "a\u0307\u0323", "\uf900", "\ufb01", "\u00b5", "\u017f",
            "", "a", "it's", "'", "''", "a'b'c", "100%", "a_c", "a\\b", " sp ", "é", "日本", "\t", "--", "/*", ";", "\x00", "’", "x" * 300, "select * from t", "' or 1 eq 1 or '"]
    strs += ["".join(rng.choice("ab'%_\\ é’\n") for _ in range(rng.randrange(0, 12))) for _ in range(400 if ctx.thorough else 60)]
    for c in strs:
        out.append(("'" + c.replace("'", "''") + "'", "String", c, "ok str " + hexs(c)))
    # geography content is carried VERBATIM: prefix case, whitespace at the ends and around ';', several ';', WKT case, quotes as written
    geos = ["POINT(1 2)", "", "SRID=4326;POINT(0 0)", "a''b", "srid=4326;Point(1 2)", "Srid=0;point(1 2)", "SRID=0; Point(1 2)", "SRID=0 ;Point(1 2)", " SRID=0;Point(1 2) ",
            " POINT(1 2)", "POINT(1 2) ", "  ", ";", "a;b;c", "srid=1;srid=2;Point(0 0)", "point(1  2)", "Point(1 2)\t", "POLYGON((0 0,1 1,0 1,0 0))", "é;É", "x" * 200]
    geos += ["".join(rng.choice(["srid=", "SRID=", ";", " ", "  ", "Point", "POINT", "(", ")", "1", "-2.5", ",", "''", "é", "a", "B"]) for _ in range(rng.randrange(1, 9)))
             for _ in range(300 if ctx.thorough else 60)]
    for c in geos:
        out.append(("geography'" + c + "'", "Geography", c, "notimpl"))
        out.append(("GEOGRAPHY'" + c + "'", "Geography", c, "notimpl"))
    for g in ["01234567-89ab-cdef-0123-456789abcdef", "AAAAAAAA-BBBB-CCCC-DDDD-EEEEEEEEEEEE", "00000000-0000-0000-0000-000000000000", "a7af27e6-f5a0-11e9-9649-0a252986adba"]:
        out.append((g, "GUID", g, f"ok guid {uuid.UUID(g).int}"))
    # dates: boundary values for every field
    for y, m, d in itertools.product([1000, 1999, 2000, 2020, 2100, 9999], [1, 2, 9, 10, 12], [1, 9, 10, 28, 29, 30, 31]):
        s = f"{y:04d}-{m:02d}-{d:02d}"
        try:
            dt.date(y, m, d); mean = f"ok date {y} {m} {d}"
        except ValueError:
            mean = None   # not a calendar date: not a well-formed literal, the property says nothing
        out.append((s, "Date", s, mean))
    # ABNF: year = [ "-" ] ( "0" 3DIGIT / oneToNine 3*DIGIT ): years below 1000 are written with leading zeros
    for y, m, d in [(1, 1, 1), (1, 12, 31), (99, 2, 28), (999, 12, 31), (400, 2, 29), (100, 10, 10)]:
        s = f"{y:04d}-{m:02d}-{d:02d}"
        out.append((s, "Date", s, f"ok date {y} {m} {d}"))
        out.append((s + "T00:00:00Z", "DateTime", s + "T00:00:00Z", f"ok datetime {y} {m} {d} 0 0 0 0 0"))
    # … and year 0000, negative years and years of more than four digits are well-formed too, but have no Python value (KNOWN FINDING C06-year-range)
    for s, mean in [("0000-01-01", "ok date 0 1 1"), ("-0001-01-01", "ok date -1 1 1"), ("10000-01-01", "ok date 10000 1 1")]:
        out.append((s, "Date", s, mean))
    for s in ["2020-00-10", "2020-13-01", "2020-01-32", "999-01-01", "2020-1-01", "20200101"]:
        out.append((s, None, None, None))
    # time of day hh:mm:ss[.f]
    for h, mi, se in itertools.product([0, 9, 10, 19, 20, 23], [0, 59], [0, 30, 59]):
        for frac in ["", ".1", ".123", ".123456", ".1234567", ".000001", ".999999999999"]:
            s = f"{h:02d}:{mi:02d}:{se:02d}{frac}"
            us = int((frac[1:] + "000000")[:6]) if frac else 0
            out.append((s, "Time", s, f"ok time {h} {mi} {se} {us}"))
    for s in ["24:00:00", "12:60:00", "12:00:60", "12:00", "1:00:00"]:
        out.append((s, None, None, None))
    # datetimes: optional seconds, fraction, offset
    for (y, mo, d), (h, mi) in itertools.product([(2020, 1, 1), (1999, 12, 31), (2020, 2, 29)], [(0, 0), (10, 5), (23, 59)]):
        for sec in [None, 0, 59]:
            for frac in (["", ".5", ".123456"] if sec is not None else [""]):
                for tz in ["", "Z", "z", "+00:00", "+02:00", "-05:30", "+23:59"]:
                    for sep in ["T", "t"]:
                        s = f"{y:04d}-{mo:02d}-{d:02d}{sep}{h:02d}:{mi:02d}" + (f":{sec:02d}{frac}" if sec is not None else "") + tz
                        us = int((frac[1:] + "000000")[:6]) if frac else 0
                        if tz == "":
                            off = "naive"
                        elif tz in "Zz":
                            off = "0"
                        else:
                            sign = 1 if tz[0] == "+" else -1
                            off = str(sign * (int(tz[1:3]) * 60 + int(tz[4:6])))
                        out.append((s, "DateTime", s.upper(), f"ok datetime {y} {mo} {d} {h} {mi} {sec or 0} {us} {off}"))
    # durations: every sign / optional-part combination
    parts = [("Y", 31557600), ("M", 2630016), ("D", 86400), ("H", 3600), ("M", 60), ("S", 1)]
    for sign in ["", "+", "-"]:
        for mask in range(1, 64):
            vals = [(7 * (i + 1) + mask) % 13 + 1 for i in range(6)]
            date_part = "".join(f"{vals[i]}{parts[i][0]}" for i in range(3) if mask >> i & 1)
            time_bits = [i for i in range(3, 6) if mask >> i & 1]
            frac = ".25" if (mask % 5 == 0 and 5 in time_bits) else ""
            time_part = "".join(f"{vals[i]}{frac if i == 5 else ''}{parts[i][0]}" for i in time_bits)
            body = "P" + date_part + ("T" + time_part if time_part else "")
            us = sum(vals[i] * parts[i][1] for i in range(6) if mask >> i & 1) * 1000000 + (250000 if frac else 0)
            if sign == "-":
                us = -us
            for prefix in ["duration", "DURATION", "Duration"]:
                for lower in ([False, True] if prefix == "duration" else [False]):
                    b = body.lower() if lower else body
                    out.append((f"{prefix}'{sign}{b}'", "Duration", sign + body, f"ok duration {us}"))
    out.append(("duration'P'", "Duration", "P", "ok duration 0"))
    out.append(("duration'PT'", "Duration", "PT", "ok duration 0"))
    return out

def spec_spellings(ctx):
    """Spec/LitSpell.lean (the subject of the C06Value theorems) spells texts from MEANINGS; here random meanings are spelled by Lean, the text is
    compared with this module's own formatting of the same meaning (so the specification says what the ABNF says), and the texts join the
    spellings that are lexed, parsed, evaluated (py_val) and judged on the real code."""
    from sexpr import unhex
    rng = ctx.rng
    n = 400 if ctx.thorough else 60
    reqs, expect = [], []
    def add(req, text, kind, val, mean):
        reqs.append(req); expect.append((text, kind, val, mean))
    def secs():
        k = rng.randrange(3)
        s = rng.choice([0, 7, 30, 59])
        if k == 0:
            return "-", "", 0, 0
        if k == 1:
            return str(s), f":{s:02d}", s, 0
        fs = [rng.randrange(10) for _ in range(rng.choice([1, 2, 3, 6, 7, 12]))]
        return f"{s}:" + ".".join(map(str, fs)), f":{s:02d}." + "".join(map(str, fs)), s, int(("".join(map(str, fs)) + "000000")[:6])
    for _ in range(n):
        w = rng.choice([1, 2, 5, 19, 25]); v = rng.randrange(10 ** w)
        add(driver.req("litspell", "int", str(w), str(v)), str(v).rjust(w, "0"), "Integer", str(v).rjust(w, "0"), f"ok int {v}")
        y, m = rng.choice([1, 4, 100, 400, 999, 1000, 1900, 2000, 2024, 9999]), rng.randrange(1, 13)
        d = rng.randrange(1, [31, 29 if (y % 4 == 0 and y % 100 != 0) or y % 400 == 0 else 28, 31, 30, 31, 30, 31, 31, 30, 31, 30, 31][m - 1] + 1)
        ds = f"{y:04d}-{m:02d}-{d:02d}"
        add(driver.req("litspell", "date", str(y), str(m), str(d)), ds, "Date", ds, f"ok date {y} {m} {d}")
        h, mi = rng.randrange(24), rng.randrange(60)
        sw, st, s, us = secs()
        if sw != "-":
            ts = f"{h:02d}:{mi:02d}{st}"
            add(driver.req("litspell", "time", str(h), str(mi), sw), ts, "Time", ts, f"ok time {h} {mi} {s} {us}")
        sw, st, s, us = secs()
        ow, ot, om = rng.choice([("-", "", "naive"), ("Z", "Z", "0"), ("z", "z", "0"), ("p:5:30", "+05:30", "330"), ("m:11:00", "-11:00", "-660"), ("p:0:0", "+00:00", "0"), ("m:23:59", "-23:59", "-1439")])
        sep = rng.choice("Tt")
        dts = f"{ds}{sep}{h:02d}:{mi:02d}{st}{ot}"
        add(driver.req("litspell", "datetime", str(y), str(m), str(d), sep, str(h), str(mi), sw, ow), dts, "DateTime", dts.upper(), f"ok datetime {y} {m} {d} {h} {mi} {s} {us} {om}")
        gn = rng.getrandbits(128) if rng.random() < 0.8 else rng.choice([0, 1, 2 ** 128 - 1, 2 ** 64])
        mask = rng.getrandbits(32)
        hx = "".join((c.upper() if mask >> i & 1 else c) for i, c in enumerate(f"{gn:032x}"))
        gs = f"{hx[:8]}-{hx[8:12]}-{hx[12:16]}-{hx[16:20]}-{hx[20:]}"
        add(driver.req("litspell", "guid", str(gn), str(mask)), gs, "GUID", gs, f"ok guid {gn}")
        c = "".join(rng.choice("ab'% _\\é\n") for _ in range(rng.randrange(0, 9)))
        add(driver.req("litspell", "quote", hexs(c)[1:-1]), "'" + c.replace("'", "''") + "'", "String", c, "ok str " + hexs(c))
        # durations: (wire, text, value) per component; small numbers (the real py_val computes in doubles)
        def comp(letter):
            if rng.random() < 0.45:
                return "-", "", 0
            # years and months stay small: the real py_val multiplies them by 365.25 / 30.44 in doubles, exact to the microsecond only for small values
            ww = rng.choice([0, 0, 1, 2]); vv = rng.randrange(min(14, 10 ** (ww + 1))) if letter in "YM" and not time_part[0] else rng.randrange(10 ** min(ww + 1, 2))
            return f"{ww}:{vv}", str(vv).rjust(ww + 1, "0") + letter, vv
        sg = rng.choice(["n", "p", "m"])
        time_part = [False]
        (yw, yt, yv), (mw, mt, mv), (dw, dtx, dv) = comp("Y"), comp("M"), comp("D")
        time_part[0] = True
        if rng.random() < 0.3:
            tpw, tpt, tsecs, tus = "-", "", 0, 0
        else:
            (hw, ht, hv), (miw, mit, miv) = comp("H"), comp("M")
            k = rng.randrange(3)
            if k == 0:
                sw2, st2, sus = "-", "", 0
            elif k == 1:
                vv = rng.randrange(100); sw2, st2, sus = f"1:{vv}", f"{vv:02d}S", vv * 1000000
            else:
                vv = rng.randrange(60); fs = [rng.randrange(10) for _ in range(rng.choice([1, 2, 3, 6]))]
                sw2, st2, sus = f"0:{vv}:" + ".".join(map(str, fs)), f"{vv}." + "".join(map(str, fs)) + "S", vv * 1000000 + int(("".join(map(str, fs)) + "000000")[:6])
                if vv >= 10:
                    sw2 = f"1:{vv}:" + ".".join(map(str, fs))
            tpw, tpt, tsecs, tus = f"{hw};{miw};{sw2}", "T" + ht + mit + st2, hv * 3600 + miv * 60, sus
        body = {"n": "", "p": "+", "m": "-"}[sg] + "P" + yt + mt + dtx + tpt
        us = (yv * 31557600 + mv * 2630016 + dv * 86400 + tsecs) * 1000000 + tus
        us = -us if sg == "m" else us
        add(driver.req("litspell", "duration", sg, yw, mw, dw, tpw), body + f" {us}", "Duration", body, f"ok duration {us}")
    outs = driver.run_batch(reqs)
    bad, sp = [], []
    for (text, kind, val, mean), o in zip(expect, outs):
        got = o.split(" ")
        try:
            spelled = unhex(got[0]) + ("" if len(got) == 1 else " " + got[1])
        except Exception:  # noqa
            spelled = "<" + o + ">"
        if spelled != text:
            bad.append((kind, text, spelled))
            continue
        body = text.split(" ")[0] if kind == "Duration" else text
        sp.append(("duration'" + body + "'" if kind == "Duration" else body, kind, val, mean))
    ctx.evaluations += len(reqs)
    ctx.note(f"Spec/LitSpell: {len(reqs)} meanings spelled by Lean, {len(bad)} differ from the ABNF formatting")
    ctx.extra["litspell"] = {"meanings": len(reqs), "differences": len(bad)}
    if bad:
        ctx.broken.append(f"Spec/LitSpell.lean spells {len(bad)} meanings differently from the ABNF; first: {bad[0]}")
    return sp

IDENTS = ["a", "_x", "A1", "nullable", "anything", "allowed", "trueness", "falsey", "notes", "inside", "android", "orange", "addition", "modern",
          "eqx", "in_", "nullx", "truex", "any_", "all1", "notx", "divide", "subtotal", "multiply", "n.a", "ns.sub.name", "true.x", "null.y", "any.z",
          "a" * 128, "a" * 129, "a." + "b" * 126, "ns1.ns2." + "n" * 121, "a.b.c.d." + "x" * 124, "n." * 63 + "n", "n." * 127 + "n", "nullable." + "n" * 119, "ns." + "n" * 126,
          "ns." + "n" * 127, "x9_", "İd", "ıd", "ſ", "Kelvin", "fal\u017fe", "FAL\u017fE", "fal\u017fe.x", "n.fal\u017fe", "\u0131n", "d\u0131v", "\u017fub", "é", "日", "ab-cd", "a.", "a..b", ".a", "9a", "a b",
          # field names are case-sensitive: spellings that differ only in letter case, one after the other in this one process
          "Title", "title", "TITLE", "Sales.Region", "sales.region", "SALES.Region", "sales.REGION", "Nullable", "NULLABLE", "userId", "userid", "USERID", "A", "_X", "Eqx", "N.A"]
CONTEXTS = ["{} eq 1", "1 eq {}", "({})", "f.g({})", "x in ({}, 1)", "k/any(v: v eq {})", "not {}", "{} add 1 lt 2", "concat({}, {})"]

def run(ctx):
    common.build_and_audit(ctx, PROP_MODS, gen=lambda c: gen_tables.generate(["ParserTables"]))
    sp = spellings(ctx) + spec_spellings(ctx)
    lx, ps = ODataLexer(), ODataParser()
    texts = []
    for s, kind, val, mean in sp:
        texts.append(s)
        for c in (CONTEXTS if ctx.thorough else CONTEXTS[:4]):
            texts.append(c.replace("{}", s))
    for i in IDENTS:
        texts.append(i)
        for c in CONTEXTS:
            texts.append(c.replace("{}", i))
        texts += [i + "/" + i, i + "/b/" + i, "x/" + i + " eq 1"]
    # exhaustive short strings over a 40-character alphabet chosen to hit every rule boundary
    alpha = list("0129-+.:eETtZz'() ,/=adnoru_") + ["true", "null", " eq ", "2020-01-01", "12:00:00", "duration'P", "geography'", "½"]
    k = 3
    for n in range(1, k + 1):
        for seq in itertools.product(alpha, repeat=n):
            texts.append("".join(seq))
    if ctx.thorough:
        sub = alpha[:20]
        for seq in itertools.product(sub, repeat=4):
            texts.append("".join(seq))
    texts = list(dict.fromkeys(texts))
    common.correspond(ctx, "lex", texts, real_fn=lambda t: impl.real_lex(t),
                      model_reqs=lambda t: driver.req("lex", hexs(t)[1:-1]),
                      nontrivial=lambda t, r: r.startswith("ok"), describe=lambda t: t,
                      bucket=lambda t, r: r.split(" ")[0])
    common.correspond(ctx, "parse", texts[: (len(texts) if ctx.thorough else 40000)], real_fn=lambda t: impl.real_parse(t, lx, ps),
                      model_reqs=lambda t: driver.req("parse", hexs(t)[1:-1]),
                      nontrivial=lambda t, r: r.startswith("ok"), describe=lambda t: t, bucket=lambda t, r: r.split(" ")[0])
    # py_val of every literal node the spellings produce
    lits = {}
    for s, kind, val, mean in sp:
        if kind and kind not in ("Null",):
            try:
                nd = impl.real_parse_ast(s)
            except Exception:  # noqa
                continue
            if isinstance(nd, ast._Literal) and not isinstance(nd, ast.List):
                lits[(type(nd).__name__, nd.val)] = nd
    lit_cases = list(lits.items())
    common.correspond(ctx, "py_val", lit_cases, real_fn=lambda c: canon_pyval(c[1]),
                      model_reqs=lambda c: driver.req("pyval", c[0][0], hexs(c[0][1])[1:-1]),
                      nontrivial=lambda c, r: r.startswith("ok") and "unmodelled" not in r, describe=lambda c: c[0],
                      bucket=lambda c, r: c[0][0] + "/" + r.split(" ")[0])

    def judge_spelling(s, kind, val, mean):
        """the property on the real code, from what the generator knows by construction"""
        if kind is None:
            return None
        try:
            nd = ODataParser().parse(ODataLexer().tokenize(s))
        except Exception as e:  # noqa
            return f"well-formed {kind} literal rejected: {type(e).__name__}"
        if type(nd).__name__ != kind:
            return f"parsed as {type(nd).__name__}, expected {kind}"
        if val is not None and getattr(nd, "val", None) != val:
            return f".val = {getattr(nd, 'val', None)!r}, expected {val!r}"
        if mean is not None and mean != "ok unmodelled":
            got = canon_pyval(nd)
            if got != mean:
                return f".py_val = {got}, meaning is {mean}"
        return None

    def year_out_of_range(s, kind):
        import re
        m = re.match(r"(-?\d+)-\d\d-\d\d", s) if kind in ("Date", "DateTime") else None
        return bool(m) and not (1 <= int(m.group(1)) <= 9999 and len(m.group(1)) == 4)

    def judge_ident(i):
        import re
        # the library's own identifier shape: an ASCII letter or underscore, then word characters (Unicode `\w`) and dots
        # the 128-character limit counts the identifier characters; the dots between namespace segments are free
        if not re.fullmatch(r"[_a-zA-Z]\w*(\.\w+)*", i) or len(i.replace(".", "")) > 128 or i.lower() in ("true", "false", "null", "any", "all", "not"):
            return None
        try:
            nd = ODataParser().parse(ODataLexer().tokenize(i + " eq 1"))
        except Exception as e:  # noqa
            return f"well-formed identifier rejected: {type(e).__name__}"
        *ns, name = i.split(".")
        want = ast.Compare(ast.Eq(), ast.Identifier(name, tuple(ns)), ast.Integer("1"))
        return None if nd == want else f"parsed as {nd!r}"

    # duration seconds with MORE than six fraction digits whose value is exact in microseconds (judged only: the py_val model covers up to six digits)
    JUDGE_ONLY = [("duration'PT0.5000000S'", "Duration", "PT0.5000000S", "ok duration 500000"), ("duration'PT1.50000000S'", "Duration", "PT1.50000000S", "ok duration 1500000"),
                  ("duration'-PT0.2500000000S'", "Duration", "-PT0.2500000000S", "ok duration -250000"), ("duration'P1DT0.0000010S'", "Duration", "P1DT0.0000010S", "ok duration 86400000001"),
                  ("duration'PT59.999999000S'", "Duration", "PT59.999999000S", "ok duration 59999999"), ("duration'PT0.1250000000000S'", "Duration", "PT0.1250000000000S", "ok duration 125000")]
    # the property itself on the real code, on every run
    bad_sp = [(s, kind, w) for s, kind, val, mean in sp + JUDGE_ONLY for w in [judge_spelling(s, kind, val, mean)] if w]
    bad_id = [(i, w) for i in IDENTS for w in [judge_ident(i)] if w]
    ctx.evaluations += len(sp) + len(IDENTS)
    kf_year = [b for b in bad_sp if year_out_of_range(b[0], b[1])]
    ctx.extra["judged"] = {"spellings": len(sp), "identifiers": len(IDENTS), "violations": len(bad_sp) + len(bad_id) - len(kf_year), "under_known_finding_year_range": len(kf_year)}
    ctx.note(f"judge C06 on the real code: {len(sp)} spellings, {len(IDENTS)} identifiers; {len(bad_sp) - len(kf_year)} + {len(bad_id)} violations, {len(kf_year)} under the year-range known finding")
    fresh = [b for b in bad_sp if b not in kf_year] + bad_id
    if fresh:
        first = fresh[0]
        ctx.broken.append(f"real code violates C06 on {len(fresh)} spellings; first: {first[0]!r}: {first[-1]}"[:600])

    def search(ctx):
        found = []
        for s, kind, val, mean in sp + JUDGE_ONLY:
            for c in ["{}"] + CONTEXTS[:3]:
                txt = c.replace("{}", s)
                if c == "{}":
                    why = judge_spelling(s, kind, val, mean)
                else:
                    why = None
                    if kind:
                        try:
                            nd = ODataParser().parse(ODataLexer().tokenize(txt))
                            if kind + "(" not in repr(nd) and kind != "Null":
                                why = f"literal kind {kind} not found in {nd!r}"
                        except Exception as e:  # noqa
                            why = f"embedded well-formed {kind} literal rejected: {type(e).__name__}"
                if why:
                    sig = "C06:grammar.py:_DATE:year-outside-0001-9999" if year_out_of_range(s, kind) else "C06:" + str(kind) + ":" + why.split(",")[0][:40]
                    found.append({"property": "C06", "input": txt, "literal": s, "kind": kind, "why": why,
                                  "signature": sig, "replay": f"ODataParser().parse(ODataLexer().tokenize({txt!r}))"})
        for i in IDENTS:
            why = judge_ident(i)
            if why:
                found.append({"property": "C06", "input": i + " eq 1", "why": why, "signature": "C06:ident:" + i[:20]})
        ctx.extra["searched"] = f"{len(sp)} literal spellings x contexts and {len(IDENTS)} identifiers judged against the meaning the generator knows by construction"
        return found[:200]

    return common.finish(
        ctx,
        rule="per kind: ABNF spellings with boundary values for every date/time field, every sign/optional-part combination of durations in three prefix "
             "cases, strings with arbitrary contents, numbers, GUIDs, geography; 45 identifiers incl. keyword-prefixed and 128/129-character ones; each "
             "embedded in 4-9 expression contexts; all strings of <= 3 atoms over a 36-atom boundary alphabet; non-trivial = accepted by the lexer/parser",
        assumptions=["float(...) is not modelled (kind and text only)", "Duration.py_val is modelled in exact microseconds: valid for the generated component sizes (< 20) and <= 6 fraction digits",
                     "dateutil.isoparse / datetime.fromisoformat are modelled on the shapes the lexer admits (environment: tied by this correspondence, not verified)",
                     "the meaning of each spelling is known to the generator by construction (specification side of py_val lives in the harness)"],
        trusted_extra=["Model/PyVal.lean validated against CPython 3.12 datetime / dateutil"],
        search_fn=search, known_replay_fn=lambda f: bool(kf_year))
