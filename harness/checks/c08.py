"""C08 — ORM backends pass every filter value to the database as a bound parameter."""
import collections, datetime as dt, os, uuid
import common, driver, gens_typed, gens, impl, gen_tables, dbenv
import sqlcommon as sc, ormcommon as oc
from sexpr import enc, hexs
from odata_query import ast

PROP_MODS = ["ODataVerif.Tie.Orm"] + [m for m in ("ODataVerif.Props.C08",) if os.path.exists(common.lean_module_path(m))]
FIELDS = "id,i1,i2,f1,s1,s2,b1,d1,dt1"
KF_ESCAPE = "C08:sqlalchemy/common.py:_substr_function:autoescape-clause"

# literal assignments: (kind, value A, value B) — both valid for the kind, both distinctive enough to be searched for in SQL text
VALUES = {
    "String": [("alpha_sentinel", "b'; DROP TABLE t; --"), ("O'B", "x\"y"), ("zzq", "qzz zzq"), ("50%-50", "50%/50"), ("a_b", "a/_b!#"), ("%", "/!#~^|%"),
               # plain text against regex / pattern metacharacters (a translation chosen from the literal's CONTENT is not "the same statement")
               ("plainword", "C.py"), ("a+b", "ab"), ("^x$", "x y"), ("[a-z]*", "az"), ("a\\d", "ad"), ("(a|b)", "a b")],
    "Integer": [("1", "7"), ("0", "5"), ("424242", "737373"), ("-424242", "5"), ("9223372036854775808", "6"), ("-9223372036854775809", "9223372036854775807"), ("99999999999999999999999", "0")],
    "Float": [("1.0", "7.5"), ("0.0", "2.5"), ("4242.5", "7373.25"), ("1.5e10", "2E-3")],
    "Date": [("2020-01-01", "1999-12-31"), ("0001-01-01", "9999-12-31")],
    "DateTime": [("2020-01-01T10:00:00Z", "1999-12-31T23:59:59Z")],
    "GUID": [("01234567-89ab-cdef-0123-456789abcdef", "aaaaaaaa-bbbb-cccc-dddd-eeeeeeeeeeee")],
    "Duration": [("P7D", "PT1H"), ("-P1DT2H3M4.5S", "P3D"), ("PT0.000001S", "P400D")],
}

def templates():
    """filter TEXT templates with holes {s} {i} {f} {d} {dt} {g} for literal values (typed fragment of the ORM backends)"""
    return [
        ("s1 eq {s}", "String"), ("{s} ne s1", "String"), ("s1 in ({s}, 'k', {s})", "String"), ("contains(s1, {s})", "String"),
        ("startswith(s1, {s}) eq true", "String"), ("not endswith(s2, {s})", "String"), ("contains(s1, {s}) ne true", "String"),
        ("tolower(s1) eq {s}", "String"), ("length(s1) gt 0 and s2 gt {s}", "String"), ("contains(tolower(s1), tolower({s}))", "String"),
        ("substring(s1, 1) eq {s}", "String"), ("trim(s1) eq {s} or toupper(s2) eq {s}", "String"),
        ("matchesPattern(s1, {s})", "String"), ("not matchesPattern(s1, {s})", "String"), ("matchesPattern(s1, {s}) and i1 eq 1", "String"), ("matchesPattern(tolower(s1), {s}) eq true", "String"),
        ("indexof(s1, {s}) eq 1", "String"), ("endswith(s1, {s})", "String"), ("startswith(tolower(s1), {s})", "String"), ("concat(s1, {s}) eq s2", "String"),
        ("i1 eq {i}", "Integer"), ("i1 add {i} gt i2", "Integer"), ("i1 in ({i}, 1, {i})", "Integer"), ("i1 mul {i} sub 3 le {i}", "Integer"),
        ("substring(s1, {i}) eq 'x'", "Integer"), ("(i1 gt {i}) ne true", "Integer"), ("(i1 in ({i}, 2)) ne true", "Integer"),
        ("f1 lt {f}", "Float"), ("f1 add {f} ge 1.5", "Float"),
        ("d1 eq {d}", "Date"), ("d1 in ({d}, 2001-01-01)", "Date"), ("year(d1) eq 2020 and d1 gt {d}", "Date"),
        ("dt1 ge {dt}", "DateTime"), ("(dt1 ge {dt}) ne true", "DateTime"),
        ("s1 eq {g}", "GUID"), ("s1 in ({g}, {g})", "GUID"),
        # a literal as the DIRECT argument of a function (a dialect-level rendering of the function must keep it a parameter)
        ("f1 eq floor({f})", "Float"), ("f1 lt ceiling({f})", "Float"), ("round({f}) le f1", "Float"), ("i1 eq length({s})", "String"),
        ("s1 eq tolower({s})", "String"), ("s1 eq toupper({s}) or s2 eq trim({s})", "String"), ("s1 eq substring({s}, 1)", "String"),
        # a literal compared with a LITERAL (no column on either side), alone and inside and / or / not / in
        ("{s} eq 'k'", "String"), ("'k' ne {s} and s1 eq 'x'", "String"), ("not ({s} lt 'm') or i1 eq 1", "String"), ("{i} lt 5", "Integer"), ("5 ge {i} and i1 gt 0", "Integer"),
        ("{f} gt 1.5 or f1 lt 0.5", "Float"), ("{d} eq 2020-06-15", "Date"), ("2020-06-15 ne {d} and d1 ne null", "Date"), ("{dt} gt 2001-01-01T00:00:00Z", "DateTime"),
        ("{g} eq 01234567-89ab-cdef-0123-456789abcdef", "GUID"), ("{s} in ('a', 'b') or s1 eq 'z'", "String"), ("{i} in (1, 2, 3)", "Integer"),
        # the SAME literal written twice inside equal sub-terms of one filter (range checks repeat a call)
        ("indexof(s1, {s}) ge 0 and indexof(s1, {s}) lt 5", "String"), ("concat(s1, {s}) eq 'x' or concat(s1, {s}) eq 'y'", "String"),
        ("substring(s1, {i}) eq 'a' or substring(s1, {i}) eq 'b'", "Integer"), ("length(concat(s1, {s})) gt 1 and length(concat(s1, {s})) lt 9", "String"),
        ("i1 add {i} gt 0 and i1 add {i} lt 9", "Integer"), ("round(f1 add {f}) eq 1 or round(f1 add {f}) eq 2", "Float"),
        ("tolower(concat({s}, s1)) eq 'a' or not (tolower(concat({s}, s1)) eq 'b')", "String"), ("year(d1) eq {i} or year(d1) eq {i} add 1", "Integer"),
        # a Boolean literal BEFORE (and after) a numeric literal in one filter: values that compare equal across kinds (true / 1 / 1.0, false / 0 / 0.0) are different literals
        ("b1 eq true and i1 eq {i}", "Integer"), ("b1 eq false or i1 in ({i}, 5, 9)", "Integer"), ("b1 ne true and f1 lt {f}", "Float"), ("contains(s1, 'a') eq true and i1 add {i} eq 4", "Integer"),
        ("i1 eq {i} and b1 eq true", "Integer"), ("b1 eq false and f1 eq {f} and i1 eq 0", "Float"), ("i1 eq 1 and i2 eq {i}", "Integer"), ("f1 eq 1.0 or i1 eq {i}", "Integer"),
        # durations next to a column, a call, a literal, a path-free arithmetic chain (a value the database computes with is still a value of the filter)
        ("dt1 gt now() sub {du}", "Duration"), ("dt1 add {du} gt 2020-01-01T00:00:00Z", "Duration"), ("dt1 sub {du} lt now()", "Duration"), ("2019-01-01T00:00:00Z add {du} lt dt1", "Duration"),
        ("d1 add {du} gt 2020-01-01", "Duration"), ("dt1 gt now() sub {du} and i1 eq 1", "Duration"), ("not (dt1 add {du} le now())", "Duration"), ("now() sub {du} lt dt1 sub {du}", "Duration"),
        ("length(trim({s})) eq 5", "String"), ("concat(trim({s}), 'x') eq s1", "String"), ("tolower(trim({s})) eq s1", "String"), ("indexof(s1, toupper({s})) eq 1", "String"),
        ("contains(s1, trim({s}))", "String"), ("substring(concat({s}, s1), 1) eq s2", "String"), ("length(concat(tolower({s}), toupper({s}))) gt i1", "String"),
        ("i1 eq year({d})", "Date"), ("i1 eq month({dt}) or i1 eq hour({dt})", "DateTime"), ("f1 gt floor({i})", "Integer"), ("i1 add length({s}) gt {i}", "String"),
    ]

HOLE = {"String": "{s}", "Integer": "{i}", "Float": "{f}", "Date": "{d}", "DateTime": "{dt}", "GUID": "{g}", "Duration": "{du}"}

def spell(kind, v):
    if kind == "Duration":
        return "duration'" + v + "'"
    return "'" + v.replace("'", "''") + "'" if kind == "String" else v

def big_list(kind, v, n):
    base = {"String": "s1 in (", "Integer": "i1 in ("}[kind]
    items = [spell(kind, v)] + [spell(kind, f"{v[:3]}{k}" if kind == "String" else str(1000 + k)) for k in range(n)]
    return base + ", ".join(items) + ")"

def bool_operand(n):
    import dataclasses
    if isinstance(n, (ast.BoolOp,)) and (isinstance(n.left, ast.Boolean) or isinstance(n.right, ast.Boolean)):
        return True
    if isinstance(n, ast.UnaryOp) and isinstance(n.operand, ast.Boolean):
        return True
    if dataclasses.is_dataclass(n):
        for f in dataclasses.fields(n):
            v = getattr(n, f.name)
            if isinstance(v, list):
                if any(bool_operand(x) for x in v if isinstance(x, ast._Node)):
                    return True
            elif isinstance(v, ast._Node) and bool_operand(v):
                return True
    return False

def canon_value(v):
    if isinstance(v, bool):
        return "bool:" + str(v)
    if isinstance(v, dt.datetime):
        if v.tzinfo is not None:
            v = v.astimezone(dt.timezone.utc).replace(tzinfo=None)
        return v.strftime("%Y-%m-%d %H:%M:%S") + (f".{v.microsecond:06d}" if v.microsecond else "")
    if isinstance(v, (dt.date, dt.time)):
        return v.isoformat()
    if isinstance(v, uuid.UUID):
        return str(v)
    if isinstance(v, float):
        return repr(v)
    return str(v)

def expected_param(kind, text):
    node = getattr(ast, kind)(text)
    if kind == "GUID":
        return {str(node.py_val), text, node.py_val.hex}      # Django binds the UUID (hex on SQLite), SQLAlchemy the text
    if kind == "Duration":
        td = node.py_val      # SQLAlchemy binds the timedelta, Django its microseconds
        return {str(td), str((td.days * 86400 + td.seconds) * 1000000 + td.microseconds)}
    return {canon_value(node.py_val)}

BACKENDS = [("django", lambda t: oc.dj_shorthand_sql(t)), ("sa-orm", lambda t: oc.sa_shorthand_sql(t, "orm")),
            ("sa-legacy", lambda t: oc.sa_shorthand_sql(t, "legacy")), ("sa-core", lambda t: oc.sa_shorthand_sql(t, "core"))]

def judge_shorthands(thorough):
    """the property on the real code, through the shorthands on filter TEXT -> (violations, tally, known-finding hits, evaluations)"""
    evals = [0]
    dbenv.django_load_scalar([]); dbenv.sa_load_scalar([])
    viol, tally, kf = [], collections.Counter(), 0
    pairs = []
    for tpl, kind in templates():
        for a, b in VALUES[kind]:
            pairs.append((kind, tpl.replace(HOLE[kind], spell(kind, a)), tpl.replace(HOLE[kind], spell(kind, b)), a, b))
    for kind in ("String", "Integer"):
        for n in (3, 101, 250 if thorough else 120):
            a, b = VALUES[kind][0]
            pairs.append((kind, big_list(kind, a, n), big_list(kind, b, n), a, b))
    # Django's own `In` lookup drops repeated elements of a list (one placeholder per DISTINCT value): two assignments under which a list has a different number of
    # distinct elements are not "the same filter with other values" for the host ORM; such pairs are left out (the library splices nothing in either)
    import re as _re
    def distinct_sizes(t):
        return [len({x.strip() for x in m.group(1).split(",")}) for m in _re.finditer(r" in \(([^()]*)\)", t)]
    pairs = [p for p in pairs if distinct_sizes(p[1]) == distinct_sizes(p[2])]
    for name, fn in BACKENDS:
        for kind, ta, tb, a, b in pairs:
            oa, sa_, pa = fn(ta)
            ob, sb_, pb = fn(tb)
            evals[0] += 1
            if oa != "ok" or ob != "ok":
                tally[f"{name}:refused"] += 1
                if (oa == "ok") != (ob == "ok"):
                    viol.append((name, ta, tb, f"one variant accepted, the other {oa if oa != 'ok' else ob}"))
                continue
            if sa_ != sb_:
                # known finding: autoescape adds an ESCAPE clause only when the literal substring contains a wildcard
                if name.startswith("sa-") and kind == "String" and (sa_.replace(" ESCAPE '/'", "") == sb_.replace(" ESCAPE '/'", "")):
                    kf += 1; tally[f"{name}:KF-escape"] += 1
                    continue
                viol.append((name, ta, tb, "compiled SQL differs between the two literal assignments"))
                continue
            bad = None
            for val, sql, params in ((a, sa_, pa), (b, sb_, pb)):
                pv = [canon_value(v) for v in (params if isinstance(params, list) else params.values())]
                want = expected_param(kind, val)
                if not any(w in pv or any(w == v.replace("/%", "%").replace("/_", "_").replace("//", "/") for v in pv) or
                           (kind == "String" and any(w in v for v in pv)) for w in want):
                    bad = f"value {val!r} is not in the parameter list {pv[:6]}"
                if len(val) > 4 and val in sql:
                    bad = f"value {val!r} appears in the SQL text"
            if bad:
                viol.append((name, ta, tb, bad))
            else:
                tally[f"{name}:ok"] += 1
    # columns of OTHER declared types than the verification table has (Uuid, Numeric, Enum, Interval, Text, BigInteger, Date / DateTime / Time): a literal compared with a
    # column stays a bound parameter whatever the column's type, on Core and ORM, compiled for SQLite and for PostgreSQL
    import sqlalchemy as _sa
    from sqlalchemy.dialects import sqlite as _dl_sqlite, postgresql as _dl_pg
    from sqlalchemy.orm import declarative_base as _decl
    from odata_query.sqlalchemy import apply_odata_core as _core, apply_odata_query as _orm
    cols = lambda: [_sa.Column("id", _sa.Integer, primary_key=True), _sa.Column("uid", _sa.Uuid), _sa.Column("uid_s", _sa.Uuid(as_uuid=False)), _sa.Column("amount", _sa.Numeric(10, 2)),
                    _sa.Column("kind", _sa.Enum("a", "b", name="kind")), _sa.Column("span", _sa.Interval), _sa.Column("txt", _sa.Text), _sa.Column("big", _sa.BigInteger),
                    _sa.Column("day", _sa.Date), _sa.Column("at", _sa.DateTime), _sa.Column("tm", _sa.Time), _sa.Column("uni", _sa.Unicode(20))]
    ztab = _sa.Table("dev", _sa.MetaData(), *cols())
    Base = _decl()
    Dev = type("Dev", (Base,), dict({"__tablename__": "dev"}, **{c.name: c for c in cols()}))
    G1, G2, G3 = "01234567-89ab-cdef-0123-456789abcdef", "aaaaaaaa-bbbb-cccc-dddd-eeeeeeeeeeee", "6c0e37e3-e856-45ee-bd58-484b11882c67"
    TYPED = [("uid eq {}", G1, G2), ("{} eq uid", G1, G3), ("uid ne {}", G2, G3), ("uid in ({}, " + G3 + ")", G1, G2), ("uid_s eq {}", G1, G2), ("uid eq '{}'", G1, G2), ("not (uid eq {})", G1, G2),
             ("amount gt {}", "1.5", "7373.25"), ("amount eq {}", "424242", "5"), ("kind eq {}", "'a'", "'b'"), ("kind in ({}, 'b')", "'a'", "'zzq'"), ("txt eq {}", "'alpha_sentinel'", "'x'' OR 1=1 --'"),
             ("big eq {}", "9223372036854775807", "6"), ("day eq {}", "2020-01-01", "1999-12-31"), ("at ge {}", "2020-01-01T10:00:00Z", "1999-12-31T23:59:59Z"), ("tm lt {}", "10:00:00", "23:59:59"),
             ("uni eq {}", "'zzq'", "'50%-50'"), ("span gt {}", "duration'P7D'", "duration'PT1H'"), ("at gt now() sub {}", "duration'P7D'", "duration'PT1H'")]
    for tmpl, a, b in TYPED:
        for bname, build in (("sa-core:typed", lambda t: _core(_sa.select(ztab), t)), ("sa-orm:typed", lambda t: _orm(_sa.select(Dev), t))):
            for dname, dial in (("sqlite", _dl_sqlite.dialect()), ("postgresql", _dl_pg.dialect())):
                evals[0] += 1
                outs = []
                for v in (a, b):
                    try:
                        c = build(tmpl.format(v)).compile(dialect=dial)
                        outs.append(("ok", str(c), [str(x) for x in c.params.values()]))
                    except Exception as e:  # noqa
                        outs.append((impl.canon_exc(e), "", []))
                (oa, sqa, pa), (ob, sqb, pb) = outs
                ta, tb = tmpl.format(a), tmpl.format(b)
                if oa != "ok" or ob != "ok":
                    tally[f"{bname}:refused"] += 1
                    if (oa == "ok") != (ob == "ok"):
                        viol.append((f"{bname}/{dname}", ta, tb, f"one variant accepted, the other {oa if oa != 'ok' else ob}"))
                    continue
                bad = None
                if sqa != sqb:
                    bad = "compiled SQL differs between the two literal assignments"
                for v, sq in ((a, sqa), (b, sqb)):
                    core = v.strip("'").replace("duration'", "")
                    if len(core) > 4 and (core in sq or core.replace("-", "") in sq):
                        bad = f"value {core!r} appears in the SQL text"
                if bad:
                    viol.append((f"{bname}/{dname}", ta, tb, bad))
                else:
                    tally[f"{bname}:ok"] += 1
    return viol, tally, kf, evals[0]

def env_switches():
    """names of environment variables the library's own source reads (configuration switches): the judge is repeated in a process with each of them set"""
    import re as _re2, glob as _glob, odata_query as _oq
    names = set()
    for f in _glob.glob(os.path.join(os.path.dirname(_oq.__file__), "**", "*.py"), recursive=True):
        src = open(f, encoding="utf-8").read()
        names |= set(_re2.findall(r"""environ(?:\.get)?\s*[\(\[]\s*['"]([A-Za-z_][A-Za-z0-9_]*)['"]""", src))
        names |= set(_re2.findall(r"""getenv\s*\(\s*['"]([A-Za-z_][A-Za-z0-9_]*)['"]""", src))
    return sorted(names)

SWITCH_PROG = r'''
import sys, json
sys.path.insert(0, sys.argv[1])
import checks.c08 as c08
viol, tally, kf, n = c08.judge_shorthands(False)
print(json.dumps({"viol": [list(v) for v in viol[:40]], "n_viol": len(viol), "evaluations": n}))
'''

def run(ctx):
    common.build_and_audit(ctx, PROP_MODS, gen=lambda c: gen_tables.generate(["Orm"]))
    rng = ctx.rng
    # 1. correspondence: the visitor models (Model/Orm.lean) vs the real visitors — outcome class, exception payload, bound literal values
    g = gens_typed.TypedGen(rng)
    nodes = sc.node_kind_matrix() + sc.operator_nestings() + [g.gen("bool", rng.randint(1, 5)) for _ in range(8000 if ctx.thorough else 1500)]
    uniq = sc.dedup(nodes)
    wt = driver.run_batch([driver.req("welltyped", w) for w, n in uniq])
    uniq = [(w, n) for (w, n), t in zip(uniq, wt) if t == "True"]
    def real_orm(kind):
        def f(c):
            w, n = c
            out, sql, params = (oc.django_compile(n) if kind == "django" else oc.sa_compile(n, "orm" if kind == "sa-orm" else "core"))
            if out.startswith("env:"):
                return "env"
            return "ok" if out == "ok" else out
        return f
    def model_parse(m):
        if m == "unmodelled":
            return "unmodelled"
        return "ok" if m.startswith("ok ") else m
    for kind, req in (("django", lambda c: driver.req("djbuild", c[0])), ("sa-orm", lambda c: driver.req("sabuild", "orm", FIELDS, c[0])),
                      ("sa-core", lambda c: driver.req("sabuild", "core", FIELDS, c[0]))):
        import driver as _d
        outs = _d.run_batch([req(c) for c in uniq])
        keep = [c for c, m in zip(uniq, outs) if m != "unmodelled"]
        rf = real_orm(kind)
        keep = [c for c in keep if rf(c) != "env"]
        common.correspond(ctx, f"{kind}-visitor-outcome", keep, real_fn=rf, model_reqs=req, model_parse=model_parse,
                          nontrivial=lambda c, r: True, describe=lambda c: repr(c[1])[:300], bucket=lambda c, r: kind + "/" + " ".join(r.split(" ")[:2]))
    # bound values: model's parameter list vs the parameters of the real compiled statement (as multisets of canonical values)
    pdiff = []
    for kind in ("django", "sa-orm", "sa-core"):
        reqs = [driver.req("djbuild", w) if kind == "django" else driver.req("sabuild", "orm" if kind == "sa-orm" else "core", FIELDS, w) for w, n in uniq]
        for (w, n), m in zip(uniq, driver.run_batch(reqs)):
            if not m.startswith("ok P"):
                continue
            if kind != "django" and bool_operand(n):
                continue      # SQLAlchemy folds `true() OR x` / `false() AND x` itself and drops x with its parameters
            out, sql, params = (oc.django_compile(n) if kind == "django" else oc.sa_compile(n, "orm" if kind == "sa-orm" else "core"))
            if out != "ok":
                continue
            mp = m[len("ok P "):].split(" T ")[0].split()
            want = collections.Counter()
            for p in mp:
                k, h = p.split(":", 1)
                txt = bytes.fromhex(h.strip('"')).decode("utf-8", "surrogatepass")
                if k == "Null":
                    continue
                want[frozenset(expected_param(k, txt))] += 1
            have = collections.Counter(canon_value(v) for v in (params if isinstance(params, list) else params.values()))
            ctx.evaluations += 1
            for alts, cnt in want.items():
                got = sum(have[a] for a in alts)
                # SQLAlchemy escapes LIKE wildcards inside the bound value of a literal substring (autoescape): accept the escaped form
                if got < cnt:
                    esc = sum(c for v, c in have.items() if any(v.replace("/%", "%").replace("/_", "_").replace("//", "/") == a for a in alts))
                    if got + esc < cnt:
                        pdiff.append((kind, n, sorted(map(str, alts)), dict(have)))
    if pdiff:
        ctx.broken.append(f"correspondence bound-values: the model's parameter list is not contained in the real parameter list in {len(pdiff)} cases; first: {pdiff[0][0]} {pdiff[0][1]!r} wants {pdiff[0][2]} has {pdiff[0][3]}"[:800])
    ctx.note(f"bound values: model parameters found among the real parameters for all but {len(pdiff)} of the compiled statements")
    # 2. the property on the real code, through the shorthands on filter TEXT
    viol, tally, kf, n_ev = judge_shorthands(ctx.thorough)
    ctx.evaluations += n_ev
    # configuration switches: every environment variable the library's source reads is set to each of "1" / "true" in a process of its own and the judge repeated there
    # (a switch may change what is logged or how statements are annotated — not whether values are bound); on a source without such reads nothing runs
    import subprocess, sys as _sys, json as _json
    switches = env_switches()
    ctx.extra["environment_switches"] = switches
    for name in switches:
        for val in ("1", "true"):
            env = dict(os.environ); env[name] = val
            try:
                p = subprocess.run([_sys.executable, "-c", SWITCH_PROG, common.HERE], env=env, stdout=subprocess.PIPE, stderr=subprocess.PIPE, timeout=900)
                res = _json.loads(p.stdout.decode().strip().split("\n")[-1])
            except Exception as e:  # noqa
                ctx.note(f"switch {name}={val}: the judge process did not finish ({type(e).__name__})")
                continue
            ctx.evaluations += res["evaluations"]
            tally[f"switch:{name}={val}:violations"] += res["n_viol"]
            for v in res["viol"]:
                viol.append((v[0] + f" [{name}={val}]", v[1], v[2], v[3]))
    ctx.extra["judged"] = dict(tally)
    ctx.extra["known_finding_hits"] = kf
    ctx.note(f"judge C08 on compiled statements: {dict(tally)}; {len(viol)} violations")
    if viol:
        v = viol[0]
        ctx.broken.append(f"real compiled SQL violates C08 in {len(viol)} cases; first: {v[0]}: {v[1]!r} vs {v[2]!r}: {v[3]}"[:800])

    def search(ctx):
        found = [{"property": "C08", "backend": v[0], "filter_a": v[1][:2000], "filter_b": v[2][:2000], "why": v[3],
                  "signature": f"C08:{v[0]}:{v[3].split(' ')[0]}",
                  "replay": "apply the shorthand to both texts, compile (Django sql_with_params / SQLAlchemy compile(render_postcompile=True)); the SQL must be identical and the values only in the parameters"}
                 for v in viol[:40]]
        ctx.extra["searched"] = "28 templates x literal pairs of every kind, in-lists of 3 / 101 / 120+ elements, through all four shorthand entry styles"
        return found

    def known_replay(f):
        a = oc.sa_shorthand_sql("contains(s1, 'ab')", "orm"); b = oc.sa_shorthand_sql("contains(s1, 'a%b')", "orm")
        return a[0] == "ok" and b[0] == "ok" and a[1] != b[1]

    return common.finish(
        ctx,
        rule="visitor models vs real visitors on the strictly well-typed node-kind matrix and seeded typed filters (outcome class, payload, bound values); then 28 filter "
             "templates with literal holes x pairs of literal assignments of every kind (strings with SQL metacharacters, numbers, dates, datetimes, GUIDs, list elements, in-lists "
             "of 3 / 101 / 120-250 elements) through Django's shorthand and the three SQLAlchemy entry styles: compiled SQL (post-compile parameters rendered) compared for "
             "equality, values looked up in the parameter list and searched for in the SQL text; every case is non-trivial (distinct template x assignment)",
        assumptions=["Booleans and null are inline constants on SQLAlchemy (true()/false()/null()) and are not among the literal kinds the property lists"],
        trusted_extra=["Model/Orm.lean is tied to the visitors by outcome + bound-value correspondence; that Value()/literal() compile to placeholders is Django's / SQLAlchemy's behaviour, observed on the compiled statements"],
        search_fn=search, known_replay_fn=known_replay)
