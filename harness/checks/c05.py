"""C05 — the parser groups operators exactly as the OData precedence table dictates."""
import itertools
import common, driver, gens_ast, gens, impl, gen_tables
from sexpr import enc, hexs, unhex
from odata_query import ast
from odata_query.grammar import ODataLexer, ODataParser

PROP_MODS = ["ODataVerif.Props.Accepted", "ODataVerif.Tie.ParserTables", "ODataVerif.Props.C05", "ODataVerif.Props.C05Roundtrip", "ODataVerif.Props.C13Text", "ODataVerif.Props.C05Text", "ODataVerif.Props.C10Image"]

BIN = [("bool", ast.Or), ("bool", ast.And), ("cmp", ast.Eq), ("cmp", ast.NotEq), ("cmp", ast.Lt), ("cmp", ast.LtE), ("cmp", ast.Gt),
       ("cmp", ast.GtE), ("arith", ast.Add), ("arith", ast.Sub), ("arith", ast.Mult), ("arith", ast.Div), ("arith", ast.Mod), ("in", ast.In)]
UN = [ast.Not, ast.USub]
ATOMS = lambda: [ast.Identifier("a"), ast.Identifier("b"), ast.Identifier("c"), ast.Identifier("d")]

def mk_bin(op, l, r):
    kind, cls = op
    if kind == "bool":
        return ast.BoolOp(cls(), l, r)
    if kind == "arith":
        return ast.BinOp(cls(), l, r)
    if kind == "in":
        return ast.Compare(cls(), l, ast.List([r, ast.Integer("2")]))
    return ast.Compare(cls(), l, r)

def shapes(ops, leaves):
    """all trees whose internal nodes are `ops` in pre-order, every binary shape"""
    if not ops:
        return [leaves[0]], leaves[1:]
    raise NotImplementedError

def all_trees(ops):
    """every tree using the operators `ops` (in every arrangement of these operators as internal nodes)"""
    names = iter("abcdefgh")
    def build(ops_left):
        # returns list of (tree, remaining_ops) using a prefix of ops_left as the root
        if not ops_left:
            return [(None, ())]
        out = []
        op = ops_left[0]; rest = ops_left[1:]
        if op in UN:
            for k in range(len(rest) + 1):
                for sub in trees_using(rest[:k]) if k == len(rest) else []:
                    out.append(ast.UnaryOp(op(), sub))
            return out
        for k in range(len(rest) + 1):
            for l in trees_using(rest[:k]):
                for r in trees_using(rest[k:]):
                    out.append(mk_bin(op, l, r))
        return out
    def trees_using(ops_):
        if not ops_:
            return [None]
        res = []
        for perm_root in range(len(ops_)):
            op = ops_[perm_root]; others = ops_[:perm_root] + ops_[perm_root + 1:]
            if op in UN:
                for sub in trees_using(others):
                    res.append(("u", op, sub))
            else:
                for k in range(len(others) + 1):
                    for l in trees_using(others[:k]):
                        for r in trees_using(others[k:]):
                            res.append(("b", op, l, r))
        return res
    def realise(t, it):
        if t is None:
            return ast.Identifier(next(it))
        if t[0] == "u":
            return ast.UnaryOp(t[1](), realise(t[2], it))
        return mk_bin(t[1], realise(t[2], it), realise(t[3], it))
    out = []
    for t in trees_using(tuple(ops)):
        out.append(realise(t, iter("abcdefgh")))
    return out

STYLES = ["000000", "100000", "010000", "001100", "000011", "001010", "000101", "111111"]

def gen_trees(ctx):
    ops = BIN + UN
    trees = []
    for o1 in ops:
        trees += all_trees([o1])
    for o1, o2 in itertools.product(ops, repeat=2):
        trees += all_trees([o1, o2])
    triples = list(itertools.product(ops, repeat=3))
    if not ctx.thorough:
        triples = ctx.rng.sample(triples, 700)
    for t in triples:
        trees += all_trees(list(t))
    # operands of other kinds: paths, calls, lists, lambdas, literals in operator context
    g = gens_ast.AstGen(ctx.rng)
    for _ in range(6000 if ctx.thorough else 800):
        trees.append(g.gen(ctx.rng.randint(1, 6)))
    # LONG chains (65 / 100 / 200 operands) of one operator, left-nested as the grammar associates them, right-nested with explicit parentheses, and mixed
    def chain(op_node, n, left=True, leaf=lambda i: ast.Compare(ast.Eq(), ast.Identifier("a"), ast.Integer(str(i)))):
        items = [leaf(i) for i in range(n)]
        if left:
            e = items[0]
            for x in items[1:]:
                e = op_node(e, x)
        else:
            e = items[-1]
            for x in reversed(items[:-1]):
                e = op_node(x, e)
        return e
    OR = lambda l, r: ast.BoolOp(ast.Or(), l, r); AND = lambda l, r: ast.BoolOp(ast.And(), l, r); ADD = lambda l, r: ast.BinOp(ast.Add(), l, r)
    for n in (64, 65, 100, 200):
        trees += [chain(OR, n), chain(AND, n), chain(OR, n, left=False), OR(chain(AND, n), chain(AND, 3)), AND(chain(OR, n), ast.Identifier("b")),
                  ast.Compare(ast.Gt(), chain(ADD, n, leaf=lambda i: ast.Identifier("x%d" % i)), ast.Integer("0")), ast.UnaryOp(ast.Not(), chain(OR, n))]
    uniq = {}
    for t in trees:
        uniq.setdefault(enc(t), t)
    return list(uniq.items())

def run(ctx):
    import sys
    sys.setrecursionlimit(max(sys.getrecursionlimit(), 10000))      # the harness encodes 200-deep chains recursively
    common.build_and_audit(ctx, PROP_MODS, gen=lambda c: gen_tables.generate(["ParserTables"]))
    trees = gen_trees(ctx)
    # render every tree with the independent reference printer (Lean, Spec/RefPrinter)
    reqs, meta = [], []
    for i, (w, t) in enumerate(trees):
        for mode in ("min", "full", "printer"):
            stys = STYLES if (ctx.thorough or i % 7 == 0) else [STYLES[0], STYLES[(i % 7) + 1]]
            for st in stys:
                reqs.append(driver.req("refprint", mode, st, w)); meta.append((w, t, mode, st))
    try:
        texts = [unhex(x) if x not in ("not-expr", "bad-arg") else None for x in driver.run_batch(reqs)]
    except Exception as e:  # noqa
        ctx.broken.append(f"reference printer unavailable: {e}")
        texts = [None] * len(reqs)
    cases = [(txt, w, mode, st) for (w, t, mode, st), txt in zip(meta, texts) if txt is not None]
    cases = list({c[0]: c for c in cases}.values())
    # the same renderings with the OPERATOR keywords in other letter cases (AND, Or, NOT, EQ, Add, MUL ... - literal keywords keep their spelling, so the tree is the same):
    # grouping follows the operator, not its spelling
    def respell_ops(text, fn):
        out = []
        toks = list(ODataLexer().tokenize(text))
        for i, t in enumerate(toks):
            end = toks[i + 1].index if i + 1 < len(toks) else len(text)
            raw = text[t.index:end]
            out.append(fn(raw) if t.type in ("ADD", "SUB", "MUL", "DIV", "MOD", "AND", "OR", "EQ", "NE", "LT", "LE", "GT", "GE", "IN", "NOT") else raw)
        return "".join(out)
    extra = []
    for k, c in enumerate(cases):
        if ctx.thorough or k % 3 == 0:
            for fn in (str.upper, str.title, lambda s: "".join(ch.upper() if i % 2 else ch for i, ch in enumerate(s))):
                try:
                    v = respell_ops(c[0], fn)
                except Exception:  # noqa
                    continue
                if v != c[0]:
                    extra.append((v, c[1], c[2] + "+opcase", c[3]))
    cases += list({c[0]: c for c in extra}.values())
    lx, ps = ODataLexer(), ODataParser()
    common.correspond(ctx, "parse-renderings", cases, real_fn=lambda c: impl.real_parse(c[0], lx, ps),
                      model_reqs=lambda c: driver.req("parse", hexs(c[0])[1:-1]),
                      nontrivial=lambda c, r: c[1].count("(BinOp") + c[1].count("(Compare") + c[1].count("(BoolOp") + c[1].count("(UnaryOp") >= 2,
                      describe=lambda c: c[0], bucket=lambda c, r: c[2] + "/" + r.split(" ")[0])
    # the model itself must return the tree it was printed from (sanity of model + reference printer)
    model_out = driver.run_batch([driver.req("parse", hexs(c[0])[1:-1]) for c in cases]) if cases else []
    bad_model = [(c, m) for c, m in zip(cases, model_out) if m != "ok " + c[1]]
    ctx.note(f"model parse of reference renderings == source tree: {len(cases) - len(bad_model)}/{len(cases)}")
    ctx.extra["model_vs_reference_printer_mismatches"] = len(bad_model)
    if bad_model:
        ctx.extra["model_vs_reference_first"] = {"text": bad_model[0][0][0], "tree": bad_model[0][0][1], "model": bad_model[0][1]}

    def search(ctx):
        found = []
        cand = [c for (n, c, r, m) in ctx.diffs] or cases
        for c in cand:
            r = impl.real_parse(c[0])
            if r != "ok " + c[1]:
                found.append({"property": "C05", "input": c[0], "rendering": c[2], "whitespace_style": c[3], "expected_tree": c[1],
                              "real_outcome": r[:2000], "why": "parsing the reference rendering does not yield the tree it was printed from",
                              "signature": "C05:" + c[0][:40], "replay": f"ODataParser().parse(ODataLexer().tokenize({c[0]!r}))"})
        ctx.extra["searched"] = f"{len(cand)} renderings; judge: real AST == source tree of the reference printer (Lean Spec/RefPrinter)"
        return found

    return common.finish(
        ctx,
        rule="every single operator, every ordered pair and (quick: 700 sampled / thorough: all) triples of the 14 binary + 2 unary operators in every tree "
             "arrangement, plus random full-grammar trees to depth 6; each rendered minimally and fully parenthesised by the Lean reference printer in "
             "2-5 optional-whitespace styles; non-trivial = at least two operators",
        assumptions=["SLY's LALR(1) construction and CPython's re are modelled and tied by this correspondence run, not verified",
                     "the reference printer (Spec/RefPrinter.lean) knows only the OData 4.01 §5.1.1.14 table"],
        trusted_extra=["Spec/RefPrinter.lean"],
        search_fn=search, known_replay_fn=None)
