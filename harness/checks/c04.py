"""C04 — navigation paths and any/all lambdas mean what OData says on the ORM backends."""
import collections, os
import common, driver, impl, gen_tables, dbenv
import relcommon as rc, ormcommon as oc
from sexpr import enc
from odata_query import ast

PROP_MODS = ["ODataVerif.Tie.Orm"] + [m for m in ("ODataVerif.Props.C04",) if os.path.exists(common.lean_module_path(m))]

BACKENDS = [("django", lambda t, m: oc.dj_shorthand_ids(t, m)), ("sa-select", lambda t, m: oc.sa_shorthand_ids(t, "orm", m)),
            ("sa-query", lambda t, m: oc.sa_shorthand_ids(t, "legacy", m))]

def spec_ids(tbl, trees, D, ids):
    """RelSem (Lean) -> per filter: (selected ids, excluded ids) or None when outside the relational grammar"""
    outs = driver.run_batch([driver.req("releval", tbl, enc(n), D) for t, n in trees])
    res = []
    for o in outs:
        if o in ("noelab", "bad-db") or "?" in o:
            res.append(None)
        else:
            cells = o.split(" ") if o else []
            res.append(({i for i, c in zip(ids, cells) if c.lstrip("x") == "T"}, {i for i, c in zip(ids, cells) if c.startswith("x")}))
    return res

def judge_db(ctx, db, root_tbl, model, filters, tally, viol, agree_only=False, spec_of=None):
    """spec_of: filter text -> the text whose reference semantics it has (a to-one relationship compared with null / a key value means its foreign key)"""
    D = rc.enc_db(db)
    trees = []
    for t in filters:
        try:
            impl.real_parse_ast(t)
            trees.append((t, impl.real_parse_ast((spec_of or {}).get(t, t))))
        except Exception as e:  # noqa
            viol.append((model, t, None, f"the parser rejects the filter: {type(e).__name__}"))
    ids = [r["id"] for r in db[root_tbl]]
    specs = spec_ids(root_tbl, trees, D, ids)
    # the plan models (Model/OrmRel.lean) evaluated by the environment models (Spec/OrmRelSem.lean), for the correspondence with the real ORMs
    plans = {"django": driver.run_batch([driver.req("relplan", "dj", root_tbl, enc(n), D) for t, n in trees]),
             "sa": driver.run_batch([driver.req("relplan", "sa", root_tbl, enc(n), D) for t, n in trees])}
    for k, ((t, n), sp) in enumerate(zip(trees, specs)):
        results = {}
        for name, fn in BACKENDS:
            r = fn(t, model)
            ctx.evaluations += 1
            results[name] = r
            if not r.startswith("ids"):
                cls = " ".join(r.split(" ")[:2])
                tally[f"{name}:{cls}"] += 1
                pm = plans["django" if name == "django" else "sa"][k]
                unknown_field = r.startswith(("env:FieldError", "env:FieldDoesNotExist", "lib InvalidFieldException"))
                if unknown_field and rc.names_lacking(t):
                    # a name the model does not have: refused by the ORM (Django) / by the library (SQLAlchemy); the plan models do not
                    # carry column catalogues, so there is nothing to compare
                    tally[f"{name}:refused-unknown-field"] += 1
                    continue
                if unknown_field:
                    # every name of this filter exists on the model it is applied to (the generator knows which of its filters name a lacking column),
                    # yet the backend reports an unknown field: a name was resolved against the wrong model
                    viol.append((model, t, name, f"a filter over existing fields is refused as an unknown field: {r[:100]}"))
                    continue
                if pm.startswith("ok ") and not (name.startswith("sa-") and rc.same_table_twice(t, model)):
                    ctx.diffs.append(("rel-plan-" + name, (model, t), r[:80], pm[:80]))
                    tally[f"{name}:PLAN-MODEL-DIFF"] += 1
                if name.startswith("sa-") and r.startswith("env:OperationalError") and rc.same_table_twice(t, model):
                    tally[f"{name}:KF-same-table-twice"] += 1
                elif r.startswith("foreign") or r == "notimpl" or r.startswith("env:"):
                    viol.append((model, t, name, f"internal / environment error leaked: {r[:120]}"))
                continue
            got = {int(x) for x in r.split()[1:]}
            pm = plans["django" if name == "django" else "sa"][k]
            if pm.startswith("ok "):
                excl0 = sp[1] if sp is not None else set()
                msel = {i for i, c in zip(ids, pm.split(" ")[1:]) if c == "T"}
                if "?" in pm or (msel - excl0) != (got - excl0):
                    ctx.diffs.append(("rel-plan-" + name, (model, t), "ids " + " ".join(map(str, sorted(got))), pm[:200]))
                    tally[f"{name}:PLAN-MODEL-DIFF"] += 1
                else:
                    tally[f"{name}:plan-model-agree"] += 1
            elif pm.startswith("err ") and sp is not None:
                ctx.diffs.append(("rel-plan-" + name, (model, t), "ids …", pm))
                tally[f"{name}:PLAN-MODEL-DIFF"] += 1
            if sp is None:
                tally[f"{name}:outside-spec-grammar"] += 1
                continue
            want, excl = sp
            if (got - excl) != (want - excl):
                tally[f"{name}:MISMATCH"] += 1
                viol.append((model, t, name, f"returned parents {sorted(got - excl)} but the filter denotes {sorted(want - excl)}"))
            else:
                tally[f"{name}:agree"] += 1
                if 0 < len(want) < len(ids):
                    ctx.nontrivial.add(t + "@" + str(len(ids)))
        # both ORMs agree with each other whenever both translate
        idr = {k: v for k, v in results.items() if v.startswith("ids")}
        if len(set(idr.values())) > 1 and sp is None:
            viol.append((model, t, "orm-vs-orm", f"the ORMs disagree: {idr}"))

def run(ctx):
    common.build_and_audit(ctx, PROP_MODS, gen=lambda c: gen_tables.generate(["Orm"]))
    rng = ctx.rng
    tally, viol = collections.Counter(), []
    dbs = [rc.shapes_db()] + [rc.random_db(rng, 14) for _ in range(6 if ctx.thorough else 2)]
    filters = rc.all_leaves() + [rc.gen_filter(rng, rng.randint(1, 3)) for _ in range(1500 if ctx.thorough else 250)]
    filters = list(dict.fromkeys(filters))
    ctx.exhaustive = False
    for db in dbs:
        rc.load(db)
        judge_db(ctx, db, "p", "P", filters, tally, viol)
        # other root models, in an order that puts same-named collections / relationships on different models next to each other
        for tbl, model, fs in rc.OTHER_ROOTS:
            judge_db(ctx, db, tbl, model, fs, tally, viol)
        # … and back to P afterwards (memoised reverse paths / joins from other models must not leak)
        # a lambda nested in a lambda's body, then (or before) a predicate of the OUTER row on a column name the child models share / do not share
        judge_db(ctx, db, "p", "P", ["tags/any(t: t/ps/any(q: q/a gt 0)) and a gt 0", "tags/any(t: t/ps/any(q: q/a gt 0)) and id gt 1", "a gt 0 and tags/any(t: t/ps/any(q: q/a gt 0))",
                                     "tags/any(t: t/ps/any(q: q/a gt 0)) or s eq 'a'", "not tags/any(t: t/ps/all(q: q/a gt 0)) and id eq 2",
                                     "tags/any(t: t/ps/any(q: q/kids/any(k: k/x eq 2))) and a eq 2", "o/ps/any(q: q/tags/any(t: t/label eq 'l')) and a gt 0 and id gt 0",
                                     "(tags/any(t: t/ps/any(q: q/a gt 0)) and a gt 0) or (kids/any(k: k/x eq 2) and id gt 1)"], tally, viol)
        # a to-one relationship ITSELF compared with null or with a key value (either side), alone and combined: it stands for its foreign key
        #   (o -> o_id, w -> w_id, dept -> dn: the key of d is `number`, not its primary key; w/o -> w/o_id)
        rel_cmp = {}
        for applied, spec in (("o eq null", "o_id eq null"), ("o ne null", "o_id ne null"), ("null eq o", "o_id eq null"), ("null ne w", "w_id ne null"), ("o eq 1", "o_id eq 1"), ("3 eq o", "o_id eq 3"),
                              ("o ne 2", "o_id ne 2"), ("w eq 2", "w_id eq 2"), ("dept eq null", "dn eq null"), ("dept eq 10", "dn eq 10"), ("dept ne 2", "dn ne 2"), ("2 eq dept", "dn eq 2"),
                              ("w/o eq null", "w/o_id eq null"), ("w/o eq 1", "w/o_id eq 1"), ("o in (1, 3)", "o_id in (1, 3)")):
            rel_cmp[applied] = spec
            for wrap_a, wrap_s in (("not ({})", "not ({})"), ("{} and a gt 0", "{} and a gt 0"), ("a eq 2 or {}", "a eq 2 or {}"), ("{} and kids/any(k: k/x eq 2)", "{} and kids/any(k: k/x eq 2)"),
                                   ("kids/any() and {}", "kids/any() and {}")):
                rel_cmp[wrap_a.format(applied)] = wrap_s.format(spec)
        judge_db(ctx, db, "p", "P", list(rel_cmp), tally, viol, spec_of=rel_cmp)
        # a lambda COMPARED with a Boolean literal (eq / ne x true / false x either side), alone, under and / or / not and inside another lambda's body: a lambda is
        # two-valued, so `L eq true` and `L ne false` denote L, `L eq false` and `L ne true` denote not L
        lam_cmp = {}
        for L in ("kids/any()", "kids/any(k: k/x eq 2)", "kids/all(k: k/x eq 2)", "tags/any(t: t/label eq 'l')", "tags/all(t: t/label ne 'm')", "o/ps/any(q: q/a gt 0)"):
            for form, pos in (("{} eq true", True), ("{} ne false", True), ("{} eq false", False), ("{} ne true", False), ("true eq {}", True), ("false ne {}", True),
                              ("false eq {}", False), ("true ne {}", False), ("{} eq TRUE", True), ("{} ne False", True)):
                applied, spec = form.format(L), (L if pos else f"not ({L})")
                lam_cmp[applied] = spec
                for wrap in ("not ({})", "({}) and a gt 0", "a eq 2 or ({})"):
                    lam_cmp[wrap.format(applied)] = wrap.format(spec)
        for form, pos in (("{} ne false", True), ("{} eq false", False), ("false ne {}", True), ("{} eq true", True)):
            inner = "q/kids/any(k: k/x eq 2)"
            lam_cmp["o/ps/any(q: " + form.format(inner) + ")"] = "o/ps/any(q: " + (inner if pos else f"not ({inner})") + ")"
        judge_db(ctx, db, "p", "P", list(lam_cmp), tally, viol, spec_of=lam_cmp)
        judge_db(ctx, db, "k", "K", ["p eq null", "p eq 3", "null ne o", "p/o eq null", "p/o eq 1 or o eq 4", "p/dept eq 10"], tally, viol,
                 spec_of={"p eq null": "p_id eq null", "p eq 3": "p_id eq 3", "null ne o": "o_id ne null", "p/o eq null": "p/o_id eq null", "p/o eq 1 or o eq 4": "p/o_id eq 1 or o_id eq 4",
                          "p/dept eq 10": "p/dn eq 10"})
        judge_db(ctx, db, "p", "P", ["o/ps/any(q: q/a gt 0)", "tags/any(t: t/ps/any(q: q/a gt 0))", "kids/any(k: k/x eq 2)", "o/name eq 'x' and w/o/label eq 'l'",
                                     "w/o/label eq 'l' and o/name eq 'x'", "not (o/name eq 'x') or w/o/label eq 'l'"], tally, viol)
    ctx.corr_names.append("relational-plan-models")
    nd = sum(v for k, v in tally.items() if "PLAN-MODEL-DIFF" in k)
    if nd:
        d0 = ctx.diffs[0]
        ctx.broken.append(f"correspondence relational-plan-models: {nd} (backend, filter, database) cases differ; first: {d0[1]} real {d0[2][:80]} model {d0[3][:80]}")
    ctx.extra["judged"] = dict(sorted(tally.items()))
    ctx.note(f"judge C04 (real ORM results vs Spec.RelSem): {dict(sorted(tally.items()))}; {len(viol)} violations")
    if viol:
        m, t, b, why = viol[0]
        ctx.broken.append(f"real result violates C04 in {len(viol)} cases; first: root={m} backend={b} {t!r}: {why}"[:800])

    def search(ctx):
        found = [{"property": "C04", "root_model": m, "backend": b, "filter": t, "why": why, "signature": f"C04:{b}:{why.split(' ')[0]}",
                  "replay": "load the database (relcommon.shapes_db / random_db with the run's seed), apply the shorthand, compare the returned parent ids with Spec.evalR (Lean, `releval`)"}
                 for m, t, b, why in viol[:40]]
        ctx.extra["searched"] = "every leaf of the relational grammar and seeded and/or/not compositions x shape database + random databases x Django / select(Model) / session.query(Model), five root models in sequence"
        return found

    return common.finish(
        ctx,
        rule="every leaf of the relational grammar (to-one paths of depth 1-3 incl. through NULL keys, null tests, any() / any(x: p) / all(x: p) over to-many and many-to-many collections, "
             "owners behind to-one paths, lambdas nested to depth 2-3) and seeded and/or/not compositions, on a 'shape' database (every combination of 0-3 related rows with values that "
             "separate any from all, with / without owner, shared tags, NULL keys) and random databases; through Django, select(Model) and session.query(Model); then four other root models "
             "whose collections / relationships share names with P's, in sequence in one process; returned parent ids compared with Spec.evalR; non-trivial = the filter separates parents",
        assumptions=["lambda bodies are two-valued on the related rows (Spec.lambdaClean: the property quantifies over bodies over non-null child columns); other (filter, parent) pairs are excluded and counted",
                     "SQLAlchemy refuses a lambda whose body navigates (library TypeException, fix f6a5118): outside the supported fragment"],
        trusted_extra=["Spec/RelSem.lean (reference semantics of paths and lambdas over a schema), Spec/RelElab.lean (the verification schema; lambda bodies made relative by the specification's own rule)"],
        search_fn=search, known_replay_fn=None)
