"""C09 — every SQL dialect emits well-formed SQL whose structure mirrors the filter."""
import collections
import common, driver, gens_typed, gens_ast, gens, impl, gen_tables
import sqlcommon as sc
from sexpr import enc, hexs
from odata_query import ast

PROP_MODS = ["ODataVerif.Props.Accepted", "ODataVerif.Tie.Sql", "ODataVerif.Tie.SqlTemplates", "ODataVerif.Tie.ParserTables", "ODataVerif.Props.C09", "ODataVerif.Props.C09Parse", "ODataVerif.Props.C06Image"]

def cases_for(ctx):
    rng = ctx.rng
    nodes = sc.operator_nestings() + sc.repeated_subterms()
    for h in ["x", "O'B", "100%", "a_c", "a\\b", "", "it's 100%", "o'_x", "%'", "a\\'b%", "'_'", "50%/50"]:
        nodes += sc.string_positions(h)
    g = gens_typed.TypedGen(rng)
    typed = []
    for _ in range(30000 if ctx.thorough else 2500):
        typed.append(g.gen("bool", rng.randint(1, 6 if ctx.thorough else 5)))
    for f in gens.VALID_FILTERS:
        try:
            nodes.append(impl.real_parse_ast(f))
        except Exception:  # noqa
            pass
    # duration literals: every sign x component combination that matters for the INTERVAL rendering, in several operand positions
    I = sc.I
    for dur in ["P1D", "-P1D", "+P1D", "PT0S", "P1Y2M3DT4H5M6.5S", "-P1Y2M3DT4H5M6.5S", "-P1DT12H", "+PT1H30M", "P2M", "-PT1M", "PT1.5S", "-P1YT1S"]:
        d = ast.Duration(dur)
        nodes += [ast.Compare(ast.Gt(), ast.BinOp(ast.Add(), I("dt1"), d), I("dt2")), ast.Compare(ast.Lt(), I("dt1"), ast.BinOp(ast.Sub(), sc.call("now"), d)),
                  ast.Compare(ast.Eq(), I("du1"), d), ast.Compare(ast.In(), I("du1"), ast.List([d, ast.Duration("P1D")])),
                  ast.Compare(ast.Ge(), ast.BinOp(ast.Sub(), I("dt1"), ast.BinOp(ast.Add(), d, d)), I("dt2")) if hasattr(ast, "Ge") else ast.Compare(ast.GtE(), ast.BinOp(ast.Sub(), I("dt1"), ast.BinOp(ast.Add(), d, d)), I("dt2")),
                  ast.Compare(ast.Eq(), ast.UnaryOp(ast.USub(), d), I("du1"))]
    # every other literal kind in a comparison and a list
    for lit in [ast.Date("2020-02-29"), ast.Time("23:59:59"), ast.DateTime("2020-01-01T10:00:00Z"), ast.DateTime("2020-01-01T10:00:00.5+01:00"), ast.GUID("01234567-89ab-cdef-0123-456789abcdef"),
                ast.Float("1.5"), ast.Float("-2.5E-2"), ast.Integer("-7"), ast.Integer("+3"), ast.Boolean("TRUE"), ast.Null()]:
        nodes += [ast.Compare(ast.Eq(), I("x1"), lit), ast.Compare(ast.NotEq(), lit, I("x1")), ast.Compare(ast.In(), I("x1"), ast.List([lit, lit]))]
    # list-typed arguments of the overloaded built-ins (the list overloads exist on Athena only; the others must refuse): argument ORDER matters
    L3, L2, L1 = ast.List([ast.Integer("1"), ast.Integer("2"), ast.Integer("3")]), ast.List([ast.Integer("2"), ast.Integer("3")]), ast.List([ast.Integer("9")])
    nodes += [ast.Compare(ast.Eq(), sc.call("substring", L3, ast.Integer("1"), ast.Integer("2")), L2), ast.Compare(ast.Eq(), sc.call("substring", L3, ast.Integer("1")), L2),
              ast.Compare(ast.Eq(), sc.call("length", sc.call("substring", L3, ast.Integer("0"), ast.Integer("2"))), ast.Integer("2")),
              ast.Compare(ast.Eq(), sc.call("concat", L3, L1), L2), ast.Compare(ast.Eq(), sc.call("concat", L1, L3), L2), ast.Compare(ast.Eq(), sc.call("length", L3), ast.Integer("3")),
              sc.call("contains", L3, L1), sc.call("contains", L1, L3), sc.call("startswith", L3, L1), sc.call("endswith", L3, L2), sc.call("hassubset", L3, L2), sc.call("hassubset", L2, L3),
              sc.call("hassubsequence", L3, L2), ast.Compare(ast.Eq(), sc.call("indexof", L3, L1), ast.Integer("0")),
              ast.Compare(ast.Eq(), sc.call("substring", sc.call("concat", L3, L1), ast.Integer("2"), ast.Integer("1")), L1)]
    # long in-lists (499 / 500 / 501 / 1 001 / 1 700 options) alone and as an operand of and / or / not / a comparison with true: one IN node in its place
    for n in (499, 500, 501, 1001, 1700):
        big = ast.Compare(ast.In(), I("x1"), ast.List([ast.Integer(str(k)) for k in range(n)]))
        sbig = ast.Compare(ast.In(), I("s1"), ast.List([sc.S("v%d" % k) for k in range(n)]))
        nodes += [big, ast.BoolOp(ast.And(), big, ast.Compare(ast.Eq(), I("y1"), ast.Integer("1"))), ast.BoolOp(ast.And(), ast.Compare(ast.Eq(), I("y1"), ast.Integer("1")), big),
                  ast.UnaryOp(ast.Not(), big), ast.BoolOp(ast.Or(), ast.UnaryOp(ast.Not(), sbig), ast.BoolOp(ast.And(), big, sbig)), ast.Compare(ast.Eq(), big, ast.Boolean("false"))]
    # field spellings: athena sanitiser, keywords as names, long names
    for nm in ["Name", "eac", "SELECT", "a1_b", "é", "naïve_Col", "x" * 40, "İd", "K", "_u", "ns9"]:
        nodes.append(ast.Compare(ast.Eq(), ast.Identifier(nm), ast.Integer("1")))
        nodes.append(sc.call("contains", ast.Identifier(nm), ast.Identifier("s1")))
    return sc.dedup(nodes + typed), {enc(t) for t in typed}

def has_call(n, names):
    import dataclasses
    if isinstance(n, ast.Call) and not n.func.namespace and n.func.name in names:
        return True
    if dataclasses.is_dataclass(n):
        for f in dataclasses.fields(n):
            v = getattr(n, f.name)
            if isinstance(v, list):
                if any(has_call(x, names) for x in v if isinstance(x, ast._Node)):
                    return True
            elif isinstance(v, ast._Node) and has_call(v, names):
                return True
    return False

def judge_batch(cases, nodes=None):
    """cases: list of (dialect, alias, wire, real_outcome) -> list of verdicts
    (kind, detail): agree | not-expressible | unsafe | refused | VIOL-unreadable | VIOL-tree | VIOL-alias"""
    reqs = []
    for d, a, w, r in cases:
        reqs.append(driver.req("mirror", d, sc.alias_arg(a), w))
        reqs.append(driver.req("sqlread", r[3:] if r.startswith("ok ") else ""))
        reqs.append(driver.req("sqlsafe", d, w))
    outs = driver.run_batch(reqs)
    res = []
    for i, (d, a, w, r) in enumerate(cases):
        mir, rd, safe = outs[3 * i], outs[3 * i + 1], outs[3 * i + 2]
        if safe != "True":
            # Spec.sqlSafe also excludes the standard dialect's floor/ceiling templates (known finding): judge those anyway
            if not (d == "std" and nodes is not None and has_call(nodes[i], ("floor", "ceiling"))):
                res.append(("unsafe", "")); continue
        if mir == "none":
            res.append(("not-expressible", "")); continue
        if not r.startswith("ok "):
            res.append(("refused", r)); continue
        if rd == "none":
            res.append(("VIOL-unreadable", f"expected {mir[:300]}")); continue
        if rd != mir:
            res.append(("VIOL-tree", f"read {rd[:300]} expected {mir[:300]}")); continue
        res.append(("agree", ""))
    return res

def sig_of(node, verdict, dialect):
    if dialect == "std" and has_call(node, ("floor", "ceiling")):
        return "C09:sql/base.py:sqlfunc_floor/sqlfunc_ceiling:not-sql"
    return f"C09:{dialect}:{verdict[0]}:{type(node).__name__}"

def run(ctx):
    common.build_and_audit(ctx, PROP_MODS, gen=lambda c: gen_tables.generate(["Sql", "SqlTemplates", "ParserTables"]))
    uniq, typed_set = cases_for(ctx)
    cases = []
    for w, n in uniq:
        for d in sc.DIALECTS:
            for a in sc.ALIASES:          # interleaved: a visitor with alias 't', then none, then 'u', same columns
                cases.append((d, a, w, n))
    ctx.exhaustive = False
    real_cache = {}
    def real_fn(c):
        r = sc.real_sql(c[0], c[1], c[3])
        real_cache[(c[0], c[1], c[2])] = r
        return r
    common.correspond(ctx, "sql-text", cases, real_fn=real_fn,
                      model_reqs=lambda c: sc.model_req(c[0], c[1], c[2]),
                      nontrivial=lambda c, r: r.startswith("ok ") and c[2].count("(") > 3,
                      describe=lambda c: f"{c[0]} alias={c[1]} {c[3]!r}"[:400],
                      bucket=lambda c, r: c[0] + "/" + (r.split(" ")[0] if r.startswith("ok") else " ".join(r.split(" ")[:2])))
    # the property itself, judged by the Lean specification on what the REAL code emitted
    jc = [(c[0], c[1], c[2], real_cache[(c[0], c[1], c[2])]) for c in cases]
    verdicts = judge_batch(jc, [c[3] for c in cases])
    tally = collections.Counter(v[0] for v in verdicts)
    ctx.extra["judged"] = dict(tally)
    ctx.note(f"judge C09 on real output: {dict(tally)}")
    findings, _ = common.load_known("C09")
    known_sigs = {f["signature"] for f in findings}
    viol = []
    typed_unsafe = 0
    for c, v in zip(cases, verdicts):
        if v[0] == "unsafe" and c[2] in typed_set:
            typed_unsafe += 1
        if v[0].startswith("VIOL"):
            sig = sig_of(c[3], v, c[0])
            if sig not in known_sigs:
                viol.append((c, v, sig))
    if typed_unsafe:
        ctx.broken.append(f"{typed_unsafe} filters of the typed grammar fall outside Spec.sqlSafe (the side condition of the theorem no longer covers the typed grammar)")
    ctx.extra["known_finding_hits"] = sum(1 for c, v in zip(cases, verdicts) if v[0].startswith("VIOL")) - len(viol)
    if viol:
        c, v, sig = viol[0]
        ctx.broken.append(f"real output violates C09 on {len(viol)} cases outside the listed findings; first: {c[0]} alias={c[1]} {c[3]!r}: {v[0]} {v[1]}"[:900])

    def search(ctx):
        found = []
        for c, v, sig in viol[:40]:
            r = real_cache[(c[0], c[1], c[2])]
            found.append({"property": "C09", "dialect": c[0], "alias": c[1], "tree": repr(c[3]), "wire": c[2],
                          "real_sql": bytes.fromhex(r[3:]).decode("utf-8", "replace") if r.startswith("ok ") else r,
                          "verdict": v[0], "detail": v[1], "signature": sig,
                          "replay": "Visitor(table_alias=alias).visit(tree) -> text -> Spec.sqlRead (Lean) must equal Spec.mirror dialect alias tree"})
        # differences between model and real that the judge did not already flag: judge those cases too
        extra = []
        for (nme, c, r, m) in ctx.diffs[:300]:
            extra.append((c[0], c[1], c[2], r))
        if extra:
            for (d, a, w, r), v in zip(extra, judge_batch(extra)):
                if v[0].startswith("VIOL"):
                    found.append({"property": "C09", "dialect": d, "alias": a, "wire": w, "real_sql": bytes.fromhex(r[3:]).decode("utf-8", "replace"),
                                  "verdict": v[0], "detail": v[1], "signature": f"C09:{d}:{v[0]}:diff"})
        ctx.extra["searched"] = "every generated case: real text -> Lean SQL reader -> compared with Spec.mirror (all three dialects x alias none/t/u)"
        return [f for f in found if f["signature"] not in known_sigs]

    def known_replay(f):
        nd = eval(f["input"], {"__builtins__": {}}, {k: getattr(ast, k) for k in dir(ast) if not k.startswith("__")})
        d = f.get("dialect", "std")
        r = sc.real_sql(d, None, nd)
        return judge_batch([(d, None, enc(nd), r)], [nd])[0][0].startswith("VIOL")

    return common.finish(
        ctx,
        rule="every operator applied to every operator in both operand positions (25 kinds, exhaustive pairs), every syntactic position of a string "
             "literal, the parsed corpus, field spellings, and seeded typed-grammar filters to depth 5-6; each x {standard, SQLite, Athena} x alias "
             "{none, 't', 'u'} with visitors of different aliases interleaved in one process; text compared exactly with the model, then read by "
             "the Lean SQL lexer+parser and compared with Spec.mirror; non-trivial = accepted and more than three nodes",
        assumptions=["filters satisfy Spec.sqlSafe (every typed-grammar filter does; checked on every run)",
                     "standard SQL precedence as fixed in Spec/SqlParse.lean (dialect disagreements are rejected, not resolved)"],
        trusted_extra=["Spec/SqlLex.lean, Spec/SqlParse.lean (independent reader), Spec/SqlMirror.lean (per-dialect spelling of the OData built-ins, typed in from the SQL documentation)"],
        search_fn=search, known_replay_fn=known_replay)
