"""C13 — AST -> OData text -> AST is the identity."""
import common, driver, gens_ast, gens, impl, gen_tables
from sexpr import enc, hexs, unhex
from odata_query import ast
from odata_query.roundtrip import AstToODataVisitor
from odata_query.grammar import ODataLexer, ODataParser

PROP_MODS = ["ODataVerif.Props.C13Accepted", "ODataVerif.Tie.PrinterPrecedence", "ODataVerif.Tie.ParserTables", "ODataVerif.Props.C13", "ODataVerif.Props.C13Roundtrip", "ODataVerif.Props.C13Text", "ODataVerif.Props.C10Image"]

def real_render(node):
    try:
        r = AstToODataVisitor().visit(node)
    except Exception as e:  # noqa
        return "raise:" + type(e).__name__
    if not isinstance(r, str):
        return "nonstr:" + type(r).__name__
    return r.encode("utf-8", "surrogatepass").hex()

def judge(node, wire):
    """the property: parse(render(t)) == t and render is a fixpoint after one step (all on the real code)"""
    try:
        txt = AstToODataVisitor().visit(node)
    except Exception as e:  # noqa
        return f"render raised {type(e).__name__}: {e}", None
    try:
        back = ODataParser().parse(ODataLexer().tokenize(txt))
    except Exception as e:  # noqa
        return f"rendered text {txt!r} does not parse: {type(e).__name__}", txt
    if enc(back) != wire:
        return f"rendered text {txt!r} parses to a different tree", txt
    try:
        if AstToODataVisitor().visit(back) != txt:
            return "render(parse(render(t))) != render(t)", txt
    except Exception as e:  # noqa
        return f"second render raised {type(e).__name__}", txt
    return None, txt

def small_trees():
    """all trees of depth <= 2 over one representative per node kind (exhaustive)"""
    leaves = [ast.Identifier("a"), ast.Identifier("b", ("ns",)), ast.Attribute(ast.Identifier("a"), "b"),
              ast.Attribute(ast.Attribute(ast.Identifier("a"), "b"), "c"), ast.Null(), ast.Integer("1"), ast.Integer("-1"), ast.Float("1.5"),
              ast.Boolean("true"), ast.String("it's"), ast.String(""), ast.Geography("POINT(1 2)"), ast.Date("2020-01-01"), ast.Time("12:00:00"),
              ast.DateTime("2020-01-01T10:00:00Z"), ast.Duration("P1D"), ast.GUID("01234567-89ab-cdef-0123-456789abcdef"),
              ast.Call(ast.Identifier("now"), []), ast.CollectionLambda(ast.Identifier("k"), ast.Any(), None)]
    def level(xs):
        out = []
        for l in xs:
            out += [ast.UnaryOp(ast.Not(), l), ast.UnaryOp(ast.USub(), l), ast.List([l]), ast.Call(ast.Identifier("length"), [l]),
                    ast.Call(ast.Identifier("f", ("x",)), [ast.NamedParam(ast.Identifier("p"), l)]),
                    ast.CollectionLambda(ast.Attribute(ast.Identifier("k"), "c"), ast.All(), ast.Lambda(ast.Identifier("t"), l))]
        for l in xs:
            for r in xs[:8]:
                out += [ast.BinOp(ast.Sub(), l, r), ast.BinOp(ast.Mult(), l, r), ast.Compare(ast.Eq(), l, r), ast.Compare(ast.Lt(), l, r),
                        ast.BoolOp(ast.And(), l, r), ast.BoolOp(ast.Or(), l, r), ast.Compare(ast.In(), l, ast.List([r])), ast.List([l, r]),
                        ast.Call(ast.Identifier("concat"), [l, r])]
        return out
    d1 = level(leaves)
    return leaves + d1

def run(ctx):
    common.build_and_audit(ctx, PROP_MODS, gen=lambda c: gen_tables.generate(["PrinterPrecedence", "ParserTables"]))
    rng = ctx.rng
    nodes = small_trees()
    d1 = nodes[19:]
    # depth 2: operators over depth-1 trees (sampled in quick, denser in thorough)
    import itertools
    pairs = list(itertools.product(d1[:: (3 if ctx.thorough else 11)], d1[:: (5 if ctx.thorough else 17)]))
    for l, r in pairs:
        k = rng.randrange(6)
        nodes.append([ast.BinOp(ast.Sub(), l, r), ast.BinOp(ast.Div(), l, r), ast.Compare(ast.NotEq(), l, r), ast.Compare(ast.GtE(), l, r),
                      ast.BoolOp(ast.And(), l, r), ast.BoolOp(ast.Or(), l, r)][k])
    g = gens_ast.AstGen(rng)
    for _ in range(8000 if ctx.thorough else 1500):
        nodes.append(g.gen(rng.randint(1, 7)))
    # accepted TEXTS whose path segments carry a namespace (the parser keeps only the segment's name): with ordinary names, and with names that are
    # reserved words or start with a digit once the namespace is gone (KNOWN FINDING C13-path-namespace: Props/C13Accepted.lean `accepted_lexable_original_false`)
    NS_PATH_TEXTS = ["x/a.b eq 1", "x/a.b/c.d eq x/e.f", "n.a/m.b/c eq 1", "x/ns.kids/any(k: k/m.v eq 1)", "f.g(x/a.b)", "x/a.eq eq 1", "x/a.add eq 1", "x/a.In eq 1",
                     "x/a.true eq 1", "x/a.FALSE eq 1", "x/a.null eq 1", "x/a.any eq 1", "x/a.all eq 1", "x/a.not eq 1", "x/a.1 eq 1", "x/a.1b eq 2", "a.true/b/c eq 1", "a.null/b eq 1",
                     "x/a.2020 eq 1", "x/y/a.true/z eq 1", "k/any(v: v/a.null eq 1)"]
    # identifiers spelled like OPERATOR keywords in every position an identifier can take: path root / segment, lambda owner and variable, parameter name, function name
    OP_WORD_TEXTS = []
    for w_ in "add sub mul div mod eq ne lt le gt ge in and or".split():
        OP_WORD_TEXTS += [f"{w_}/id eq 1", f"{w_}/any()", f"items/any({w_}: {w_}/price gt 10)", f"ns.f({w_}=1)", f"x/{w_} eq 1", f"x/{w_}/y eq 1", f"ns.{w_}/a eq 1", f"f.{w_}(1)",
                          f"({w_}) eq 1", f"x eq ({w_})", f"{w_}/all({w_}: {w_} eq {w_})"]
    # every duration SHAPE the lexer accepts: sign / each component present or absent / the T designator with nothing after it / leading zeros / fractions / letter case
    DUR_TEXTS = []
    for sg in ("", "+", "-"):
        for body in ("P", "PT", "P1D", "P1DT", "P1Y2M3DT", "PT1H", "PT0S", "PT0.50S", "P01D", "P001Y002M", "P1Y2M3DT4H5M6.5S", "PT1M", "P1M", "P1MT1M", "PT000.000001S", "P10675199DT2H48M5.4775807S"):
            DUR_TEXTS += [f"x eq duration'{sg}{body}'", f"x in (duration'{sg}{body}', duration'P1D')", f"dt1 add duration'{sg}{body}' gt dt2"]
    DUR_TEXTS += ["x eq duration'p1dt2h'", "x eq DURATION'pt'", "x eq Duration'-p1y2m3dt'"]
    for f in gens.VALID_FILTERS + gens.QUOTED_LITERAL_FILTERS + NS_PATH_TEXTS + OP_WORD_TEXTS + DUR_TEXTS:
        try:
            nodes.append(impl.real_parse_ast(f))
        except Exception:  # noqa
            pass
    uniq = list({enc(x): x for x in nodes}.items())
    common.correspond(ctx, "render", uniq, real_fn=lambda c: real_render(c[1]),
                      model_reqs=lambda c: driver.req("rtrender", c[0]),
                      nontrivial=lambda c, r: c[0].count("(") > 3, describe=lambda c: repr(c[1])[:300],
                      bucket=lambda c, r: type(c[1]).__name__)
    # the round trip itself, executed on the real code for every generated tree in the image of the parser
    bad = []
    n_image = 0
    for w, nd in uniq:
        why, txt = judge(nd, w)
        ctx.evaluations += 1
        if why is None:
            n_image += 1
            continue
        # is the tree in the image of the parser at all?  (the property quantifies over the parser's image)
        bad.append((w, nd, why, txt))
    ctx.note(f"real round trip: {n_image}/{len(uniq)} trees come back identical")
    ctx.extra["roundtrip_executed"] = len(uniq)
    findings, _ = common.load_known("C13")
    known_sigs = {f["signature"] for f in findings}
    new_bad = []
    for w, nd, why, txt in bad:
        sig = sig_of(nd, why)
        if sig in known_sigs:
            continue
        new_bad.append((w, nd, why, txt, sig))
    if new_bad:
        ctx.broken.append(f"round trip fails on the real code for {len(new_bad)} generated trees outside the listed findings; first: {new_bad[0][1]!r}: {new_bad[0][2]}")
    ctx.extra["roundtrip_failures_listed_as_known"] = len(bad) - len(new_bad)

    def search(ctx):
        found = []
        for w, nd, why, txt, sig in new_bad[:50]:
            found.append({"property": "C13", "tree": repr(nd), "wire": w, "rendered": txt, "why": why, "signature": sig,
                          "replay": "t2 = parse(AstToODataVisitor().visit(t)); assert t2 == t"})
        for (n, c, r, m) in ctx.diffs[:200]:
            why, txt = judge(c[1], c[0])
            if why and sig_of(c[1], why) not in known_sigs:
                found.append({"property": "C13", "tree": repr(c[1]), "wire": c[0], "rendered": txt, "why": why, "signature": sig_of(c[1], why)})
        ctx.extra["searched"] = "every generated tree: real render -> real parse -> equality, plus the fixpoint"
        return found

    def known_replay(f):
        nd = eval(f["input"], {"__builtins__": {}}, {k: getattr(ast, k) for k in dir(ast) if not k.startswith("__")})
        return judge(nd, enc(nd))[0] is not None

    return common.finish(
        ctx,
        rule="all trees of depth <= 1 over one representative per node kind and literal kind (exhaustive), sampled depth-2 operator pairs, random "
             "full-grammar trees to depth 7 (arbitrary string contents incl. quotes), the parsed corpus; every tree is rendered by the real printer "
             "and by the model (string equality), then re-parsed by the real parser and compared; non-trivial = more than three nodes",
        assumptions=["the generators produce trees in the image of the parser (constructed by the same shape rules as Spec.printable)"],
        trusted_extra=["Spec/RefPrinter.lean (levels of OData 4.01 §5.1.1.14)"],
        search_fn=search, known_replay_fn=known_replay)

def sig_of(nd, why):
    # identifier `not` in a position followed by a space is read back as the operator (known finding)
    import dataclasses
    def has_not_ident(n):
        if isinstance(n, ast.Identifier) and n.name.lower() == "not":
            return True
        if dataclasses.is_dataclass(n):
            for f in dataclasses.fields(n):
                v = getattr(n, f.name)
                if isinstance(v, list):
                    if any(has_not_ident(x) for x in v):
                        return True
                elif has_not_ident(v):
                    return True
        return False
    if has_not_ident(nd):
        return "C13:roundtrip.py:visit_Identifier:identifier-named-not"
    # a path segment / path root whose name is a reserved word or starts with a digit: only reachable by dropping the namespace of `ns.true`, `ns.1`
    def reserved(name):
        return name.lower() in ("true", "false", "null", "any", "all", "not") or name[:1].isdigit()
    def has_reserved_segment(n):
        if isinstance(n, ast.Attribute) and reserved(n.attr):
            return True
        if isinstance(n, ast.Attribute) and isinstance(n.owner, ast.Identifier) and not n.owner.namespace and reserved(n.owner.name):
            return True
        if dataclasses.is_dataclass(n):
            for f in dataclasses.fields(n):
                v = getattr(n, f.name)
                if isinstance(v, list):
                    if any(has_reserved_segment(x) for x in v):
                        return True
                elif dataclasses.is_dataclass(v) and has_reserved_segment(v):
                    return True
        return False
    if has_reserved_segment(nd):
        return "C13:grammar.py:property_path_expr:namespace-of-path-segment-dropped"
    return "C13:" + why.split(" ")[0] + ":" + type(nd).__name__
