"""C11 — function calls are accepted iff name and argument count match the OData table."""
import itertools
import common, driver, impl, gen_tables
from sexpr import hexs, enc

PROP_MODS = ["ODataVerif.Tie.OdataFunctions", "ODataVerif.Props.C11", "ODataVerif.Props.C05Roundtrip"]

ARGS = ["1", "'s'", "a", "a/b", "null", "(1, 2)", "x add 1", "tolower(n)", "true", "2020-01-01", "not b", "-3"]
NAMED_VALS = ["1", "'v'", "a", "x add 1", "f.h(k=2)"]

def names():
    from odata_query import grammar
    base = list(grammar.ODATA_FUNCTIONS.keys())
    out = list(base)
    for b in base:
        short = b.split(".")[-1]
        out += [short, short.upper(), short.capitalize(), "odata." + short, "Edm." + short]      # a namespaced built-in WITHOUT its namespace is another name
        out += [b.upper(), b.capitalize(), b[:-1], b + "x", "geo." + short, "Geo." + short, "my." + short, "a.b." + short, "geo.x." + short]
    out += ["foo", "f.g", "x.y.z", "geo.foo", "matchespattern", "geo.Distance", "odata.concat", "Concat"]
    # names that a Unicode normaliser (NFKC / NFKD / case folding) would turn into a built-in: one inner letter replaced by a compatibility character
    import unicodedata
    compat = {"s": "\u017f", "t": "\uff54", "a": "\u00aa", "o": "\u00ba", "e": "\u1d49", "i": "\u2071", "n": "\u207f", "h": "\u02b0", "c": "\uff43", "l": "\u02e1", "r": "\u02b3", "d": "\uff44"}
    for b in base:
        ns, _, short = b.rpartition(".")
        for i in range(1, len(short)):
            if short[i] in compat:
                v = short[:i] + compat[short[i]] + short[i + 1:]
                if unicodedata.normalize("NFKC", v) == short or unicodedata.normalize("NFKC", v).lower() == short:
                    out.append((ns + "." if ns else "") + v)
                    break
    # a namespaced built-in with its dot MANGLED into identifier characters (the spelling of a handler / attribute name): an un-namespaced name that is not in the table
    for b in base:
        if "." in b:
            ns, _, short = b.rpartition(".")
            for sepr in ("__", "_", "___", "_dot_", ""):
                out += [ns + sepr + short, (ns + sepr + short).upper(), "my." + ns + sepr + short]
            out += [short + "__" + ns, ns + "__" + short + "__", "__" + ns + "__" + short, ns + "." + ns + "__" + short, ns + "__" + ns + "." + short]
    for b in base[:6]:
        out += ["__" + b, b + "__", "_" + b, b + "_", "func_" + b, "visit_" + b, "sqlfunc_" + b, "djangofunc_" + b]
    out += ["g\u1d49o.distance","g\u1d49o.length", "g\u1d49o.nosuch", "ge\u00ba.distance"]
    return list(dict.fromkeys(out))

def gen_cases(ctx):
    cases = []
    for nm in names():
        for n in range(0, 6):
            for variant in range(2 if not ctx.thorough else 4):
                args = [ARGS[(i * 5 + variant * 3 + n) % len(ARGS)] for i in range(n)]
                sep = [", ", ",", " , "][(n + variant) % 3]
                text = nm + "(" + sep.join(args) + ")"
                cases.append(("pos", nm, tuple(args), text))
        for n in range(1, 6):
            params = [f"p{i}={NAMED_VALS[(i + n) % len(NAMED_VALS)]}" for i in range(n)]
            text = nm + "(" + ", ".join(params) + ")"
            cases.append(("named", nm, tuple(params), text))
            # names that are NOT in ascending order, and names differing in case / by namespace-like prefixes (source order must be kept)
            unsorted_names = ["unit", "radius", "Zeta", "alpha", "_x"][:n]
            params = [f"{k}={NAMED_VALS[(i + n) % len(NAMED_VALS)]}" for i, k in enumerate(unsorted_names)]
            cases.append(("named", nm, tuple(params), nm + "(" + ", ".join(params) + ")"))
        # a parameter name REPEATED in one call (first = last, adjacent, three times): every written argument counts and stays where it was written
        for params in (("s=1", "s=2"), ("p=1", "q='v'", "p=a"), ("a=1", "a=2", "a=3"), ("x=1", "y=2", "y=3", "x=4")):
            cases.append(("named", nm, tuple(params), nm + "(" + ", ".join(params) + ")"))
        # single-argument call spelled as a one-element list: f(x,)
        cases.append(("pos", nm, ("1",), nm + "(1,)"))
        # every argument kind as the only argument (a parenthesised list is ONE argument)
        for a in ARGS:
            cases.append(("pos", nm, (a,), nm + "(" + a + ")"))
            cases.append(("pos", nm, (a,), nm + "( " + a + " )"))
    from odata_query import grammar
    pair_names = list(grammar.ODATA_FUNCTIONS.keys()) + ["f.g", "geo.x.length"] if ctx.thorough else ["concat", "length", "substring", "now", "geo.distance", "f.g", "contains"]
    for nm in pair_names:
        for a, b in itertools.product(ARGS, repeat=2):
            cases.append(("pos", nm, (a, b), nm + "(" + a + ", " + b + ")"))
    # other namespaces whose segments are spelled like keywords / operators / literals (any letter case): accepted with any number of arguments
    for nm in ["null.f", "true.check", "false.x", "all.items", "any.z", "Null.f", "TRUE.g", "not.f", "in.f", "eq.ne", "and.or", "my.null.f", "ns.true", "a.any", "geo.null.f",
               "nullable.f", "anything.all", "duration.f", "geography.g", "e.e", "_.f"]:
        for n in range(0, 4):
            args = [ARGS[(i * 3 + n) % len(ARGS)] for i in range(n)]
            cases.append(("pos", nm, tuple(args), nm + "(" + ", ".join(args) + ")"))
        params = [f"p{i}={NAMED_VALS[i % len(NAMED_VALS)]}" for i in range(2)]
        cases.append(("named", nm, tuple(params), nm + "(" + ", ".join(params) + ")"))
    # mixing positional and named is a syntax error
    for nm in ["f.g", "concat"]:
        cases.append(("mixed", nm, (), nm + "(1, x=2)"))
        cases.append(("mixed", nm, (), nm + "(x=2, 1)"))
    return list(dict.fromkeys(cases))

def spec_expect(ctx, cases):
    """what the property demands, computed by the Lean specification (Spec.Builtins)"""
    reqs = []
    for kind, nm, args, text in cases:
        parts = nm.split(".")
        reqs.append(driver.req("c11spec", hexs(nm)[1:-1], "1" if tuple(parts[:-1]) in ((), ("geo",)) else "0", str(len(args))))
    return driver.run_batch(reqs)

def judge(case, real, spec):
    kind, nm, args, text = case
    if kind == "mixed":
        return None if real.startswith("lib ParsingException") else "mixed positional/named call not rejected as a syntax error"
    if spec == "accept":
        # expected: Call(func=Identifier, args in source order)
        from odata_query import ast
        try:
            exp_args = []
            for a in args:
                if kind == "named":
                    k, v = a.split("=", 1)
                    exp_args.append(ast.NamedParam(ast.Identifier(k), impl.real_parse_ast(v)))
                else:
                    exp_args.append(impl.real_parse_ast(a))
        except Exception as e:  # noqa
            return None
        *ns, name = nm.split(".")
        want = "ok " + enc(ast.Call(ast.Identifier(name, tuple(ns)), exp_args))
        return None if real == want else f"accepted call is not Call({nm}, args in source order): got {real[:200]}"
    return None if real == "lib " + spec else f"expected {spec}, real outcome {real[:200]}"

def run(ctx):
    common.build_and_audit(ctx, PROP_MODS, gen=lambda c: gen_tables.generate(["OdataFunctions"]))
    cases = gen_cases(ctx)
    ctx.exhaustive = True
    from odata_query.grammar import ODataLexer, ODataParser
    lx, ps = ODataLexer(), ODataParser()
    common.correspond(ctx, "parse-calls", cases,
                      real_fn=lambda c: impl.real_parse(c[3], lx, ps),
                      model_reqs=lambda c: driver.req("parse", hexs(c[3])[1:-1]),
                      nontrivial=lambda c, r: True,
                      describe=lambda c: c[3],
                      bucket=lambda c, r: c[0] + "/" + r.split(" ")[0] + ("/" + r.split(" ")[1] if r.startswith("lib") else ""))

    # the same acceptance rule on a parser that has just FAILED on another input: an input whose (invalid or valid) call is followed by a syntax / tokenising error
    POISON = ["doesnotexist(1) eq 1)", "now(1) eq 1)", "geo.area(x) lt 5 #", "trim() eq '", "concat(a, b) eq 'x' and )", "my.f(1) eq (", "length(a, b, c) ge", "substring(a) eq 1 and \u00bd"]
    def after_poison(c):
        p2 = ODataParser(); l2 = ODataLexer()
        try:
            p2.parse(l2.tokenize(c[4]))
        except Exception:  # noqa
            pass
        return impl.real_parse(c[3], l2, p2)
    stride = 1 if ctx.thorough else 7
    pcases = [c + (POISON[k % len(POISON)],) for k, c in enumerate(cases[::stride])]
    common.correspond(ctx, "parse-calls-after-a-failed-parse", pcases, real_fn=after_poison,
                      model_reqs=lambda c: driver.req("parse", hexs(c[3])[1:-1]),
                      nontrivial=lambda c, r: True, describe=lambda c: {"first (fails)": c[4], "then": c[3]},
                      bucket=lambda c, r: r.split(" ")[0] + ("/" + r.split(" ")[1] if r.startswith("lib") else ""))

    def search(ctx):
        found = []
        # cases that differ only after a failed parse on the same instance: replayed the same way
        pdiff = [c for (n, c, r, m) in ctx.diffs if n == "parse-calls-after-a-failed-parse"]
        if pdiff:
            for c, sp in zip(pdiff, spec_expect(ctx, [c[:4] for c in pdiff])):
                real = after_poison(c)
                why = judge(c[:4], real, sp)
                if why:
                    found.append({"property": "C11", "first_input_on_the_same_parser": c[4], "input": c[3], "real_outcome": real, "specification": sp,
                                  "why": why + " (on a parser instance that has just failed on the first input)", "signature": "C11:after-failed-parse:" + c[1] + ":" + str(len(c[2])),
                                  "replay": "p = ODataParser(); l = ODataLexer(); parse the first input (it raises), then parse the input on the same p, l"})
            if found:
                return found
        cand = [c for (_, c, r, m) in ctx.diffs if len(c) == 4] or cases
        try:
            specs = spec_expect(ctx, cand)
        except Exception as e:  # noqa
            ctx.note(f"specification driver unavailable: {e}")
            return []
        for c, sp in zip(cand, specs):
            real = impl.real_parse(c[3])
            why = judge(c, real, sp)
            if why:
                found.append({"property": "C11", "input": c[3], "real_outcome": real, "specification": sp,
                              "why": why, "signature": "C11:" + c[1] + ":" + str(len(c[2])),
                              "replay": f"ODataParser().parse(ODataLexer().tokenize({c[3]!r}))"})
        ctx.extra["searched"] = f"{len(cand)} calls judged by Spec.Builtins (Lean)"
        return found

    return common.finish(
        ctx,
        rule="every listed function name plus case/prefix/namespace near-misses x 0..5 positional and 1..5 named arguments (exhaustive "
             "enumeration; a case is distinct by its text; all are non-trivial: each exercises name lookup and the arity check)",
        assumptions=["SLY's LALR(1) construction and CPython's re are modelled (precedence-climbing parser, scanners) and tied by this correspondence run, not verified",
                     "arguments are drawn from 12 expression shapes; argument *contents* are covered by C05/C06"],
        trusted_extra=["Spec/Builtins.lean: the 33 functions and arities typed in from OData 4.01"],
        search_fn=search, known_replay_fn=None)
