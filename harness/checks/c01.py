"""C01 — the SQLite WHERE clause selects exactly the rows the OData filter denotes."""
import collections, os
import common, driver, gens, impl, gen_tables
import sqlcommon as sc, semcommon as sm
from sexpr import enc, hexs
from odata_query import ast

PROP_MODS = ["ODataVerif.Tie.Sql", "ODataVerif.Tie.SqlTemplates", "ODataVerif.Props.C01", "ODataVerif.Props.C01Chain", "ODataVerif.Props.C01Full", "ODataVerif.Spec.NumFn"] + \
            ["ODataVerif.Props.DateOrder", "ODataVerif.Props.C01Date", "ODataVerif.Props.NullFlip", "ODataVerif.Props.BoolLit"]
KF_SIG = "C01:sqlite:semOk-excluded"

def texts_of(nodes):
    """filter TEXT for each typed AST, rendered by the independent reference printer (Lean, minimal parentheses)"""
    outs = driver.run_batch([driver.req("refprint", "min", "101010", enc(n)) for n in nodes])
    return [bytes.fromhex(o).decode("utf-8", "surrogatepass") if not o.startswith(("bad", "not")) else None for o in outs]

def real_where(text):
    """the real pipeline on the filter TEXT: parse, SQLite dialect"""
    try:
        tree = impl.real_parse_ast(text)
    except Exception as e:  # noqa
        return "parse-" + impl.canon_exc(e), None
    r = sc.real_sql("sqlite", None, tree)
    return r, tree

def run(ctx):
    common.build_and_audit(ctx, PROP_MODS, gen=lambda c: gen_tables.generate(["Sql", "SqlTemplates"]))
    rng = ctx.rng
    g = sm.SemGen(rng)
    n_f = 12000 if ctx.thorough else 1500
    filters = [g.gen("bool", rng.randint(1, 6 if ctx.thorough else 5)) for _ in range(n_f)]
    # targeted shapes: right-nested arithmetic, negated numbers, literals with SQL / LIKE metacharacters in every LIKE position
    I, S, call = sc.I, sc.S, sc.call
    for a, b, c in [("i1", "i2", "3"), ("i2", "i1", "-7")]:
        for o1 in (ast.Sub, ast.Div, ast.Mod, ast.Mult, ast.Add):
            for o2 in (ast.Sub, ast.Div, ast.Mod, ast.Add):
                filters.append(ast.Compare(ast.Eq(), ast.BinOp(o1(), I(a), ast.BinOp(o2(), I(b), ast.Integer(c))), ast.Integer("1")))
                filters.append(ast.Compare(ast.Lt(), ast.BinOp(o1(), ast.BinOp(o2(), I(a), I(b)), ast.Integer(c)), ast.UnaryOp(ast.USub(), I(b))))
    for s in sm.STR_POOL:
        for fn in ("contains", "startswith", "endswith"):
            filters += [call(fn, I("s1"), S(s)), call(fn, S(s), I("s1")), call(fn, I("s1"), I("s2")),
                        ast.Compare(ast.Eq(), call(fn, I("s1"), S(s)), ast.Boolean("false")), ast.UnaryOp(ast.Not(), call(fn, I("s2"), S(s)))]
        filters += [ast.Compare(ast.Eq(), I("s1"), S(s)), ast.Compare(ast.In(), I("s1"), ast.List([S(s), S("b")])),
                    ast.Compare(ast.Ge(), call("indexof", I("s1"), S(s)), ast.Integer("0")) if hasattr(ast, "Ge") else ast.Compare(ast.GtE(), call("indexof", I("s1"), S(s)), ast.Integer("0")),
                    ast.Compare(ast.Eq(), call("concat", I("s1"), S(s)), I("s2")), ast.Compare(ast.Eq(), call("length", S(s)), call("length", I("s1")))]
    # arithmetic on two INTEGER LITERALS, every sign combination, inexact quotients (truncation toward zero vs floor; the sign of a remainder), shifted so that
    # the result falls on a value the rows hold
    for a, b in [(-7, 2), (7, -2), (-9, 2), (9, -2), (-1, 2), (1, -2), (7, 2), (-7, -2), (-7, 3), (7, -3)]:
        A, B = ast.Integer(str(a)), ast.Integer(str(b))
        for op in (ast.Mod, ast.Add, ast.Sub, ast.Mult) + (() if False else (ast.Div,)):
            for off in ("0", "1", "2", "3", "4", "5"):
                filters.append(ast.Compare(ast.Eq(), I("i1"), ast.BinOp(ast.Add(), ast.BinOp(op(), A, B), ast.Integer(off))))
            filters.append(ast.Compare(ast.Gt(), I("i1"), ast.BinOp(op(), A, B)))
            filters.append(ast.UnaryOp(ast.Not(), ast.Compare(ast.Lt(), I("i2"), ast.BinOp(op(), A, B))))
    # every spelling of the Boolean literals x eq / ne x operand kind x side (the lexer is case-insensitive; the node keeps the spelling), also inside in-lists
    for sp in ("true", "TRUE", "True", "tRuE", "false", "FALSE", "False", "fAlSe"):
        for cmpop in (ast.Eq, ast.NotEq):
            for operand in (I("b1"), call("contains", I("s1"), S("a")), ast.Compare(ast.Gt(), I("i1"), ast.Integer("0")),
                            ast.Compare(ast.In(), I("i2"), ast.List([ast.Integer("0"), ast.Integer("7")]))):
                filters.append(ast.Compare(cmpop(), operand, ast.Boolean(sp)))
                filters.append(ast.Compare(cmpop(), ast.Boolean(sp), operand))
        filters.append(ast.Compare(ast.In(), I("b1"), ast.List([ast.Boolean(sp), ast.Boolean("false")])))
        filters.append(ast.BoolOp(ast.Or(), ast.Compare(ast.Eq(), I("b1"), ast.Boolean(sp)), ast.Compare(ast.Eq(), I("i1"), ast.Integer("7"))))
    # chains of eq / in terms on ONE field joined by `or`, with a null test at every position, plain and negated (a rewrite into IN (...) loses the null test)
    def orchain(terms):
        e = terms[0]
        for t in terms[1:]:
            e = ast.BoolOp(ast.Or(), e, t)
        return e
    for col, lits in (("i1", [ast.Integer("7"), ast.Integer("-1"), ast.Integer("2")]), ("s1", [S("ab"), S(""), S("A%")])):
        eqs = [ast.Compare(ast.Eq(), I(col), l) for l in lits]
        nul = ast.Compare(ast.Eq(), I(col), ast.Null())
        for pos in range(4):
            terms = eqs[:pos] + [nul] + eqs[pos:]
            filters += [orchain(terms), orchain(terms[:2]), orchain(terms[:3]), ast.UnaryOp(ast.Not(), orchain(terms)), ast.UnaryOp(ast.Not(), orchain(terms[:2])),
                        ast.BoolOp(ast.Or(), terms[0], ast.BoolOp(ast.Or(), terms[1], ast.BoolOp(ast.Or(), terms[2], terms[3])))]
        filters += [orchain(eqs), orchain([nul, ast.Compare(ast.In(), I(col), ast.List(lits[:2]))]), orchain([ast.Compare(ast.In(), I(col), ast.List(lits[:2])), nul, eqs[2]]),
                    ast.BoolOp(ast.And(), ast.Compare(ast.NotEq(), I(col), ast.Null()), ast.Compare(ast.NotEq(), I(col), lits[0])),
                    orchain([ast.Compare(ast.Eq(), ast.Null(), I(col)), eqs[0]])]
    # the SAME unary operator applied twice (and three times) to an operand that binds more loosely than the context: not (not (a or b)) under and, -(-(a add b)) under
    # mul / as the right operand of sub (cancelling the pair is sound, splicing the operand's text without its parentheses is not)
    ors = [ast.BoolOp(ast.Or(), ast.Compare(ast.Eq(), I("i1"), ast.Integer("7")), ast.Compare(ast.Eq(), I("i2"), ast.Integer("2"))),
           ast.BoolOp(ast.Or(), ast.Compare(ast.Eq(), I("s1"), S("ab")), ast.Compare(ast.Eq(), I("i1"), ast.Null()))]
    ands = [ast.BoolOp(ast.And(), ast.Compare(ast.Gt(), I("i1"), ast.Integer("0")), ast.Compare(ast.Lt(), I("i2"), ast.Integer("3")))]
    third = ast.Compare(ast.Eq(), I("i2"), ast.Integer("-7"))
    NOT = lambda e: ast.UnaryOp(ast.Not(), e)
    NEG = lambda e: ast.UnaryOp(ast.USub(), e)
    for X in ors + ands:
        for W in (NOT(NOT(X)), NOT(NOT(NOT(X))), NOT(NOT(NOT(NOT(X))))):
            filters += [W, ast.BoolOp(ast.And(), W, third), ast.BoolOp(ast.And(), third, W), ast.BoolOp(ast.Or(), W, third), ast.BoolOp(ast.Or(), third, W),
                        ast.Compare(ast.Eq(), W, ast.Boolean("true")), NOT(ast.BoolOp(ast.And(), W, third))]
    for inner in (ast.BinOp(ast.Add(), I("i1"), I("i2")), ast.BinOp(ast.Sub(), I("i1"), ast.Integer("2")), ast.BinOp(ast.Mult(), I("i1"), I("i2"))):
        for W in (NEG(NEG(inner)), NEG(NEG(NEG(inner)))):
            for k in ("2", "-7", "0", "14"):
                filters += [ast.Compare(ast.Eq(), ast.BinOp(ast.Mult(), W, I("i2")), ast.Integer(k)), ast.Compare(ast.Eq(), ast.BinOp(ast.Sub(), I("i2"), W), ast.Integer(k)),
                            ast.Compare(ast.Eq(), ast.BinOp(ast.Mult(), I("i2"), W), ast.Integer(k)), ast.Compare(ast.Eq(), W, ast.Integer(k))]
    # in-lists of 1 001 / 1 500 / 2 500 elements whose only elements that are row values sit at the END (a backend that splits or truncates long lists)
    for n, tail in ((1001, ["7"]), (1500, ["2", "-7"]), (2500, ["3"]), (999, ["1"])):
        items = [ast.Integer(str(100000 + k)) for k in range(n - len(tail))] + [ast.Integer(t) for t in tail]
        filters.append(ast.Compare(ast.In(), I("i1"), ast.List(items)))
        filters.append(ast.UnaryOp(ast.Not(), ast.Compare(ast.In(), I("i2"), ast.List(items))))
    sitems = [S("zz%d" % k) for k in range(1100)] + [S("ab"), S("O'B")]
    filters.append(ast.Compare(ast.In(), I("s1"), ast.List(sitems)))
    # one sub-expression twice in a filter, in every pair of operand contexts (a printer that keeps state per node between two visits)
    filters += sc.repeated_subterms(z=ast.Integer("3"), r=third)
    uniq = sc.dedup(filters)
    nodes = [n for w, n in uniq]
    texts = texts_of(nodes)
    rows_sets = [sm.product_rows()] + [sm.rows_for(rng, 48) for _ in range(3 if ctx.thorough else 1)]
    # 1. correspondence of the emitted text (model vs real visitor on the parsed text)
    cases = []
    for (w, n), t in zip(uniq, texts):
        if t is None:
            continue
        r, tree = real_where(t)
        cases.append((w, n, t, r, tree))
    ctx.exhaustive = False
    common.correspond(ctx, "sqlite-text-from-filter-text", cases, real_fn=lambda c: c[3],
                      model_reqs=lambda c: sc.model_req("sqlite", None, c[0]),
                      nontrivial=lambda c, r: r.startswith("ok ") and c[0].count("(") > 3, describe=lambda c: c[2],
                      bucket=lambda c, r: "sqlite/" + r.split(" ")[0])
    # the parser must give back the tree the text was printed from (otherwise the text means something else)
    reparse_bad = [c for c in cases if c[4] is None or enc(c[4]) != c[0]]
    if reparse_bad:
        ctx.broken.append(f"{len(reparse_bad)} typed filters do not parse back to the tree they were printed from; first: {reparse_bad[0][2]!r}")
    # 2. execution: real sqlite3 on the real WHERE text vs (a) the SQLite model on the Lean-read tree (environment validation) and (b) ODataSem (the property)
    tally = collections.Counter()
    env_mis, viol, kf_hits = [], [], 0
    dist = collections.Counter()
    for rows in rows_sets:
        R = sm.enc_rows(rows)
        con = sm.sqlite_table(rows)
        reqs = []
        run_cases = [c for c in cases if c[3].startswith("ok ")]
        for c in run_cases:
            reqs.append(driver.req("odataeval", c[0], R))
            reqs.append(driver.req("sqliteeval", c[3][3:], R))
        outs = driver.run_batch(reqs)
        for i, c in enumerate(run_cases):
            spec, env = outs[2 * i], outs[2 * i + 1]
            txt = bytes.fromhex(c[3][3:]).decode("utf-8", "surrogatepass")
            try:
                ids = {x[0] for x in con.execute("SELECT id FROM t WHERE " + txt)}
            except Exception as e:  # noqa
                tally["sqlite-error"] += 1
                viol.append((c, None, f"SQLite rejected the WHERE text: {e}"))
                continue
            real = ["1" if row["id"] in ids else "0" for row in rows]
            sel = sum(1 for x in real if x == "1")
            dist["constant" if sel in (0, len(rows)) else "discriminating"] += 1
            if env == "unreadable":
                tally["env-unreadable"] += 1
                viol.append((c, None, "the WHERE text is not readable by the SQL reader"))
            else:
                for j, (a, b) in enumerate(zip(real, env.split(" "))):
                    if b == "?":
                        tally["env-outside-model"] += 1
                    elif a != b:
                        tally["ENV-MISMATCH"] += 1
                        env_mis.append((c, rows[j], a, b))
                    else:
                        tally["env-agree"] += 1
            if spec == "noelab":
                tally["outside-typed-fragment"] += 1
                continue
            for j, (a, b) in enumerate(zip(real, spec.split(" "))):
                ctx.evaluations += 1
                want = "1" if b.lstrip("x") == "T" else "0"
                if b.startswith("x"):
                    tally["excluded-by-semOk"] += 1
                    if a != want:
                        kf_hits += 1
                    continue
                if a != want:
                    tally["SPEC-MISMATCH"] += 1
                    viol.append((c, rows[j], f"SQLite {'selects' if a == '1' else 'does not select'} the row, OData semantics says {b}"))
                else:
                    tally["spec-agree"] += 1
                    if sel not in (0, len(rows)):
                        ctx.nontrivial.add(c[0])
    ctx.extra["judged"] = dict(tally)
    ctx.extra["filters_constant_vs_discriminating"] = dict(dist)
    ctx.extra["known_finding_hits"] = kf_hits
    ctx.note(f"execution: {dict(tally)}; filters constant/discriminating over a table: {dict(dist)}; rows where a known finding applies and the result differs: {kf_hits}")
    if env_mis:
        c, row, a, b = env_mis[0]
        ctx.broken.append(f"environment model Spec.SqliteSem disagrees with the real SQLite on {len(env_mis)} (text,row) pairs; first: {bytes.fromhex(c[3][3:]).decode()!r} row={row} real={a} model={b}"[:700])
    if viol:
        c, row, why = viol[0]
        ctx.broken.append(f"real SQLite result violates C01 on {len(viol)} (filter,row) pairs; first: {c[2]!r} row={row}: {why}"[:700])

    # 3. numeric stream: floor / ceiling / round over a fractional column, judged against Spec.NumFn (Lean)
    nrows = sm.numeric_rows()
    ncon = sm.sqlite_table(nrows)
    def sqlite_ids(t):
        r, tree = real_where(t)
        if not r.startswith("ok "):
            return r
        try:
            return {x[0] for x in ncon.execute("SELECT id FROM t WHERE " + bytes.fromhex(r[3:]).decode())}
        except Exception as e:  # noqa
            return f"sqlite-error {e}"
    kf_round = lambda fn, r: fn == "round" and r["_q"] is not None and r["_q"] <= -2   # exactly the cells of Spec.kf_trunc_shift_wrong     # KNOWN FINDING C01-sqlite-round-negative
    nviol, ntally = sm.judge_numeric(ctx, sqlite_ids, nrows, kf=kf_round)
    ctx.extra["judged_numeric"] = dict(ntally)
    ctx.note(f"numeric stream (floor / ceiling / round x 6 comparisons x 7 constants on {len(nrows)} rows, Spec.NumFn): {dict(ntally)}")
    if nviol:
        ctx.broken.append(f"real SQLite result violates C01 on {len(nviol)} (filter,row) pairs of the numeric stream; first: {nviol[0][0]!r} row={nviol[0][1]}: {nviol[0][2]}"[:700])

    # 4. date stream: Edm.Date comparisons / membership / year month day hour minute second, judged against Spec.DateSem (Lean)
    drows = sm.date_rows()
    dcon = sm.sqlite_table(drows)
    def sqlite_ids_d(t):
        r, tree = real_where(t)
        if not r.startswith("ok "):
            return r
        try:
            return {x[0] for x in dcon.execute("SELECT id FROM t WHERE " + bytes.fromhex(r[3:]).decode())}
        except Exception as e:  # noqa
            return f"sqlite-error {e}"
    dviol, dtally = sm.judge_dates(ctx, sqlite_ids_d, drows, skip=lambda t, got: str(got).startswith("lib UnsupportedFunctionException"))
    ctx.extra["judged_dates"] = dict(dtally)
    ctx.note(f"date stream (6 comparisons x 8 date literals on both sides, in-lists, year / month / day / hour / minute / second x comparisons, {len(drows)} rows incl. years 0001 / 0999 / 9999 and NULL, Spec.DateSem): {dict(dtally)}")
    if dviol:
        ctx.broken.append(f"real SQLite result violates C01 on {len(dviol)} (filter,row) pairs of the date stream; first: {dviol[0][0]!r} row={dviol[0][1]}: {dviol[0][2]}"[:700])
    nviol = nviol + dviol
    # 5. the date fragment as a typed grammar (Spec.DateF): toExpr tie, the property (evalDF), and the SQLite date model (sqlEvalD)
    frows = sm.datef_rows()
    fcon = sm.sqlite_table(frows)
    FR = sm.enc_date_rows(frows)
    dfs = list(dict.fromkeys(sm.gen_datef(rng, rng.randint(0, 3)) for _ in range(1500 if ctx.thorough else 300)))
    ftally = collections.Counter()
    wheres = []
    for w, t in dfs:
        r, tree = real_where(t)
        wheres.append((w, t, r, tree))
    exprs = driver.run_batch([driver.req("datefexpr", w) for w, t, r, tree in wheres])
    evals = driver.run_batch([driver.req("datefeval", w, FR) for w, t, r, tree in wheres])
    envs = driver.run_batch([driver.req("sqlitedate", r[3:], FR) if r.startswith("ok ") else driver.req("ping") for w, t, r, tree in wheres])
    ctx.corr_names.append("date-fragment")
    for (w, t, r, tree), ex, ev, en in zip(wheres, exprs, evals, envs):
        ctx.evaluations += 1
        if tree is None or enc(tree) != ex:
            ftally["TOEXPR-DIFF"] += 1
            ctx.diffs.append(("date-fragment-toExpr", t, enc(tree) if tree is not None else r, ex)); continue
        if not r.startswith("ok "):
            ftally["REFUSED"] += 1
            nviol.append((t, None, f"the SQLite dialect refuses a filter of the date fragment: {r[:80]}")); continue
        try:
            ids = {x[0] for x in fcon.execute("SELECT id FROM t WHERE " + bytes.fromhex(r[3:]).decode())}
        except Exception as e:  # noqa
            nviol.append((t, None, f"SQLite rejected the WHERE text: {e}")); continue
        sel = 0
        for row, spec, env in zip(frows, ev.split(" "), en.split(" ") if en != "unreadable" else ["?"] * len(frows)):
            a = "1" if row["id"] in ids else "0"
            if env == "?":
                ftally["env-outside-model"] += 1
            elif env != a:
                ftally["ENV-MISMATCH"] += 1
                ctx.diffs.append(("date-fragment-env", (t, str(row["d1"])), a, env))
            else:
                ftally["env-agree"] += 1
            if spec.startswith("x"):
                ftally["excluded"] += 1; continue
            if a != ("1" if spec == "T" else "0"):
                ftally["SPEC-MISMATCH"] += 1
                nviol.append((t, {"id": row["id"], "d1": str(row["d1"])}, f"SQLite {'selects' if a == '1' else 'does not select'} the row, OData semantics (Spec.evalDF) says {spec}"))
            else:
                ftally["spec-agree"] += 1; sel += int(a)
        if 0 < sel < len(frows):
            ctx.nontrivial.add("datef:" + t)
    ctx.extra["judged_date_fragment"] = dict(ftally)
    ctx.note(f"date fragment (Spec.DateF, {len(dfs)} filters of depth <= 3 x {len(frows)} rows): {dict(ftally)}")
    nd = ftally["TOEXPR-DIFF"] + ftally["ENV-MISMATCH"]
    if nd:
        d0 = [d for d in ctx.diffs if d[0].startswith("date-fragment")][0]
        ctx.broken.append(f"correspondence date-fragment: {nd} differences; first: {d0[0]} {d0[1]!r} real {str(d0[2])[:80]} model {str(d0[3])[:80]}")
    if any(v[0] in {t for w, t in dfs} for v in nviol):
        v0 = [v for v in nviol if v[0] in {t for w, t in dfs}][0]
        ctx.broken.append(f"real SQLite result violates C01 on the date fragment; first: {v0[0]!r} row={v0[1]}: {v0[2]}"[:700])

    def search(ctx):
        found = []
        for t, row, why in nviol[:20]:
            found.append({"property": "C01", "filter": t, "row": row, "why": why, "signature": "C01:sqlite:stream:" + t.split("(")[0].split(" ")[0],
                          "replay": "parse(filter) -> AstToSqliteSqlVisitor().visit -> SELECT id FROM t WHERE <text> on the row (f1 REAL); compare with Spec.numFnHolds (Lean, `numfn`)"})
        for c, row, why in viol[:40]:
            found.append({"property": "C01", "filter": c[2], "tree": repr(c[1]), "where": bytes.fromhex(c[3][3:]).decode("utf-8", "replace") if c[3].startswith("ok ") else c[3],
                          "row": row, "why": why, "signature": "C01:sqlite:" + why.split(" ")[0] + ":" + type(c[1]).__name__,
                          "replay": "parse(filter) -> AstToSqliteSqlVisitor().visit -> SELECT id FROM t WHERE <text> on the row; compare with Spec.evalB (Lean, `odataeval`)"})
        if not found:
            for (nme, c, r, m) in ctx.diffs[:100]:
                if not r.startswith("ok "):
                    found.append({"property": "C01", "filter": c[2], "real_outcome": r, "why": "the SQLite dialect refuses a filter of the typed fragment",
                                  "signature": "C01:sqlite:refused:" + r.split(" ")[1] if " " in r else "C01:sqlite:refused"})
        ctx.extra["searched"] = "every generated filter text x every row: real parser + real SQLite dialect + sqlite3 execution vs Spec.evalB"
        return found

    def known_replay(f):
        import sqlite3
        if f.get("stream") == "numeric":
            return ntally.get("under-known-finding", 0) > 0
        rows = [{"id": 1, "i1": None, "i2": None, "s1": f.get("cell", "ABC"), "s2": f.get("cell2"), "b1": None}]
        con = sm.sqlite_table(rows)
        r, tree = real_where(f["source_text"])
        if not r.startswith("ok "):
            return False
        ids = {x[0] for x in con.execute("SELECT id FROM t WHERE " + bytes.fromhex(r[3:]).decode())}
        spec = driver.run_batch([driver.req("odataeval", enc(tree), sm.enc_rows(rows))])[0]
        return (1 in ids) != (spec.lstrip("x") == "T")

    return common.finish(
        ctx,
        rule="seeded filters of the typed scalar grammar (depth <= 5-6; ints, strings, Booleans; arithmetic incl. right-nested and negated, comparisons, in-lists, null tests, "
             "and/or/not, Boolean functions compared with true/false, length/indexof/substring/concat/tolower/toupper/trim/contains/startswith/endswith) rendered to TEXT by the "
             "independent reference printer, parsed by the real parser, translated by the real SQLite dialect and executed by sqlite3 on an exhaustive 432-row product table and "
             "random tables over the adversarial value domain; result compared row by row with Spec.evalB and with Spec.SqliteSem on the re-read text; "
             "non-trivial = the filter discriminates between rows of the table and agrees with the specification",
        assumptions=["rows inside Spec.semOkB (negative substring positions, NUL, wrong storage class excluded; the two LIKE known findings excluded and reported)",
                     "64-bit overflow and floating point are outside the model; dates are not yet in the semantic fragment"],
        trusted_extra=["Spec/ODataSem.lean (reference semantics with the profile decisions of DESIGN §4)", "Spec/SqliteSem.lean (environment model of SQLite, validated against sqlite3 on every run)",
                       "Spec/RefPrinter.lean (filter text from the typed AST)"],
        search_fn=search, known_replay_fn=known_replay)
