"""C14 — alias rewriting is exact substitution on field references only."""
import os
import copy
import common, driver, gens_ast, gens, impl
from sexpr import enc
from odata_query import ast
from odata_query.rewrite import AliasRewriter
from odata_query.grammar import ODataLexer, ODataParser

PROP_MODS = ["ODataVerif.Props.C14", "ODataVerif.Props.C14Bij"]
MAPS = [
    {},
    {"zz": "qq"},
    {"a": "author", "b": "x/y"},
    {"a/b": "ab", "a": "alpha"},
    {"a": "b", "b/c": "d"},
    {"date": "created_at", "time": "tm", "year": "yr", "length": "len"},
    {"x": "y", "t": "tags", "t/name": "tn"},
    {"name": "tolower(nm)", "x/a": "concat(first, last)"},
    {"a": "u1", "b": "u2", "c": "u3", "x": "u4", "t": "u5", "name": "u6", "date": "u7"},
    {"x/a/b": "deep", "x/a": "mid", "k1": "ns.kk"},
    {"a": "a", "c": "(c)"},
    {"p": "q", "p0": "q0"},
    # identity entries are not no-ops: an identity alias on a path is the maximal match and pins it against an alias on its owner prefix
    {"a": "alpha", "a/b": "a/b"},
    {"x": "y", "x/a": "x/a", "x/a/b": "q", "t": "t", "name": "name"},
    {"a/b/c": "a/b/c", "a/b": "ab", "a": "a"},
    # keys whose first segment carries a namespace (two of them spell built-in functions), alone, as path roots and as owner prefixes
    {"geo.length": "gl", "geo.distance": "gd/x", "author.info": "ai", "author.info/name": "ain", "self.t": "st", "a": "ns.a", "ns.b/c": "b"},
    {"ns.a": "a", "a": "ns.a", "ns.a/b": "ns.a/b", "x.y.z": "xyz", "x.y.z/a": "x.y.w/a"},
    # targets that are CALLS of the functions the filters apply to the alias (tolower(name) with name -> tolower(nm) is tolower(tolower(nm)): the filter's own call stays)
    {"name": "tolower(nm)", "date": "date(created)", "a": "trim(a2)", "x/a": "round(v)", "b": "floor(b2)", "c": "toupper(c2)", "t": "time(ts)", "year": "year(d)", "length": "length(s)",
     "time": "ceiling(tm)", "p": "not q", "k1": "-k2"},
]
CALL_FILTERS = ["tolower(name) eq 'bob'", "date(date) eq 2020-01-01", "trim(a) eq 'x'", "round(x/a) eq 1", "floor(b) eq 1", "toupper(c) eq 'X'", "time(t) eq 12:00:00", "year(year) eq 1",
                "length(length) eq 1", "ceiling(time) eq 2", "tolower(tolower(name)) eq 'x'", "concat(name, name) eq 'x'", "tolower(toupper(name)) eq tolower(name)", "not (trim(a) eq a)",
                "not p", "not (not p)", "-k1 eq 1", "-(-k1) eq k1", "trim(trim(trim(a))) eq 'x'", "tolower(name) in (tolower(name), name)", "c/any(z: tolower(name) eq toupper(c))",
                "round(round(x/a)) eq floor(floor(b))", "f.g(n=tolower(name), m=name) eq 1", "tolower(x/a) eq 'q' and round(name) eq 1"]
NS_FILTERS = ["geo.length eq 1", "geo.length/a eq geo.distance", "author.info/name eq 'x' and author.info eq 1", "author.info/name/first eq author.info/other",
              "author.info/any(x: x/a eq author.info/name)", "self.t/any()", "self.t/all(t: t/name eq self.t)", "k.f(q=author.info, p=geo.length) eq geo.length(a)", "k.f(author.info, geo.length) eq 1",
              "geo.length in (geo.distance, author.info/name, 1)", "ns.a eq a and ns.a/b eq ns.b/c", "not (ns.b/c/d gt -geo.length)", "x.y.z eq x.y.z/a and x.y.z/a/b eq y.z",
              "c/any(ns.a: ns.a/b eq a)", "ns.a/b/any(a: a eq ns.a)", "geo.distance(geo.distance, geo.length) eq 1", "length eq geo.length and distance eq other.length"]

def table(m):
    lx, ps = ODataLexer(), ODataParser()
    flat = []
    for k, v in m.items():
        flat.append(ps.parse(lx.tokenize(k))); flat.append(ps.parse(lx.tokenize(v)))
    return "[" + " ".join(enc(x) for x in flat) + "]"

def real_alias(m, node):
    before = enc(node)
    try:
        r = enc(AliasRewriter(m).visit(node))
    except Exception as e:  # noqa
        return "raise:" + type(e).__name__
    if enc(node) != before:
        return "mutated-input " + r
    return r

def run(ctx):
    common.build_and_audit(ctx, PROP_MODS)
    rng = ctx.rng
    g = gens_ast.AstGen(rng, names=["a", "b", "c", "x", "t", "name", "date", "time", "year", "length", "k1", "p"])
    nodes = [g.gen(rng.randint(0, 4)) for _ in range(5000 if ctx.thorough else 1000)]
    for f in gens.VALID_FILTERS + ["date(date) eq 2020-01-01", "f.g(x=x, a=a/b)", "c/any(t: t eq 1 and t/name eq a)", "year(a) eq length(name)",
                                   "a/b/c eq a/b and a eq b/c", "b in (a, a/b, 'a')", "x/kids/any(x: x/a eq a) and x/a eq 1",
                                   "c/all(t: t/kids/any(k1: k1/t eq t/name))", "time(time) eq 12:00:00"]:
        try:
            nodes.append(impl.real_parse_ast(f))
        except Exception:  # noqa
            pass
    # binder shapes: a nested lambda re-binding the SAME variable, with references to the outer variable before and after it; sibling
    # lambdas; a free occurrence of the variable's name after the lambda; keys rooted at the variable's name — tried with EVERY map
    targeted = []
    for f in ["c/any(x: x/t/any(x: x/name eq 'a') and x/a gt 5)", "c/any(x: x/t/any(x: x/name eq 'a') and x eq 5)", "c/all(t: t/k1/any(t: t eq 1) or t/name eq 'b')",
              "c/any(a: a/b/any(a: a/b eq 1) and a/b eq 2 and a eq b)", "c/any(a: c/any(b: b eq a) and a eq 1) and a eq 2",
              "c/any(x: c/any(t: c/any(x: x eq t) and x eq t)) and x/a eq t", "c/any(x: x eq 1) and c/any(x: x/a eq 1) and x/a eq 2",
              "c/any(x: x/a eq 1 and x/t/all(x: x/a eq 2) and x/a eq 3 and x/a/b eq 4)", "x/a eq 0 and c/any(x: x/a eq 1) and x/a eq 2",
              "c/any(name: name/x/any(date: date eq name) and date eq name)", "p/any(p: p/p/any(p: p/p eq p) and p/p eq p) and p/p eq p"]:
        try:
            targeted.append(impl.real_parse_ast(f))
        except Exception:  # noqa
            pass
    for f in NS_FILTERS + CALL_FILTERS:
        targeted.append(impl.real_parse_ast(f))
    nodes += targeted
    targeted_keys = {enc(x) for x in targeted}
    uniq = list({enc(x): x for x in nodes}.items())
    tabs = [(m, table(m)) for m in MAPS]
    cases = [(i, w, nd) for (w, nd) in uniq for i in (range(len(MAPS)) if (ctx.thorough or w in targeted_keys) else [common.stable_hash(w) % len(MAPS), (common.stable_hash(w) // 13) % len(MAPS), 8])]
    cases = list({(c[0], c[1]): c for c in cases}.values())
    common.correspond(ctx, "alias-rewrite", cases, real_fn=lambda c: real_alias(MAPS[c[0]], copy.deepcopy(c[2])),
                      model_reqs=lambda c: driver.req("alias", tabs[c[0]][1], c[1]),
                      nontrivial=lambda c, r: r != c[1], describe=lambda c: (MAPS[c[0]], repr(c[2])[:300]),
                      bucket=lambda c, r: f"map{c[0]}:" + ("changed" if r != c[1] else "identity"))
    # fresh-name bijection followed by its inverse restores the original (identifier renaming)
    def bij(c):
        names = ["a", "b", "c", "x", "t", "name", "date", "time", "year", "length", "k1", "p"]
        fwd = {n: "fresh_" + str(i) for i, n in enumerate(names)}
        inv = {v: k for k, v in fwd.items()}
        try:
            r1 = AliasRewriter(fwd).visit(copy.deepcopy(c[1]))
            r2 = AliasRewriter(inv).visit(r1)
        except Exception as e:  # noqa
            return "raise:" + type(e).__name__
        return enc(r2)
    def no_lambda_var_clash(nd):
        # the inverse map only restores names that were renamed: trees whose lambda variables shadow a renamed
        # name are restored too (shadowed in both directions); everything is in scope
        return True
    common.correspond(ctx, "bijection-roundtrip", [(w, nd) for (w, nd) in uniq if no_lambda_var_clash(nd)], real_fn=bij,
                      model_reqs=lambda c: driver.req("ping"), model_parse=None, nontrivial=lambda c, r: True,
                      describe=lambda c: repr(c[1])[:300]) if False else None
    bj = [(w, nd) for (w, nd) in uniq]
    import driver as _d
    outs = [bij(c) for c in bj]
    ctx.evaluations += len(bj)
    bad = [(c, o) for c, o in zip(bj, outs) if o != c[0]]
    ctx.note(f"bijection then inverse: {len(bj)} trees, {len(bad)} not restored")
    if bad:
        ctx.broken.append(f"correspondence bijection-roundtrip: {len(bad)} trees not restored; first {bad[0][0][1]!r}")
        ctx.diffs += [("bijection-roundtrip", c, o, c[0]) for c, o in bad]

    # FIRST USE in a process: what a rewriter does with a node kind must not depend on which SHAPE of that kind the process met first (a lambda-less any() before
    # a lambda, a call without arguments before one with, an empty list before a full one ...): each sequence runs in a process of its own
    import subprocess, json, sys
    FIRST_USE = [({"a": "author/name"}, ["tags/any() and comments/any(c: c/by eq a)"]), ({"a": "author/name"}, ["x/any()", "comments/any(c: c/by eq a)", "c/all(t: t/a eq a)"]),
                 ({"a": "author/name"}, ["comments/any(c: c/by eq a)", "x/any() and a eq 1"]), ({"a": "z", "d": "created"}, ["now() eq d", "concat(a, 'x') eq a and f.g(a) eq 1"]),
                 ({"a": "z"}, ["f.g() eq 1", "f.g(a) eq 1", "f.g(p=a) eq 1"]), ({"a": "z"}, ["b in (1,)", "b in (a, 2)", "(a, b) eq (b, a)"]),
                 ({"a": "z"}, ["1 eq 2", "a eq 1", "not a", "-a lt a"]), ({"x": "y"}, ["x/any()", "k/any(x: x eq 1) and x eq 2", "x/all(t: t eq x)"])]
    PROG = r"""
import sys, json
sys.path.insert(0, sys.argv[1])
from sexpr import enc
from odata_query.grammar import ODataLexer, ODataParser
from odata_query.rewrite import AliasRewriter
m, fs = json.loads(sys.stdin.read())
out = []
rw = AliasRewriter(m)
for f in fs:
    t = ODataParser().parse(ODataLexer().tokenize(f))
    try:
        out.append(enc(rw.visit(t)))
    except Exception as e:
        out.append("raise:" + type(e).__name__)
print(json.dumps(out))
"""
    fu_bad = []
    for m, fs in FIRST_USE:
        p = subprocess.run([sys.executable, "-c", PROG, common.HERE], input=json.dumps([m, fs]).encode(), stdout=subprocess.PIPE, stderr=subprocess.PIPE, timeout=120,
                           env=dict(os.environ, PYTHONPATH=os.environ.get("ODATA_QUERY_REPO", "/repo")))
        try:
            got = json.loads(p.stdout.decode().strip().split("\n")[-1])
        except Exception:  # noqa
            fu_bad.append((m, fs, "<process failed: " + p.stderr.decode()[-200:] + ">", "")); continue
        want = driver.run_batch([driver.req("alias", table(m), enc(impl.real_parse_ast(f))) for f in fs])
        ctx.evaluations += len(fs)
        for f, g_, w_ in zip(fs, got, want):
            if g_ != w_:
                fu_bad.append((m, fs, f, g_[:400]))
    ctx.note(f"first use in a fresh process: {len(FIRST_USE)} sequences, {len(fu_bad)} rewrites differ from the substitution")
    if fu_bad:
        ctx.broken.append(f"in a fresh process the rewriter's result depends on what it rewrote first: alias map {fu_bad[0][0]} sequence {fu_bad[0][1]}: {fu_bad[0][2]!r}"[:600])

    def search(ctx):
        found = []
        for m, fs, f, g_ in fu_bad[:10]:
            found.append({"property": "C14", "alias_map": m, "sequence_in_a_fresh_process": fs, "filter": f, "real_result": g_, "why": "in a fresh process, after the earlier filters of the sequence, "
                          "the rewrite of this filter is not the substitution", "signature": "C14:first-use", "replay": "fresh interpreter: rw = AliasRewriter(map); rw.visit(parse(f)) for f in the sequence"})
        if found:
            return found
        alias_c = [c for (n, c, r, m) in ctx.diffs if n == "alias-rewrite"]
        if alias_c or not ctx.diffs:
            cand = alias_c or cases
            specs = driver.run_batch([driver.req("subst", tabs[c[0]][1], c[1]) for c in cand])
            for c, sp in zip(cand, specs):
                r = real_alias(MAPS[c[0]], copy.deepcopy(c[2]))
                if r != sp:
                    found.append({"property": "C14", "alias_map": MAPS[c[0]], "expression": repr(c[2]), "real_result": r[:1500], "specified": sp[:1500],
                                  "why": "AliasRewriter differs from substitution on field references", "signature": f"C14:map{c[0]}:" + type(c[2]).__name__,
                                  "replay": "AliasRewriter(<alias_map>).visit(<expression>)"})
        for (n, c, r, m) in ctx.diffs:
            if n == "bijection-roundtrip":
                found.append({"property": "C14", "expression": repr(c[1]), "after_bijection_and_inverse": r[:1500],
                              "why": "rewriting with a fresh-name bijection followed by its inverse does not restore the original", "signature": "C14:bijection"})
        ctx.extra["searched"] = "differing (map, expression) pairs judged by Spec.Subst (Lean); bijection round trips"
        return found

    return common.finish(
        ctx,
        rule="random ASTs of depth 0..4 + parsed corpus + 11 binder shapes (nested lambdas re-binding the same variable with references to the outer one after the inner lambda, sibling lambdas, free "
             "occurrences after a lambda) x 15 alias maps (incl. identity entries on paths next to aliases on their owner prefixes) (keys: identifiers, paths, overlapping path/owner keys, built-in function "
             "names, named-parameter names, lambda variables; targets: identifiers, paths, calls); input deep-copied and compared after the call; "
             "fresh-name bijection then inverse; non-trivial = the rewritten tree differs from the input",
        assumptions=["alias keys/targets are parsed by the real parser before being handed to the model (the parser is C05's)",
                     "non-mutation of the input object is a runtime fact checked here"],
        trusted_extra=["Spec/Subst.lean (substitution on field references with binders)"],
        search_fn=search, known_replay_fn=None)
