import json, sys
pid, wt, out, extra = sys.argv[1], sys.argv[2], sys.argv[3], (sys.argv[4] if len(sys.argv) > 4 else "")
import os
p = next(q for q in (json.loads(l) for l in open(os.path.join(os.path.dirname(os.path.abspath(__file__)), "..", "properties.jsonl")) if l.strip()) if q.get("id") == pid)
print(f"""You are helping to evaluate a verification effort for the open-source Python library gorilla-co/odata-query (an OData v4 $filter parser that transpiles to SQL dialects, Django Q objects and SQLAlchemy clauses). Your task: produce ONE realistic code change ("seeded defect") to the library that BREAKS the semantic property given below, while the library still imports and its existing test-suite still passes — and a small demonstration program that fails with your change and passes without it.

## Your workspace
- A private git worktree of the library at `{wt}` (this is the ONLY copy you may modify; do not touch /repo, /verif or any other directory except `{out}` for your outputs and scratch files under /tmp/scratch-{pid}-*).
- Python: `/venv/bin/python` (3.12, with Django 6, SQLAlchemy 2, sly installed). IMPORTANT: the `odata_query` package is installed in editable mode from another directory, so ALWAYS run with `PYTHONPATH={wt}` so that your modified copy is the one imported, e.g. `cd {wt} && PYTHONPATH={wt} /venv/bin/python demo.py`.
- The existing test-suite: `cd {wt} && PYTHONPATH={wt} /venv/bin/python -m pytest -q -p no:cacheprovider --no-cov --continue-on-collection-errors` — on the unmodified tree the last line is `648 passed, 10 xfailed, 4 errors` (the 4 collection errors are Django test modules that need a settings module; that is the expected baseline). With your change the last line must be exactly the same counts.
- No network.

## The property your change must break
id: {p['id']}
title: {p['title']}
statement: {p['statement']}
quantifier: {p['quantifier']['text']}
code the property is anchored in: {', '.join(p['anchors']['files'])}
observation point: {'; '.join(p['anchors'].get('observe_at', []))}

## What kind of change
- It must look like something a developer could plausibly commit (an optimisation, a refactor, a 'simplification', a cache, a new special case, a clean-up) — not sabotage with an obvious marker. Keep it small (typically 5–40 changed lines).
- It must need something SPECIFIC to manifest: a particular unusual input, a multi-step sequence of operations in one process, two cooperating code sites that each look fine alone, particular data (e.g. NULLs, empty collections, metacharacters), or a particular configuration — NOT something ordinary use or the existing tests would expose at once.
- It must break THIS property (as stated above), observably through the library's public API at the observation point.
{extra}

## Deliverables (write them into `{out}/`)
1. `patch.diff` — output of `git -C {wt} diff` for your change (must apply cleanly to the unmodified worktree with `git apply`).
2. `demo.py` — a self-contained program (standard library + the installed packages; it may create in-memory SQLite databases, configure Django in-process with `settings.configure(...)`, define SQLAlchemy models, etc.) that exits 0 on the unmodified tree and exits non-zero (with a short explanation printed) on the modified tree. It is run as `cd <tree> && PYTHONPATH=<tree> /venv/bin/python demo.py` from the root of the tree. It must be deterministic.
3. `meta.json` — an object with keys: `property` (the id), `summary` (what you changed and why it breaks the property), `needs_to_manifest` (the specific input / sequence / data / configuration needed), `files_changed` (list), `ran` (the commands you ran and their outcomes).
Then VERIFY all of it yourself: (a) demo passes on the clean tree (use `git -C {wt} checkout -- .` to get back to the clean tree, then re-apply your patch with `git apply`), (b) suite counts unchanged with the patch, (c) demo fails with the patch. Do NOT use `git stash` (the stash is shared between all worktrees of the repository and other people work in parallel); use `git checkout -- .` and `git apply`. Leave the worktree CLEAN (`git -C {wt} checkout -- .`, no untracked files) when you are done. Report a short summary of the change and the verification results.""")
