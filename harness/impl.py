"""Thin adapters that call the real odata_query code in-process and canonicalise its outcome the
same way Wire.lean does for the model."""
import sys, os
from odata_query import ast, exceptions as ex
from odata_query.grammar import ODataLexer, ODataParser
from sexpr import enc, hexs

class _Missing:
    """stands for a field the exception object does not carry (the exception classes document their fields; a missing one must show up
    as a difference, not crash the harness)"""
    def __init__(self, name):
        self.name = name
    def __repr__(self):
        return f"<no-attribute-{self.name}>"
    __str__ = __repr__
    def __bool__(self):
        return False
    def __getattr__(self, k):
        return _Missing(self.name + "." + k)

def _fld(e, name):
    return getattr(e, name) if hasattr(e, name) else _Missing(name)

def canon_exc(e, text=None, tokstarts=None):
    if isinstance(e, ex.TokenizingException):
        return f"lib TokenizingException {_fld(e, 'token').index}"
    if isinstance(e, ex.ParsingException):
        if not hasattr(e, "eof") or not hasattr(e, "token"):
            return f"lib ParsingException {_fld(e, 'eof')} {_fld(e, 'token')}"
        if e.eof or e.token is None:
            return "lib ParsingException eof"
        idx = e.token.index
        if tokstarts is not None:
            idx = tokstarts.index(idx) if idx in tokstarts else f"?{idx}"
        return f"lib ParsingException {idx}"
    if isinstance(e, ex.UnknownFunctionException):
        return f"lib UnknownFunctionException {hexs(str(_fld(e, 'function_name')))}"
    if isinstance(e, ex.ArgumentCountException):
        return f"lib ArgumentCountException {hexs(str(_fld(e, 'function_name')))} {_fld(e, 'exp_min_args')} {_fld(e, 'exp_max_args')} {_fld(e, 'n_args_given')}"
    if isinstance(e, ex.UnsupportedFunctionException):
        return f"lib UnsupportedFunctionException {hexs(str(_fld(e, 'function_name')))}"
    if isinstance(e, ex.ArgumentTypeException):
        return f"lib ArgumentTypeException {hexs(str(_fld(e, 'function_name') or ''))}"
    if isinstance(e, ex.TypeException):
        return f"lib TypeException {hexs(str(_fld(e, 'operation')))}"
    if isinstance(e, ex.ValueException):
        return "lib ValueException"
    if isinstance(e, ex.InvalidFieldException):
        return f"lib InvalidFieldException {hexs(str(_fld(e, 'field_name')))}"
    if isinstance(e, ex.ODataException):
        return f"lib {type(e).__name__}"
    if isinstance(e, NotImplementedError):
        return "notimpl"
    return f"foreign {type(e).__name__}"

def token_starts(text):
    """start offsets of the tokens the real lexer produces before its first error"""
    starts = []
    try:
        for t in ODataLexer().tokenize(text):
            starts.append(t.index)
    except Exception:
        pass
    return starts

def real_parse(text, lexer=None, parser=None):
    """-> canonical outcome string of ODataParser().parse(ODataLexer().tokenize(text))"""
    lexer = lexer or ODataLexer()
    parser = parser or ODataParser()
    try:
        r = parser.parse(lexer.tokenize(text))
    except Exception as e:  # noqa
        return canon_exc(e, text, token_starts(text))
    if not isinstance(r, ast._Node):
        return f"nonnode {type(r).__name__}"
    return "ok " + enc(r)

def real_parse_ast(text):
    return ODataParser().parse(ODataLexer().tokenize(text))

def tokname(t):
    v = t.value
    if isinstance(v, ast.Identifier):
        return f"(ident {enc(v)})"
    if isinstance(v, ast.Null):
        return f'(lit Null "")'
    if isinstance(v, ast._Literal):
        return f"(lit {type(v).__name__} {hexs(v.val)})"
    if isinstance(v, ast._Node):
        return type(v).__name__
    if t.type == "WS":
        return "WS"
    return t.type

def real_lex(text):
    out = []
    try:
        for t in ODataLexer().tokenize(text):
            out.append(tokname(t))
    except ex.TokenizingException as e:
        return f"err {_fld(e, 'token').index} " + " ".join(out)
    except Exception as e:  # noqa
        return f"foreign {type(e).__name__} " + " ".join(out)
    return "ok " + " ".join(out)
