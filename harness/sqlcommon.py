"""Shared pieces of the raw-SQL checks (C07 C09 C12 C01): adapters for the three real visitors, case
enumerations, and the request format of the model driver."""
import itertools
from odata_query import ast
from odata_query.sql import AstToSqlVisitor, AstToSqliteSqlVisitor, AstToAthenaSqlVisitor
import impl, gens_typed, gens_ast, gens, driver
from sexpr import enc, hexs, unhex

DIALECTS = {"std": AstToSqlVisitor, "sqlite": AstToSqliteSqlVisitor, "athena": AstToAthenaSqlVisitor}
ALIASES = [None, "t", "u"]

def real_sql(dialect, alias, node):
    """canonical outcome of Visitor(table_alias=alias).visit(node)"""
    try:
        r = DIALECTS[dialect](table_alias=alias).visit(node)
    except Exception as e:  # noqa
        return impl.canon_exc(e)
    if not isinstance(r, str):
        return "nonstr " + type(r).__name__
    return "ok " + r.encode("utf-8", "surrogatepass").hex()

def real_sql_text(dialect, alias, node):
    return DIALECTS[dialect](table_alias=alias).visit(node)

def model_req(dialect, alias, wire):
    return driver.req("sql", dialect, "-" if alias is None else hexs(alias)[1:-1], wire)

def alias_arg(alias):
    return "-" if alias is None else hexs(alias)[1:-1]

HOSTILE = ["'", "''", "x' OR 1=1 --", "--", "/*", "*/", ";", "\\", "\\'", "\x00", "’", "＇", "%", "_", "a%b_c\\d",
           "'; DROP TABLE t; --", "\"", "x\"y", "\n", "é", "", "a", "%'", "_' OR '1'='1", "\\%", "''''",
           # contents that BEGIN like a literal of another kind (a translator that re-types or pattern-matches string contents must not let the rest out)
           "2020-01-01' OR 1=1 --", "2020-01-01", "12:00:00' --", "2020-01-01T10:00:00Z' OR '1'='1", "01234567-89ab-cdef-0123-456789abcdef' --",
           "P1D' OR 1=1 --", "1' OR '1'='1", "1.5e3'--", "true' OR 1=1 --", "null' --", "-1) OR (1=1",
           # contents that look like the placeholders of a template / parameter style (a second substitution pass must not find them)
           "$1", "$2", "$3 $2 $1", "{0}", "{1}{0}", "{}", "%s", "%(a)s", "\\1", "\\g<1>", ":param_1", "?", "@p1", "${x}", "#{x}",
           # contents that spell the keywords / operators the dialects themselves emit, with the blanks around them (a rewrite of already-rendered text finds them)
           " LIKE ", " NOT LIKE ", " AND ", " OR ", " NOT ", " IN (", " IS NULL", " IS NOT NULL", " ESCAPE '\\'", " = ", " || ", "LIKE", " like ", ") OR (", " BETWEEN ", "CAST(", " AS "]

I = gens_typed.I
call = gens_typed.call

def S(s): return ast.String(s)

def string_positions(s):
    """one filter per syntactic position a string literal may occupy (typed grammar), content `s`"""
    L = S(s)
    out = [
        ast.Compare(ast.Eq(), I("s1"), L), ast.Compare(ast.NotEq(), L, I("s1")), ast.Compare(ast.Lt(), I("s1"), L),
        ast.Compare(ast.In(), I("s1"), ast.List([L])), ast.Compare(ast.In(), I("s1"), ast.List([S("a"), L, S("b")])),
        ast.Compare(ast.In(), L, ast.List([I("s1"), I("s2")])),
        call("contains", I("s1"), L), call("contains", L, I("s1")), call("startswith", I("s1"), L), call("startswith", L, I("s2")),
        call("endswith", I("s1"), L), call("endswith", L, I("s2")),
        ast.Compare(ast.Eq(), call("contains", I("s1"), L), ast.Boolean("true")),
        ast.UnaryOp(ast.Not(), call("endswith", I("s1"), L)),
        ast.Compare(ast.Eq(), call("concat", I("s1"), L), S("z")), ast.Compare(ast.Eq(), call("concat", L, I("s1")), S("z")),
        ast.Compare(ast.Eq(), call("concat", call("concat", L, L), L), L),
        ast.Compare(ast.Gt(), call("indexof", I("s1"), L), ast.Integer("0")), ast.Compare(ast.Gt(), call("indexof", L, I("s1")), ast.Integer("0")),
        ast.Compare(ast.Eq(), call("length", L), ast.Integer("3")),
        ast.Compare(ast.Eq(), call("substring", L, ast.Integer("1")), S("b")), ast.Compare(ast.Eq(), call("substring", I("s1"), ast.Integer("1"), ast.Integer("2")), L),
        ast.Compare(ast.Eq(), call("tolower", L), I("s1")), ast.Compare(ast.Eq(), call("toupper", L), L), ast.Compare(ast.Eq(), call("trim", L), I("s1")),
        call("contains", call("tolower", I("s1")), call("tolower", L)), call("contains", I("s1"), call("concat", L, I("s2"))),
        call("startswith", call("concat", L, L), call("substring", L, ast.Integer("0"))),
        ast.BoolOp(ast.And(), call("contains", I("s1"), L), ast.Compare(ast.Eq(), I("s2"), L)),
        ast.BoolOp(ast.Or(), ast.Compare(ast.Eq(), I("s2"), L), ast.UnaryOp(ast.Not(), call("startswith", I("s1"), L))),
        ast.Compare(ast.Eq(), I("s1"), ast.Null()) if False else ast.Compare(ast.Eq(), call("length", call("concat", L, I("s1"))), ast.Integer("1")),
        call("hassubset", I("c1"), ast.List([L, S("b")])), call("hassubset", ast.List([L]), I("c1")),
        ast.Compare(ast.Eq(), call("length", ast.List([L, L])), ast.Integer("2")),
        # long lists of strings (15 / 16 / 17 / 40 / 300 elements) holding the content once, first / in the middle / last
        ast.Compare(ast.In(), I("s1"), ast.List([S("a%d" % k) for k in range(14)] + [L])), ast.Compare(ast.In(), I("s1"), ast.List([L] + [S("a%d" % k) for k in range(15)])),
        ast.Compare(ast.In(), I("s1"), ast.List([S("a%d" % k) for k in range(8)] + [L] + [S("b%d" % k) for k in range(8)])),
        ast.Compare(ast.In(), I("s1"), ast.List([S("a%d" % k) for k in range(39)] + [L])), ast.Compare(ast.In(), I("s1"), ast.List([S("a%d" % k) for k in range(150)] + [L] + [S("b%d" % k) for k in range(149)])),
        ast.UnaryOp(ast.Not(), ast.Compare(ast.In(), I("s2"), ast.List([L] * 16))),
        # two string literals in one call, the hostile one first / second / both (templates filled argument by argument)
        ast.Compare(ast.Ge(), call("indexof", L, S(", 1) >= 0 OR 1=1 --")), ast.Integer("0")) if hasattr(ast, "Ge") else ast.Compare(ast.GtE(), call("indexof", L, S(", 1) >= 0 OR 1=1 --")), ast.Integer("0")),
        ast.Compare(ast.Eq(), call("substring", L, ast.Integer("1"), ast.Integer("2")), S("$1")), ast.Compare(ast.Eq(), call("indexof", call("concat", L, I("s1")), S("$1 $2")), ast.Integer("0")),
        ast.Compare(ast.Eq(), call("concat", S("$2"), L), S("$1")), call("contains", call("tolower", L), S("$2")),
        # opposite an operand of ANOTHER kind (accepted by the parser; a backend may refuse, or coerce — the content must stay inside one literal)
        ast.Compare(ast.Eq(), call("date", I("dt1")), L), ast.Compare(ast.GtE(), L, call("date", I("dt1"))), ast.Compare(ast.Eq(), I("d1"), L),
        ast.Compare(ast.In(), call("date", I("dt1")), ast.List([L, S("x")])), ast.Compare(ast.In(), I("d1"), ast.List([ast.Date("2020-01-01"), L])),
        ast.Compare(ast.Eq(), call("year", I("d1")), L), ast.Compare(ast.Gt(), I("dt1"), L), ast.Compare(ast.Eq(), call("time", I("dt1")), L),
        ast.Compare(ast.Eq(), I("i1"), L), ast.Compare(ast.Lt(), I("f1"), L), ast.Compare(ast.Eq(), I("b1"), L), ast.Compare(ast.Eq(), I("g1"), L),
        ast.Compare(ast.Eq(), ast.BinOp(ast.Add(), L, ast.Integer("1")), I("i1")), ast.Compare(ast.Gt(), call("now"), L),
        ast.Compare(ast.Eq(), ast.Date("2020-01-01"), L), ast.Compare(ast.Eq(), ast.Duration("P1D"), L), ast.Compare(ast.NotEq(), ast.Null(), L),
        # under `not`, with the content in the FIRST argument of the pattern functions (directly and nested in concat / tolower), and in negated comparisons / memberships
        ast.UnaryOp(ast.Not(), call("startswith", call("concat", I("s1"), L), S("a"))), ast.UnaryOp(ast.Not(), call("contains", call("concat", L, I("s1")), S("adm"))),
        ast.UnaryOp(ast.Not(), call("endswith", L, I("s2"))), ast.UnaryOp(ast.Not(), call("contains", call("tolower", L), S("a"))), ast.UnaryOp(ast.Not(), call("contains", L, L)),
        ast.UnaryOp(ast.Not(), ast.Compare(ast.Eq(), I("s1"), L)), ast.UnaryOp(ast.Not(), ast.Compare(ast.In(), I("s1"), ast.List([L, S("b")]))),
        ast.UnaryOp(ast.Not(), ast.Compare(ast.Eq(), call("concat", L, I("s1")), L)), ast.UnaryOp(ast.Not(), ast.UnaryOp(ast.Not(), call("startswith", call("concat", L, L), S("a")))),
        ast.UnaryOp(ast.Not(), ast.BoolOp(ast.And(), call("contains", call("concat", I("s1"), L), S("a")), ast.Compare(ast.Eq(), I("s2"), L))),
    ]
    return out

def operator_nestings():
    """every operator applied to every operator (pairs, both operand positions) and left/right triples over
    the precedence classes — exhaustive over the parenthesisation decision table of the SQL printers"""
    a, b, c = I("i1"), I("i2"), I("b1")
    def mk(kind, l, r):
        if kind in ("add", "sub", "mul", "div", "mod"):
            return ast.BinOp({"add": ast.Add, "sub": ast.Sub, "mul": ast.Mult, "div": ast.Div, "mod": ast.Mod}[kind](), l, r)
        if kind in ("eq", "ne", "lt", "le", "gt", "ge"):
            return ast.Compare({"eq": ast.Eq, "ne": ast.NotEq, "lt": ast.Lt, "le": ast.LtE, "gt": ast.Gt, "ge": ast.GtE}[kind](), l, r)
        if kind == "in":
            return ast.Compare(ast.In(), l, ast.List([r, ast.Integer("5")]))
        if kind == "isnull":
            return ast.Compare(ast.Eq(), l, ast.Null())
        if kind == "notnull":
            return ast.Compare(ast.NotEq(), l, ast.Null())
        if kind in ("and", "or"):
            return ast.BoolOp({"and": ast.And, "or": ast.Or}[kind](), l, r)
        if kind == "not":
            return ast.UnaryOp(ast.Not(), l)
        if kind == "neg":
            return ast.UnaryOp(ast.USub(), l)
        if kind in ("concat", "indexof", "contains", "startswith", "endswith"):
            return call(kind, l, r)
        if kind in ("length", "tolower", "trim", "year", "round"):
            return call(kind, l)
        if kind == "substring":
            return call("substring", l, r)
        raise KeyError(kind)
    kinds = ["add", "sub", "mul", "div", "mod", "eq", "ne", "lt", "ge", "in", "isnull", "notnull", "and", "or", "not", "neg",
             "concat", "indexof", "contains", "startswith", "endswith", "length", "tolower", "substring", "round"]
    out = []
    for k1 in kinds:
        out.append(mk(k1, a, b))
        for k2 in kinds:
            inner = mk(k2, a, b)
            out.append(mk(k1, inner, c))
            out.append(mk(k1, c, inner))
            out.append(mk(k1, inner, mk(k2, b, a)))
    return out

def operator_triples(rng, n):
    kinds = ["add", "sub", "mul", "mod", "eq", "lt", "in", "isnull", "and", "or", "not", "neg", "concat", "indexof", "contains", "length"]
    out = []
    a, b, c, d = I("i1"), I("i2"), I("b1"), I("s1")
    import sqlcommon
    return out

LEAVES = [I("i1"), I("s1"), ast.Identifier("x", ("ns",)), ast.Attribute(I("a"), "b"), ast.Null(), ast.Integer("1"), ast.Integer("-1"), ast.Integer("+3"),
          ast.Float("1.5"), ast.Float("2.5E-2"), ast.Boolean("true"), ast.Boolean("FALSE"), S("it's"), S(""), S("100%"), ast.Geography("POINT(1 2)"),
          ast.Date("2020-01-01"), ast.Time("12:00:00"), ast.DateTime("2020-01-01T10:00:00Z"), ast.Duration("P1D"), ast.Duration("-P1Y2M3DT4H5M6.5S"),
          ast.Duration("PT0S"), ast.Duration("P"), ast.Duration("+PT1M"), ast.GUID("01234567-89ab-cdef-0123-456789abcdef"),
          ast.List([ast.Integer("1"), ast.Integer("2")]), ast.List([S("a")]), ast.List([]),
          ast.Call(I("now"), []), ast.CollectionLambda(I("k"), ast.Any(), None),
          ast.CollectionLambda(I("k"), ast.All(), ast.Lambda(I("t"), ast.Compare(ast.Eq(), ast.Attribute(I("t"), "x"), ast.Integer("1")))),
          ast.Call(ast.Identifier("f", ("ns",)), [ast.NamedParam(I("p"), ast.Integer("1"))]),
          ast.Compare(ast.Eq(), I("i1"), ast.Integer("1")), ast.BoolOp(ast.And(), I("b1"), I("b2")), ast.BinOp(ast.Add(), I("i1"), I("i2")),
          ast.UnaryOp(ast.USub(), I("i1")), ast.UnaryOp(ast.Not(), I("b1")), call("concat", I("s1"), I("s2")), call("indexof", I("s1"), I("s2")),
          call("contains", I("s1"), S("x")), call("length", I("s1")), call("tolower", I("s1"))]

def all_function_names():
    from odata_query import grammar
    return [str(k) for k in grammar.ODATA_FUNCTIONS.keys()]

def node_kind_matrix():
    """every node kind (LEAVES) in every operand position of every parent kind, and every built-in function
    with arguments of every kind — the finite matrix C12 quantifies over"""
    from odata_query import grammar
    out = []
    for x in LEAVES:
        out.append(x)
        out += [ast.UnaryOp(ast.Not(), x), ast.UnaryOp(ast.USub(), x), ast.List([x]), ast.List([I("i1"), x]),
                ast.BinOp(ast.Add(), x, I("i1")), ast.BinOp(ast.Mult(), I("i1"), x), ast.Compare(ast.Eq(), x, I("i1")), ast.Compare(ast.Lt(), I("i1"), x),
                ast.Compare(ast.Eq(), x, ast.Null()), ast.Compare(ast.In(), x, ast.List([ast.Integer("1")])), ast.Compare(ast.In(), I("i1"), ast.List([x])),
                ast.BoolOp(ast.And(), x, I("b1")), ast.BoolOp(ast.Or(), I("b1"), x)]
    for name, ar in grammar.ODATA_FUNCTIONS.items():
        lo, hi = (ar, ar) if isinstance(ar, int) else ar
        *ns, nm = name.split(".")
        fid = ast.Identifier(nm, tuple(ns))
        for n in range(lo, hi + 1):
            if n == 0:
                out.append(ast.Call(fid, []))
                continue
            for x in LEAVES:
                for pos in range(n):
                    args = [I("s1")] * n
                    args[pos] = x
                    out.append(ast.Call(fid, list(args)))
                    if n > 1:
                        # the other arguments TYPED (a call that returns a string, a string literal): a bare field is of unknown type and takes other paths
                        for filler in (call("tolower", I("s1")), S("a")):
                            args = [filler] * n
                            args[pos] = x
                            out.append(ast.Call(fid, list(args)))
            out.append(ast.Call(fid, [S("a")] * n))
            out.append(ast.Call(fid, [ast.Integer("1")] * n))
    # namespaced look-alikes of built-ins (never validated by the parser)
    for nm in ["length", "concat", "contains", "now", "trim", "substring"]:
        for n in range(0, 4):
            out.append(ast.Call(ast.Identifier(nm, ("my",)), [I("s1")] * n))
            out.append(ast.Call(ast.Identifier(nm.upper(), ()), [I("s1")] * n))
    return out

def dedup(nodes):
    return list({enc(n): n for n in nodes}.items())


def repeated_subterms(z=None, r=None):
    """one sub-expression occurring TWICE in a filter, in every pair of operand contexts (parent operator x side), so that the two
    occurrences need different parenthesisation — state a printer keeps per node between the two visits shows here and nowhere else"""
    ar = [ast.Add, ast.Sub, ast.Mult, ast.Div, ast.Mod]
    out = []
    z = z if z is not None else I("i3")
    subs = [ast.BinOp(o(), I("i1"), I("i2")) for o in ar] + [ast.UnaryOp(ast.USub(), I("i1"))]
    for s in subs:
        for o1 in ar:
            for o2 in ar:
                for l1 in (True, False):
                    for l2 in (True, False):
                        A = ast.BinOp(o1(), s, z) if l1 else ast.BinOp(o1(), z, s)
                        B = ast.BinOp(o2(), s, z) if l2 else ast.BinOp(o2(), z, s)
                        out.append(ast.Compare(ast.Lt(), A, B))
        out.append(ast.Compare(ast.Lt(), s, ast.BinOp(ast.Mult(), s, z)))
    cmp = lambda a, b: ast.Compare(ast.Eq(), I(a), ast.Integer(b))
    p, q, r = cmp("i1", "1"), cmp("i2", "2"), (r if r is not None else cmp("i3", "3"))
    bsubs = [ast.BoolOp(ast.Or(), p, q), ast.BoolOp(ast.And(), p, q), ast.UnaryOp(ast.Not(), p), p, I("b1")]
    bctx = [lambda s: ast.BoolOp(ast.And(), s, r), lambda s: ast.BoolOp(ast.And(), r, s), lambda s: ast.BoolOp(ast.Or(), s, r),
            lambda s: ast.BoolOp(ast.Or(), r, s), lambda s: ast.UnaryOp(ast.Not(), s), lambda s: ast.Compare(ast.Eq(), s, ast.Boolean("true")),
            lambda s: ast.Compare(ast.NotEq(), ast.Boolean("false"), s), lambda s: s]
    for s in bsubs:
        for c1 in bctx:
            for c2 in bctx:
                for top in (ast.And, ast.Or):
                    out.append(ast.BoolOp(top(), c1(s), c2(s)))
    return out
