"""Writes MANIFEST.json from the table below (kept in one place so it is always valid)."""
import json, os
HERE = os.path.dirname(os.path.abspath(__file__))
VERIF = os.path.dirname(HERE)

CHECKS = {
 "C11": dict(
   text="Lean 4 theorems over the executable model of `_function_call` and the call productions: acceptance is exactly membership of "
        "the OData 4.01 table with the count in range (accept_iff), exact exception payloads (unknown_payload, argcount_payload), any "
        "arity in other namespaces; the function table is re-extracted from /repo on every run and tied to the model by `decide`; the "
        "parser model is run against the real parser on every (name x arity) pair, incl. near-miss names (case, mangled / missing namespace, Unicode compatibility letters), named "
        "parameters in and out of order and with REPEATED names, and on a parser instance that has just failed.",
   note="Trusted: Lean kernel; axioms propext/Classical.choice/Quot.sound; Spec/Builtins.lean typed in from OData 4.01; T-gen/T-corr harness. "
        "Modelled, not verified: SLY's LALR construction and CPython's re (tied by exhaustive differential run over names x arities).",
   design="§6 C11", technique="Lean 4 proof over hand-written model + generated-table tie theorem (decide) + exhaustive differential correspondence"),
 "C18": dict(
   text="Lean 4 theorem `C18.sound`: for every expression of the typed grammar (reference type synthesiser Spec.typeOf written from the OData "
        "signatures) whatever the model of infer_type answers is the expression's actual type - by structural recursion over all "
        "expressions, with the return-type table checked row by row against the 49-row OData signature table by the kernel; consequences "
        "typecheck_accepts_welltyped / typecheck_rejects_bad_literal. The return-type table is re-extracted by probing the real "
        "infer_return_type on every run (tie theorem), and infer_type/typecheck are run against the model on every built-in x every argument kind.",
   note="Trusted: Lean kernel; standard axioms; Spec/Types.lean (OData signatures, typed in); T-gen probing + T-corr harness. "
        "args[i] beyond a call's argument list (IndexError) is outside the model - the parser guarantees arities.",
   design="§6 C18", technique="Lean 4 proof (structural recursion, finite table by decide) + probed-table tie theorem + differential correspondence"),
 "C14": dict(
   text="Lean 4 refinement theorem `C14.rewrite_eq_subst`: for every alias table and every tree of the parser's shape, the model of "
        "AliasRewriter (identifier / path lookup with owner recursion, function names and parameter names kept, lambda variables shadowing "
        "aliases rooted at them) equals substitution on field references under a binder environment (Spec.Subst); corollaries empty_id, "
        "nonmatching_id (no key occurs => identity). Model run against the real rewriter on random full-grammar ASTs x 12 alias maps "
        "(overlapping path/owner keys, built-in function names, named-parameter names, lambda variables), input compared before/after, "
        "fresh-name bijection + inverse executed. Props/C14Bij.lean: `bijection_roundtrip` - for every tree of the parser's shape and every renaming of field names to names that do not "
        "occur in it, alias(inverse)(alias(forward) t) = t (lambda variables, function names and parameter names among the renamed names included).",
   note="Trusted: Lean kernel, standard axioms, Spec/Subst.lean, harness. Non-mutation of the Python input object and the bijection round trip are "
        "checked by execution (partial: not theorems). The real rewriter was repaired first (fix: 84f2034: function names, parameter names, lambda variables).",
   design="§6 C14", technique="Lean 4 refinement proof (mutual structural recursion over the uniform AST) + differential correspondence"),
 "C16": dict(
   text="Lean 4 theorems over the model of NodeVisitor/NodeTransformer on the uniform dataclass tree: the trace of visit calls is the "
        "document-order list of all nodes (preorder, each_once, dispatch), a transformer without overrides is the identity (transform_id, "
        "for every tree), an override for one kind changes exactly the nodes of that kind (transform_override, both handler styles), "
        "override_absent_kind; wf_toTree shows every typed AST has the assumed shape. Instrumented subclasses of the real base classes are "
        "run against the model on random full-grammar trees; == and non-mutation (every shipped visitor on a deep copy) are checked by execution; one instance of each visitor kind reused "
        "after 1 / 30 / 300+ traversals aborted by an exception from a handler must handle legal trees as a fresh instance does.",
   note="Trusted: Lean kernel, standard axioms, Spec/Traversal.lean, harness. Partial: non-mutation of Python objects, list aliasing and `==` are "
        "runtime facts - covered by the correspondence run only.",
   design="§6 C16", technique="Lean 4 proof (mutual structural recursion) + instrumented differential correspondence + runtime before/after comparison"),
 "C17": dict(
   text="Lean 4 theorem `C17.strip_eq_reroot`: for every variable and every well-shaped tree the model of IdentifierStripper equals "
        "re-rooting on the (root, segments) view of paths (Spec.Reroot), proved by recursion along owner chains; absent_id; "
        "strip_eq_reroot_expr for every typed AST and identifier; Props/C17Path: `rooted_at_variable` (a path x/s/rest of ANY depth comes back with root s and the "
        "remaining segments unchanged and in order) and `rooted_elsewhere` (a path with any other root is returned unchanged). Model run against expression_relative_to_identifier on paths of "
        "depth 1..4 in every operand context x 7 variable names (plain field, inner segment, namespaced); the correspondence is repeated on trees an application has already USED "
        "(every computed attribute of every node read - py_val, full_name -, the tree hashed, printed, compared, traversed).",
   note="Trusted: Lean kernel, standard axioms, Spec/Reroot.lean, harness.",
   design="§6 C17", technique="Lean 4 proof (structural recursion along paths) + differential correspondence"),
 "C05": dict(
   text="Lean 4: the executable precedence-climbing model of the SLY parser is run against the real parser on the reference renderings "
        "(minimal and full parenthesisation, 5 optional-whitespace styles) of every operator single / pair / triple arrangement and random "
        "full-grammar trees, where the renderings come from an independent reference printer written in Lean from OData 4.01 §5.1.1.14; "
        "theorems tie the model's levels to the extracted yacc declaration and to the specification's table; the token-level round-trip "
        "theorem parse_printToks (every printable tree, both renderings, every whitespace style) is in Props/C05Roundtrip.lean; Props/C05Text.lean lifts it to TEXT "
        "(text_grouping: the minimally and the fully parenthesised text of any tree parse to the same tree; text_parens_win), via the character-level theorem C13.parse_text; "
        "Props/Accepted.lean `grouping_accepted`: the same for the tree ANY accepted ASCII filter text parses to (hypotheses discharged by C10.parse_image and C13A.accepted_lexable).",
   note="Trusted: Lean kernel, standard axioms, Spec/RefPrinter.lean, harness. Modelled, not verified: SLY's LALR(1) construction and driver, CPython's re "
        "(tied by the tie theorems on the extracted rules/productions/precedence and by the differential run incl. exhaustive token sequences in C10).",
   design="§6 C05", technique="Lean 4 proof over hand-written parser model + generated-table tie theorems + differential correspondence on reference renderings"),
 "C13": dict(
   text="Lean 4: string-exact model of AstToODataVisitor; theorems show its precedence table is an order-embedding of the specification's levels "
        "(level_prec) and that it parenthesises wherever the reference printer's minimal rule requires (paren_where_needed_*), for every "
        "operand of every operator; printer table tied to roundtrip.PRECEDENCE by decide; model compared with the real printer by string "
        "equality on exhaustive small trees and random trees; the round trip render->parse->equal and the fixpoint are executed on the real "
        "code for every generated tree. Props/C13Text.lean (3 700 lines with its lemma files): `roundtrip_text` - for every printable tree whose identifier / literal tokens lex to themselves "
        "also next to a blank (lexableE', decidable), the CHARACTERS the printer model emits are lexed and parsed back to that tree (parse_text: for every whitespace style and parenthesisation "
        "mode). The weaker condition first stated is refuted in Lean (parse_text_original_false: an identifier named like an operator keyword) - that is the known finding (identifier `not`). "
        "Props/C13Accepted.lean (3 300 lines): the property's own quantifier, 'every AST the parser can produce' - `roundtrip_accepted`: for EVERY accepted ASCII text s, if parseText s = ok e "
        "(and no identifier of e is spelled like an operator keyword or is a reserved word left over from a dropped namespace) then parseText (rtRender e) = ok e, and `render_fixpoint`; from "
        "`lexed_lexable` (lexer idempotence on every emitted literal / identifier token), a provenance invariant of the parser (`accepted_lexable`) and C10.parse_image. The first statement was "
        "refuted by `x/a.true eq 1` (accepted_lexable_original_false) - reproduced on the real code: second known finding.",
   note="Trusted: Lean kernel, standard axioms, harness. lexableE' excludes exactly the keyword-named identifiers of the known finding; kwFree excludes exactly the reserved words left by a dropped namespace (lexable_kwFree: it is necessary). Known findings: identifier `not`; namespace of a path segment dropped (x/a.true). Five printer defects were repaired first (fix: 6e13462 b3ff485 5b649a4 51169b6).",
   design="§6 C13", technique="Lean 4 proof (order-embedding of precedence tables, paren soundness) + tie theorem + string-exact differential correspondence + executed round trip"),
 "C10": dict(
   text="Lean 4 theorem `C10.total`: for EVERY string and every character-class environment, the lexer+parser model returns an AST or one of the "
        "four library errors (tokenizing, parsing, unknown function, argument count) - built from lex_progress (every rule consumes a character), "
        "lex_fuel_irrelevant, parse_no_fuel (the recursion budget 4n+8 is never exhausted), parse_no_foreign (grammar actions never take an "
        "AttributeError/IndexError/NotImplementedError path) and lib_hierarchy (extracted class tree: all four descend from ODataException); "
        "`C10.parse_image` (Props/C10Image.lean): every tree the parser returns is in Spec.printable (non-empty lists, `in` has a list, paths hang off identifiers, lambda owners are paths, "
        "built-in calls have an admissible argument count) - which discharges the hypotheses of the round-trip theorems (C05 C13 C19) and of C12.sql_never_leaks for every accepted filter. "
        "The model is run against the real lexer+parser on all atom sequences up to length 3-4, mutated filters, random Unicode, and long "
        "repetitive inputs under a per-case time budget; outcomes compared exactly (class, position, payload); 500-3000 random full-grammar trees rendered by the reference printer and their "
        "mutations; keywords respelled with Unicode case twins; determinism: the corpus is first parsed in other letter cases, and after the whole run each corpus filter must give what it gives in a "
        "process of its own.",
   note="Trusted: Lean kernel, standard axioms, harness. Partial: termination / memory of the real LR driver and of CPython's regex engine are runtime facts (20 s per-case budget, "
        "inputs up to 20-60 k characters); SLY's LALR construction and re are modelled. Three parser defects were repaired first (fix: 24b763b 1659103 dc4172f).",
   design="§6 C10", technique="Lean 4 proof (totality: fuel sufficiency + action type-safety by induction on fuel) + tie theorems + exhaustive/seeded differential correspondence"),
 "C06": dict(
   text="Lean 4: character-level scanner model of all 31 lexer rules (first match in declaration order, re.I, CPython's Unicode classes from brute-forced "
        "tables) + model of py_val (int, bool, str, date, time, datetime, guid, duration in exact microseconds), run against the real lexer/parser and "
        "py_val on per-kind ABNF spellings with field boundaries, all duration sign/part combinations, arbitrary string contents, 45 identifiers "
        "(keyword-prefixed, 128/129 characters, namespaces) in several contexts, and all strings of <= 3 atoms over a boundary alphabet; lexer rules "
        "tied to grammar.py by tie theorems; Props/C06Image.lean: lexOne_shape / lexAll_shape (every token the lexer emits on ASCII input carries a payload of the shape its rule guarantees: numeric text, "
        "Boolean spelling, quote-free date / time / GUID, a duration that unpacks, identifiers without double quotes) and accepted_litOk (hence every ACCEPTED ASCII filter satisfies the literal side "
        "conditions of the SQL theorems). Props/C06Value.lean (with Spec/LitSpell.lean: the well-formed spellings of the ABNF as functions of the MEANING): for EVERY meaning the spelling has "
        "exactly that value in the py_val model - int_value (any width / leading zeros / sign), date_value, date_no_value, time_value, datetime_value (optional seconds, fraction, naive / Z / "
        "offset), duration_value (every sign / part combination, 365.25-day year and 30.44-day month in microseconds), guid_value, bool_value, string_value (quotes un-doubled exactly), "
        "ident_namespaces - and, followed by anything that may follow a literal, is ONE token of exactly that kind carrying that text: int_kind decimal_kind bool_kind null_kind date_kind time_kind "
        "datetime_kind_anycase duration_kind guid_kind geography_kind string_kind ident_kind (keyword-prefixed identifiers included): every literal kind the property lists. Spec/LitSpell is tied to reality on every run: random meanings are spelled by Lean, compared "
        "with the check's own formatting, and lexed / parsed / evaluated / judged on the real code. The property itself is judged on the real code on every run from what the generator knows by construction (kind, .val, py_val), incl. boundary years 0001 / 0999.",
   note="Trusted: Lean kernel, standard axioms, Spec/LitSpell.lean (validated each run), harness; the meaning of each spelling is known to the generator by construction. Modelled, not verified: CPython re, "
        "datetime.fromisoformat, dateutil.isoparse, float(); Duration.py_val in IEEE doubles is modelled exactly (valid for small components). fix: a34c246 (keyword prefixes), b8a3ae1 (years below 1000). Known finding: years outside 0001-9999 (no Python value).",
   design="§6 C06", technique="Lean 4 scanner model + per-token lemmas + tie theorems on the extracted rules + exhaustive short-string differential correspondence"),
 "C19": dict(
   text="Lean 4: `layout_invariant` - for EVERY printable tree any two placements of optional whitespace and either parenthesisation parse to the "
        "same tree (from parse_printToks, which quantifies over all styles); bool_value_case. CHARACTER level (Props/C19Text.lean, Spec/Respell.lean, 3 900 lines): `parse_respell` - for every "
        "printable tree e (identifier / literal tokens that lex to themselves next to a blank), every style and mode, and EVERY text s that spells the printed tokens with any non-empty run of "
        "whitespace characters (the lexer's full \\s class) wherever a blank stands and any ASCII letter case of every operator / literal keyword (eq AND Not NULL True in any all, the duration and "
        "geography prefixes and designators, T / Z, the exponent e), parseText s = ok e' with e' = e up to the letter case of Boolean / Float spellings (the two literal kinds that keep the text as "
        "written); `lex_respell` / `lex_respell_ins` are the token-level forms. Executed: every accepted filter x whitespace "
        "re-layouts (10 kinds of runs, BWS insertion) x keyword case masks is parsed by model and real parser (exact agreement) and judged on the real "
        "code by normalised-AST equality and by equality of all six backends' outputs. Props/Accepted.lean `respell_accepted`: parse_respell for the tree ANY accepted ASCII filter text "
        "parses to (hypotheses discharged by C10.parse_image and C13A.accepted_lexable).",
   note="Trusted: Lean kernel, standard axioms, Spec/Respell.lean (what counts as a re-spelling), harness. Backend equality of the two spellings is executed, not proved (it follows from AST equality "
        "except for the Boolean / Float spellings, whose value-level invariance is bool_value_case + the executed comparison). Non-ASCII case twins (dotless i, long s, Kelvin) also match under re.I: outside the property, exercised by C10. fix: 7c0cf2f (TRUE on SQLAlchemy), 531c925 (lower-case t/z).",
   design="§6 C19", technique="Lean 4 proof (style-generic round trip; character-level lexing under arbitrary whitespace runs and keyword case: every scanner commutes with a letter-case change, parser commutes with normalisation) + differential correspondence on re-spelled filters + executed backend comparison"),
 "C20": dict(
   text="Lean 4 theorems about the instance state machine of sly's lexer and parser (Model/Instances.lean): interleave_indep - in ANY schedule of two "
        "tokenizers on one lexer instance each yields exactly the steps it yields alone; history_independent - after ANY history of parse calls "
        "(including ones that raised) a probe gives what a fresh parser gives, because parse() resets every field the driver reads before reading "
        "it (reset_clean; the driver started on a dirty instance would misbehave in the model). Executed: random histories on shared / partly "
        "shared / new instances vs the model's parse and vs a process that never parsed anything, interleaved tokenizers, AliasRewriter with "
        "used instances, probe digests under 5-10 PYTHONHASHSEED values and three import orders; every failing text parsed two and three times on one lexer / one parser / both "
        "(tokenising errors directly after a complete expression); long runs of one kind of failing input; every built-in called with 0-4 arguments.",
   note="Trusted: Lean kernel, standard axioms, harness. Partial: hash seed, import order, class-level / module-level state and SLY's table construction are runtime facts, "
        "covered by execution only; the LR driver is abstracted to 'runs from the reset configuration'.",
   design="§6 C20", technique="Lean 4 proof (induction over schedules / histories of an explicit instance state machine) + differential histories + fresh-process reference + subprocess digests"),
 "C07": dict(
   text="Lean 4 theorem `C07.lex_pieces`: for every dialect, alias and filter whose literal texts have the lexer's shapes, the characters the model of the three "
        "SQL visitors emits are read back by an independent SQL tokeniser (Mealy machine written from the SQL lexical rules; rejects comments, ';', stray "
        "characters, unterminated literals) as exactly the tokens of the emitted pieces - every filter string inside ONE string-literal token, every field inside "
        "ONE quoted identifier, whatever they contain (str_token_any_content, like_literal_one_token, qid_token_any_name; 1400 lines of character-level "
        "lemmas, mutual induction over the AST and a case analysis of every function template). `noninterference` (Props/C07Shape.lean when present): filters "
        "with the same skeleton emit pieces of identical shape. The model's text is compared character by character with the three real visitors on every "
        "syntactic position of a string literal x 26 hostile contents x dialect x alias; the REAL text is then tokenised by the Lean tokeniser and its token "
        "shape compared with the same filter holding a benign content; field spellings likewise. Props/Accepted.lean `injection_free_accepted`: the same for every ASCII text the parser accepts (litOk discharged by the lexer's image).",
   note="Trusted: Lean kernel, standard axioms, Spec/SqlLex.lean (the independent tokeniser), harness. Hypothesis litOk (number / date / GUID texts, names without '\"') is PROVED for every "
        "accepted ASCII filter text (C06.accepted_litOk, Props/C06Image.lean); Tie.SqlTemplates ties every function template of the model to the f-strings of the source class. One known finding (the ESCAPE clause appears only for literals containing a wildcard) has Lean "
        "witnesses. fix: 329d7a6 (quotes in LIKE patterns), fae5465, a628179. The table alias is caller-supplied and trusted.",
   design="§6 C07", technique="Lean 4 proof (character-level lexing of the emitted text by induction over the AST + template case analysis) + tie theorems on the handler matrix + exhaustive differential correspondence + independent tokenisation of the real output"),
 "C09": dict(
   text="Lean 4: string-exact model of the three SQL visitors as function templates + precedence-driven parenthesisation; an independent SQL expression parser "
        "(standard precedence; comparison chains and ||/arithmetic mixes rejected because the dialects disagree on them) and the expected tree Spec.mirror (per-dialect "
        "spelling of every OData built-in, typed in from the SQL documentation). Theorems: alias_only_fields (rendering with alias a IS rendering without alias with every "
        "column piece qualified - every dialect, every filter, including raising ones), parse_mirror (Props/C09Parse.lean when present: the emitted tokens parse to "
        "Spec.mirror for every sqlSafe filter). Executed on every run: exact text vs the model for every operator x operator nesting in both operand positions, string "
        "positions, field spellings and seeded typed filters x 3 dialects x alias none/'t'/'u' with visitors of different aliases interleaved; the REAL text is read by the "
        "Lean SQL lexer+parser and compared with Spec.mirror. Props/Accepted.lean `mirror_accepted`: parse_mirror for every accepted ASCII text inside the SQL-expressible fragment.",
   note="Trusted: Lean kernel, standard axioms, Spec/SqlLex+SqlParse+SqlMirror (independent reader and expected trees), harness. Side condition Spec.sqlSafe holds for every filter of the typed "
        "grammar (checked each run). Known finding: the standard dialect's floor/ceiling CASE templates are not SQL (pinned by the suite; Lean witness kf_std_floor). "
        "fix: a701528 c4949ac 3f9b06a.",
   design="§6 C09", technique="Lean 4 proof (piece homomorphism by mutual induction; precedence-climbing round trip) + tie theorems + exhaustive differential correspondence + independent parsing of the real output"),
 "C12": dict(
   text="Lean 4 theorem `C12.sql_never_leaks`: for every dialect, alias and every tree whose built-in calls have the argument counts the parser enforces (callsOk, from the "
        "OData table; the finite arity table is checked against the handlers' signatures by the kernel) and whose duration literals unpack, the model of the raw SQL visitors "
        "returns SQL or one of the library's exceptions - never AttributeError/TypeError/IndexError/ValueError/NotImplementedError; namespaced calls never reach a handler "
        "(not_handler_of_ns). Completeness of a successful SQL translation is C09's parse_mirror. Executed: the node-kind x operand-position matrix and every built-in x "
        "argument kind x position, for the three SQL dialects and the roundtrip printer against the model (outcome class, payload, text), and for Django / SQLAlchemy ORM / "
        "Core on the strictly well-typed subset plus relational filters with unknown fields at every depth and same-named relationships on different models. "
        "Both hypotheses hold for every accepted filter: callsOk by C10.parse_image + callsOk_of_printable, durOk by C06.accepted_litOk (ASCII texts): Props/C12Sql.lean `sql_never_leaks_accepted`. "
        "ORM backends (Props/C12Orm.lean): `dj_never_leaks_welltyped`, `sa_never_leaks_welltyped` - for EVERY tree in the parser's image (printable) that is well-typed in Spec/TypesStrict under any "
        "field typing (every built-in, every overload, every literal kind, null wherever a primitive is expected) the models of the Django visitor and of the SQLAlchemy ORM / Core visitors return a "
        "translation, a library exception or the documented NotImplementedError, never a Python-level error ('unmodelled': geography literals and geo functions, covered by execution). "
        "Props/C12Accepted.lean: `dj_never_leaks_accepted`, `sa_never_leaks_accepted` - the same for every accepted, well-typed ASCII filter TEXT (printable from C10.parse_image; every duration / GUID / "
        "integer token the lexer emits has a Python value: accepted_pyLitOk'). Props/C12Complete.lean: `dj_columns`, `sa_columns` - the columns of a successful ORM translation are exactly the filter's field references in document order (with C08's dj_params / "
        "sa_params: every field and literal is represented, for every tree). The three visitor models are compared with the real visitors on the whole node-kind x position matrix.",
   note="Trusted: Lean kernel, standard axioms, Spec/TypesStrict.lean, harness. Partial: beyond the visitor models (Model/Orm.lean, tied by the outcome correspondences of C02 / C03 / C12) Django's and "
        "SQLAlchemy's internals are not modelled; a refusal raised by the host ORM itself (Django FieldError) is counted as a refusal. Nine leaks were repaired first "
        "(fix: b3ff485 c4949ac 0ae8f2a a3e3835 2c1d307 aff910a a628179 4813a75 3d0299d e93080a 235cac7 71c633b cf3d3cd). Judged on every run besides the matrix: in-list completeness on the ORMs (every element incl. null "
        "reaches the compiled IN list), literals without a value (2020-02-30) must be refused by the value-binding backends, field names that are attributes of the lookup objects (items, values, registry, "
        "__tablename__ ...) are that column or an invalid field.",
   design="§6 C12", technique="Lean 4 proof (never-foreign by mutual induction + kernel-checked arity table) + tie theorems on handler matrix and exception tree + exhaustive differential correspondence + outcome classification on all seven backends"),
 "C01": dict(
   text="Lean 4 theorem `C01.where_selects` (Props/C01Full.lean): for EVERY filter b of the typed scalar grammar (integer / string / Boolean terms, any nesting: arithmetic, "
        "comparisons, in-lists, null tests, and/or/not, Boolean functions compared with true/false, length / indexof / substring / concat / tolower / toupper / trim / contains / "
        "startswith / endswith) and EVERY row inside semOkB, the model of the SQLite dialect emits a WHERE text which, read by the independent SQL tokeniser and parser, is a tree "
        "whose evaluation by the SQLite model selects the row iff OData's three-valued semantics makes b true - the chain translates -> C07.lex_pieces -> C09.parse_mirror -> "
        "C01.sound (LIKE vs ordinal substring search, 0-based/1-based shifts, Kleene logic, IS NULL, IN as a Kleene disjunction; 1700 lines). typed_sqlSafe / typed_litOk show "
        "every typed filter meets the side conditions. Executed on every run: typed filters rendered to TEXT by the reference printer -> real parser -> real SQLite dialect -> "
        "sqlite3 on a 432-row product table and random tables; ids compared row by row with Spec.evalB (700 000 (filter,row) pairs) and with Spec.SqliteSem on the re-read text. "
        "Numeric stream (outside the theorem's grammar): floor / ceiling / round of a fractional column compared with integers, judged against Spec/NumFn.lean (roundQ, with floor_spec / "
        "ceiling_spec / round_near / round_midpoint proved; kf_trunc_shift_wrong characterises the known finding). Date stream: comparisons / in-lists / year ... second over a date and a "
        "date-time column judged against Spec/DateSem.lean; Props/DateOrder.lean proves that ordinal comparison of ISO spellings is the chronological order (iso_order, cmp_iso). Props/C01Date.lean: `date_where_selects` - the end-to-end "
        "theorem for the date fragment as a typed grammar (Spec.DateF: column vs date literal in either order, in-lists, year / month / day vs integer, and / or / not; valid calendar dates), against the SQLite date "
        "model sqlEvalD (DATE(x), CAST(STRFTIME(..) AS INTEGER)), which is validated against sqlite3 on every run together with DateF.toExpr and evalDF (300-1500 random DateF filters). Tie.SqlTemplates.selectTpl_in_source: every function template of the model is an f-string of the source class it models.",
   note="Trusted: Lean kernel, standard axioms, Spec/ODataSem.lean (reference semantics, profile decisions of DESIGN §4), Spec/SqliteSem.lean (environment model of SQLite, validated against sqlite3 "
        "each run), Spec/SqlLex+SqlParse, harness. semOkB excludes negative substring positions (unspecified), NUL, wrong storage classes, and the two LIKE known findings (ASCII case folding; "
        "wildcards in a computed pattern) which have Lean witnesses. Dates and 64-bit overflow are outside the semantic model (their translation is covered structurally by C09); fractional values only through the numeric stream (judged, not proved). "
        "fix: a701528 c4949ac d7f5487 (null eq x rendered NULL = x). Known finding: round(x) of a negative x on the SQLite dialect (TRUNC(x + 0.5), pinned). fix: a701528 c4949ac 329d7a6 fae5465.",
   design="§6 C01", technique="Lean 4 proof (end-to-end: printer model -> character-level lexing -> precedence-climbing parse -> semantic preservation by mutual induction over a typed grammar) + tie theorems + differential execution against sqlite3"),
 "C02": dict(
   text="Lean 4: model of AstToDjangoQVisitor (Model/Orm.lean djBuild: F / Value parameters / lookups / Q composition / function table with index shifts / type checks / refusals) "
        "composed with the environment model of Django's SQLite compiler (Spec/OrmSql.lean djSql) and of SQLite; theorems `C02.sound` (for every typed filter the visitor translates "
        "and every row inside semOkDj the compiled SQL selects the row iff OData's semantics makes the filter true), dj_never_leaks, dj_translates (Props/C02.lean when present). "
        "Executed on every run: typed filters as TEXT through apply_odata_query (QuerySet and Manager) on in-memory SQLite, ids compared row by row with Spec.evalB and with the "
        "environment model (150 000+ (filter,row) pairs), visitor outcome classes compared with the model, case-twin sequences; numeric stream (floor / ceiling / round of a fractional "
        "column, with and without NULL) judged against Spec/NumFn.lean; date stream judged against Spec/DateSem.lean (Props/DateOrder.lean); null guards joined with a comparison on the same operand "
        "under every negating context; named-parameter calls against the positional call; a pattern stream (matchesPattern, plain-text and anchored patterns over rows differing only in letter case, harness oracle re.search).",
   note="Trusted: Lean kernel, standard axioms, Spec/ODataSem, Spec/SqliteSem + Spec/OrmSql (environment models, validated each run), harness. Known findings (excluded by semOkDj, counted, Lean-characterised): "
        "LIKE case folding on SQLite, Concat's COALESCE, Django not parenthesising negated / '('-initial operands of = / <>. The Django tests are not collected by the pinned command; "
        "they were run by hand after every fix (98 passed). fix: 4813a75 3d0299d e93080a.",
   design="§6 C02", technique="Lean 4 proof over visitor model + environment model (semantic preservation by mutual induction) + tie theorems on handler / literal tables + differential execution through the real shorthand"),
 "C03": dict(
   text="Lean 4: model of the shared SQLAlchemy visitors (saBuild) + environment model of SQLAlchemy's SQLite compiler (saSql); theorems (Props/C03.lean when present) `C03.sound`, "
        "orm_core_agree (ORM and Core build the same tree for every typed filter), keyword_case (TRUE / True / true), sa_never_leaks, sa_translates. Executed on every run: typed filters as "
        "TEXT through apply_odata_query(select(Model)), apply_odata_query(session.query(Model)) and apply_odata_core(select(table)) on in-memory SQLite: the three entry styles must agree, "
        "ids compared row by row with Spec.evalB and the environment model (170 000+ pairs), upper-case Boolean keywords, case-twin sequences in one process; numeric stream (floor / ceiling / "
        "round of a fractional column) judged against Spec/NumFn.lean, date stream against Spec/DateSem.lean (floor on a NULL cell is skipped: SQLAlchemy's pysqlite floor() fallback raises on NULL - environment); "
        "null guards under negating contexts; a pattern stream (matchesPattern, plain-text and anchored patterns over rows differing only in letter case, harness oracle re.search).",
   note="Trusted: as C02. Known findings: LIKE case folding, wildcards in a computed pattern, div is true division (pinned structurally by the suite); indexof / concat use functions SQLite lacks (outside the "
        "supported fragment on SQLite). fix: 7c0cf2f e81d1f7 235cac7 2c1d307.",
   design="§6 C03", technique="Lean 4 proof over visitor model + environment model + tie theorems + differential execution through the three real entry styles"),
 "C08": dict(
   text="Lean 4 theorems over the models of the Django and SQLAlchemy visitors (OTree: columns, BOUND PARAMETERS, the library's own integer parameters, inline constants): dj_params / "
        "sa_params - the bound parameters of a successful translation are exactly the filter's literals in order; dj_skeleton / sa_skeleton - two filters that differ only in literal values "
        "translate to trees with the same skeleton. Tie theorems: every literal handler's return expression, re-extracted from the source on every run, is Value(...) / literal(...) "
        "(orm_literals_are_parameters). Executed: model parameters found among the real compiled parameters for every well-typed filter; 28 templates x literal pairs of every kind and in-lists of "
        "3 / 101 / 120+ elements through the four shorthand entry styles - compiled SQL (post-compile parameters rendered) identical, values only in the parameter list; plain-text against "
        "regex-metacharacter patterns; columns of other declared types (Uuid, Numeric, Enum, Interval, Text, BigInteger, Date / DateTime / Time) on Core and ORM compiled for SQLite and PostgreSQL; for every environment variable the library's source reads (none on the pinned tree) the same judge in a process of its own with the variable set.",
   note="Trusted: Lean kernel, standard axioms, harness; that Value()/literal() compile to placeholders is Django's / SQLAlchemy's behaviour, observed on the compiled statements. Known finding: autoescape "
        "adds ESCAPE '/' only for literal substrings with a wildcard (Lean witness kf_autoescape; consequence of fix e81d1f7).",
   design="§6 C08", technique="Lean 4 proof (parameters = literals, skeleton invariance, by structural induction with handler plans) + tie theorems on literal-handler source + differential compilation through the real shorthands"),
 "C04": dict(
   text="Lean 4: reference semantics of to-one paths (a missing related row behaves as null), any() / any(x: p) / all(x: p) over to-many and many-to-many collections and their "
        "and/or/not compositions over a schema (Spec/RelSem.lean); models of what the two ORM visitors build - Django: owner path -> reverse_relationship -> sub-query correlated through the "
        "reversed remote names, body made relative by IdentifierStripper, EXISTS / NOT EXISTS(NOT body); SQLAlchemy: one LEFT OUTER JOIN per traversed relationship, rel.any(body), "
        "~rel.any(~body), bodies that navigate refused (Model/OrmRel.lean) - evaluated the way the ORMs evaluate them (Spec/OrmRelSem.lean). Theorems (Props/C04.lean when present): "
        "reverse_reaches (the back path reaches the outer row IFF the child is one of the rows the forward path leads to), orms_agree (the two ORM plans select the same parents, unconditionally), "
        "dj_sound_partial / sa_sound_partial (the plan selects exactly the parents Spec.evalR denotes) and dj_sound_typed / sa_sound_typed (the same under the static condition relTyped), for every filter "
        "of the relational grammar, every database with unique keys (dbOk: primary keys; keysOk: the columns foreign keys reference - which need not be the primary key: RelKind.toOne fk key) and every parent row; keysOk is "
        "proved necessary (dj_sound_false_without_keysOk / sa_sound_false_without_keysOk); the hypotheses lamVarsPlain (lambda variables without namespace: all the parser builds) and evalR-defined "
        "(every lambda owner is a to-one path ending in a collection) are NEEDED: the statements without them are refuted in Lean (dj_sound_original_false_toOne / _ns, sa_sound_original_false_toOne). Executed on every run: every leaf of the relational grammar and seeded compositions on a shape database and random "
        "databases through Django, select(Model) and session.query(Model); returned parents compared with Spec.evalR and with the plan models; four other root models whose collections / "
        "relationships share names with the first one's, in sequence in one process; a to-one relationship ITSELF compared with null / a key value (o eq null, 3 eq o, dept eq 10 where the "
        "key is a natural key, w/o eq 1), alone and combined, judged through its foreign-key column.",
   note="Trusted: Lean kernel, standard axioms, Spec/RelSem + Spec/RelElab (reference semantics, verification schema), Spec/OrmRelSem (environment model of the ORMs' join / EXISTS machinery, validated each run), harness. "
        "Scalar leaves are C02 / C03's subject. Hypothesis lambdaClean (bodies two-valued on the related rows: the property quantifies over non-null child columns). Known finding: SQLAlchemy joins a table "
        "twice without alias when two paths reach it. fix: 1659103 4c4c29b 10e169e f6a5118 32ff21e (lambdas over a to_field foreign key on Django).",
   design="§6 C04", technique="Lean 4 proof (graph reversal lemma for reverse_relationship, plan soundness by induction on lambda nesting, strip = re-rooting from C17) + differential execution of both ORMs against the relational reference semantics"),
 "C15": dict(
   text="Lean 4 theorems over the shorthands on an abstract query {entity, conditions, joins, ordering, annotations} (Model/Shorthand.lean): sa_conjoins / dj_conjoins (the result keeps exactly the base's rows "
        "that satisfy the filter), sa_keeps / dj_keeps (existing conditions, joins, ordering, annotations, entity untouched), sa_no_double_join, sa_adds_needed, and registry_default_untouched "
        "(importing the backend leaves every lookup in SQLAlchemy's _default function package unchanged - because each class of functions_ext.py declares package='odata' ITSELF, which the tie "
        "theorem re-checks against the source and against the live registry on every run). Executed: 10 Django and 18 SQLAlchemy base queries (pre-filtered, pre-joined inner / outer on used and unused "
        "relationships, two-step pre-joins with a same-named relationship, ordered, annotated, legacy Query, select(table)) x 15 filters x databases: ids and order compared with base-ids ∩ "
        "Spec.RelSem, JOIN counts, and sqlalchemy.func.<12 names> class / type / SQL before and after the import in two fresh processes.",
   note="Trusted: Lean kernel, standard axioms, Spec/RelSem, harness; the abstract query model is tied to the real shorthands by the differential run only (the ORMs' query objects are not modelled). "
        "fix: 10e169e (INNER JOIN dropped base rows).",
   design="§6 C15", technique="Lean 4 proof (list-level conjoin / keep / join-loop lemmas; registry non-interference from a tie theorem on the classes' own package attribute) + differential execution over base-query shapes + fresh-process registry probes"),
}
NOT_APPLICABLE = {}

def main():
    checks = []
    for pid in sorted(CHECKS):
        c = CHECKS[pid]
        checks.append({
            "property_id": pid,
            "quick_cmd": f"/venv/bin/python harness/verif.py check {pid} --tier quick",
            "thorough_cmd": f"/venv/bin/python harness/verif.py check {pid} --tier thorough",
            "evidence_file": f"evidence/{pid}.json",
            "replay_cmd_template": "/venv/bin/python harness/verif.py replay {path}",
            "engine": "lean4-model",
            "level_claimed": {"category": "proof", "text": c["text"], "design_ref": c["design"]},
            "level_note": c["note"],
            "technique": c["technique"],
        })
    all_ids = [f"C{i:02d}" for i in range(1, 21)]
    na = [{"property_id": p, "reason": NOT_APPLICABLE.get(p, "not yet claimed: the model, theorems and correspondence for this property are still being built (see DESIGN.md §9 build order)")}
          for p in all_ids if p not in CHECKS]
    m = {
        "version": 1,
        "setup_cmd": "cd lean && lake build ODataVerif driver",
        "hooks": {"guard": "ODATA_QUERY_VERIF", "enable": "no source hooks are needed: every observation point is a public call; checks import /repo's working tree (editable install)",
                  "baseline_off_cmd": "cd /repo && /venv/bin/python -m pytest -ra -q -p no:cacheprovider --timeout=900 --continue-on-collection-errors",
                  "source_commits": [], "add_only": True},
        "engines": [{"name": "lean4-model", "path": "lean/", "serves_properties": sorted(CHECKS),
                     "kind_free_text": "Lean 4 project: executable model (Model/), specification (Spec/), generated tables + tie theorems, property theorems (Props/), line-protocol driver"}],
        "checks": checks,
        "not_applicable": na,
        "notes": "All checks: T-gen (tables regenerated from /repo) -> lake build of the property's theorems + axiom audit -> differential correspondence model vs real code -> failing-input search when anything breaks. fix: commits in /repo are listed in KNOWN_FINDINGS.json.",
    }
    json.dump(m, open(os.path.join(VERIF, "MANIFEST.json"), "w"), indent=1)

if __name__ == "__main__":
    main()
