-- Root of the `ODataVerif` library: everything that must build.
import ODataVerif.Model.Basic
import ODataVerif.Model.Ast
import ODataVerif.Model.CharTables
import ODataVerif.Model.Lexer
import ODataVerif.Model.Parser
import ODataVerif.Wire
