/-
  Wire.lean — S-expression wire format shared with harness/sexpr.py (DESIGN Appendix B).

    tree   ::= "(" Kind tree* ")" | "[" tree* "]" | "<" string* ">" | string | "#n"
    string ::= '"' hex-of-utf8 '"'

  Not part of any proof: this is I/O glue of the driver (trusted base: correspondence check).
-/
import ODataVerif.Model.Basic
import ODataVerif.Model.Ast
namespace OQ.Wire

def hexDigit (n : Nat) : Char :=
  if n < 10 then Char.ofNat (48 + n) else Char.ofNat (87 + n)

def hexOfString (s : String) : String := Id.run do
  let mut out := ""
  for b in s.toUTF8.data do
    out := out.push (hexDigit (b.toNat / 16))
    out := out.push (hexDigit (b.toNat % 16))
  return out

def hexVal (c : Char) : Option Nat :=
  if '0' ≤ c ∧ c ≤ '9' then some (c.toNat - 48)
  else if 'a' ≤ c ∧ c ≤ 'f' then some (c.toNat - 87)
  else if 'A' ≤ c ∧ c ≤ 'F' then some (c.toNat - 55)
  else none

def bytesOfHex : List Char → Option (List UInt8)
  | [] => some []
  | a :: b :: t => do
      let x ← hexVal a
      let y ← hexVal b
      let r ← bytesOfHex t
      pure (UInt8.ofNat (x * 16 + y) :: r)
  | _ => none

def stringOfHex (h : String) : Option String := do
  let bs ← bytesOfHex h.toList
  String.fromUTF8? (ByteArray.mk bs.toArray)

def encStr (s : Str) : String := "\"" ++ hexOfString (String.ofList s) ++ "\""

mutual
partial def encTree : Tree → String
  | .node k fs => "(" ++ k ++ encList fs ++ ")"
  | .list xs => "[" ++ (encList xs).trimAsciiStart.toString ++ "]"
  | .tuple ss => "<" ++ " ".intercalate (ss.map encStr) ++ ">"
  | .str s => encStr s
  | .none => "#n"
partial def encList : TreeList → String
  | .nil => ""
  | .cons h t => " " ++ encTree h ++ encList t
end

/-- Tokeniser for the wire syntax. -/
inductive WTok | lp | rp | lb | rb | lt | gt | none | sym (s : String) | str (s : Str)
  deriving Repr

partial def wtoks (cs : List Char) (acc : Array WTok) : Option (Array WTok) :=
  match cs with
  | [] => some acc
  | ' ' :: t => wtoks t acc
  | '(' :: t => wtoks t (acc.push .lp)
  | ')' :: t => wtoks t (acc.push .rp)
  | '[' :: t => wtoks t (acc.push .lb)
  | ']' :: t => wtoks t (acc.push .rb)
  | '<' :: t => wtoks t (acc.push .lt)
  | '>' :: t => wtoks t (acc.push .gt)
  | '#' :: 'n' :: t => wtoks t (acc.push .none)
  | '"' :: t =>
      let h := t.takeWhile (· != '"')
      let rest := (t.dropWhile (· != '"')).drop 1
      match stringOfHex (String.ofList h) with
      | some s => wtoks rest (acc.push (.str s.toList))
      | none => Option.none
  | c :: t =>
      let w := (c :: t).takeWhile (fun x => x.isAlphanum || x == '_')
      if w.isEmpty then Option.none
      else wtoks ((c :: t).drop w.length) (acc.push (.sym (String.ofList w)))

mutual
partial def pTree (ts : Array WTok) (i : Nat) : Option (Tree × Nat) :=
  match ts[i]? with
  | some .none => some (.none, i + 1)
  | some (.str s) => some (.str s, i + 1)
  | some .lp =>
      match ts[i+1]? with
      | some (.sym k) => do
          let (fs, j) ← pList ts (i + 2)
          match ts[j]? with
          | some .rp => some (.node k fs, j + 1)
          | _ => Option.none
      | _ => Option.none
  | some .lb => do
      let (xs, j) ← pList ts (i + 1)
      match ts[j]? with
      | some .rb => some (.list xs, j + 1)
      | _ => Option.none
  | some .lt => do
      let (xs, j) ← pStrs ts (i + 1)
      match ts[j]? with
      | some .gt => some (.tuple xs, j + 1)
      | _ => Option.none
  | _ => Option.none
partial def pList (ts : Array WTok) (i : Nat) : Option (TreeList × Nat) :=
  match ts[i]? with
  | some .rp | some .rb | Option.none => some (.nil, i)
  | _ => do
      let (h, j) ← pTree ts i
      let (t, k) ← pList ts j
      pure (.cons h t, k)
partial def pStrs (ts : Array WTok) (i : Nat) : Option (List Str × Nat) :=
  match ts[i]? with
  | some (.str s) => do
      let (t, k) ← pStrs ts (i + 1)
      pure (s :: t, k)
  | _ => some ([], i)
end

def decTree (s : String) : Option Tree := do
  let ts ← wtoks s.toList #[]
  let (t, j) ← pTree ts 0
  if j == ts.size then some t else Option.none

def decStr (s : String) : Option Str := do
  let s' ← stringOfHex s
  pure s'.toList

def encLibExc : LibExc → String
  | .tokenizing i => s!"TokenizingException {i}"
  | .parsing (some i) => s!"ParsingException {i}"
  | .parsing Option.none => "ParsingException eof"
  | .unknownFunction n => s!"UnknownFunctionException {encStr n}"
  | .argumentCount n lo hi g => s!"ArgumentCountException {encStr n} {lo} {hi} {g}"
  | .unsupportedFunction n => s!"UnsupportedFunctionException {encStr n}"
  | .argumentType n => s!"ArgumentTypeException {encStr n}"
  | .type_ n => s!"TypeException {encStr n}"
  | .value => "ValueException"
  | .invalidField n => s!"InvalidFieldException {encStr n}"

def encOutcome {α} (f : α → String) : Outcome α → String
  | .ok a => "ok " ++ f a
  | .lib e => "lib " ++ encLibExc e
  | .notImplemented => "notimpl"
  | .foreign c => "foreign " ++ c

def encPyVal : PyVal → String
  | .str s => "s " ++ encStr s
  | .none => "none"

end OQ.Wire
