/-
  Spec/NumFn.lean — reference semantics of the rounding functions `floor`, `ceiling`, `round` on FRACTIONAL values
  (OData 4.01 Part 2 §5.1.1.9: floor = greatest integer not above, ceiling = least integer not below, round = nearest integer,
  the mid-point away from zero).  Values are exact binary fractions `q / 4` (quarters), which every engine here stores and
  computes exactly, so the comparison with the real backends involves no rounding error.

  The typed grammar of Spec/ODataSem.lean is integer / string / Boolean; this module extends the JUDGE of C01 / C02 / C03 to
  `fn(column) cmp integer` over a fractional column.  It is not inside `C01.sound` / `C02.sound` / `C03.sound` (which are
  theorems about the integer / string / Boolean grammar): the checks evaluate THIS specification in Lean on the rows and
  compare the real result with it on every run (DESIGN §0.2, "numeric stream").
  Core Lean only.
-/
import ODataVerif.Spec.ODataSem
namespace OQ.Spec

inductive RoundFn | floor | ceiling | round
  deriving DecidableEq, Repr

/-- `fn (q / 4)` -/
def roundQ (f : RoundFn) (q : Int) : Int :=
  match f with
  | .floor => q / 4                         -- Int `/` rounds toward −∞ for a positive divisor
  | .ceiling => -((-q) / 4)
  | .round => if 0 ≤ q then (q + 2) / 4 else -((-q + 2) / 4)

/-- floor is the greatest integer not above the value -/
theorem floor_spec (q : Int) : 4 * roundQ .floor q ≤ q ∧ q < 4 * (roundQ .floor q + 1) := by
  simp only [roundQ]; omega
/-- ceiling is the least integer not below the value -/
theorem ceiling_spec (q : Int) : q ≤ 4 * roundQ .ceiling q ∧ 4 * (roundQ .ceiling q - 1) < q := by
  simp only [roundQ]; omega
/-- round is a nearest integer … -/
theorem round_near (q : Int) : 4 * roundQ .round q - q ≤ 2 ∧ q - 4 * roundQ .round q ≤ 2 := by
  simp only [roundQ]; split <;> omega
/-- … and at a mid-point it is the one away from zero -/
theorem round_midpoint (k : Int) : roundQ .round (4 * k + 2) = if 0 ≤ k then k + 1 else k := by
  simp only [roundQ]; split <;> split <;> omega
theorem round_integral (f : RoundFn) (k : Int) : roundQ f (4 * k) = k := by
  cases f <;> simp only [roundQ] <;> (try split) <;> omega
theorem ceiling_floor (q : Int) : roundQ .ceiling q = if q % 4 = 0 then roundQ .floor q else roundQ .floor q + 1 := by
  simp only [roundQ]; split <;> omega

/-- `fn(col) cmp n` on a row whose column holds `q / 4` (or NULL): three-valued -/
def numFnHolds (f : RoundFn) (k : CmpK) (n : Int) (cell : Option Int) : V3 :=
  match cell with
  | none => .unk
  | some q => V3.ofBool (cmpInt k (roundQ f q) n)

/-! ### KNOWN FINDING C01-sqlite-round-negative: what `TRUNC(x + 0.5)` (SQLite dialect, sql/sqlite.py `sqlfunc_round`) computes -/
/-- truncation toward zero of (q + 2) / 4, i.e. TRUNC(q/4 + 0.5) -/
def truncShiftQ (q : Int) : Int := if 0 ≤ q + 2 then (q + 2) / 4 else -((-(q + 2)) / 4)
/-- right for every x > −0.5 … -/
theorem kf_trunc_shift_ok (q : Int) (h : -1 ≤ q) : truncShiftQ q = roundQ .round q := by
  simp only [truncShiftQ, roundQ]; split <;> split <;> omega
/-- … and exactly one too high for every x ≤ −0.5 -/
theorem kf_trunc_shift_wrong (q : Int) (h : q ≤ -2) : truncShiftQ q = roundQ .round q + 1 := by
  simp only [truncShiftQ, roundQ]; split <;> split <;> omega
example : truncShiftQ (-5) = 0 ∧ roundQ .round (-5) = -1 := by decide

example : roundQ .ceiling (-6) = -1 ∧ roundQ .floor (-6) = -2 ∧ roundQ .round (-6) = -2 ∧ roundQ .round 6 = 2 ∧ roundQ .ceiling (-2) = 0 := by decide
end OQ.Spec
