/-
  Spec/Traversal.lean — what C16 demands of the base visitor / transformer, stated on the uniform tree
  without reference to how visitor.py iterates fields: "every node, exactly once, depth-first in
  field order" and "map over the nodes of one kind".
-/
import ODataVerif.Model.Basic
namespace OQ.Spec

mutual
/-- all dataclass instances inside a Python value, in document (depth-first, field) order -/
def nodesOf : Tree → List Tree
  | .node k fs => .node k fs :: nodesOfList fs
  | .list items => nodesOfList items
  | _ => []
def nodesOfList : TreeList → List Tree
  | .nil => []
  | .cons h t => nodesOf h ++ nodesOfList t
end

mutual
def nodeCount : Tree → Nat
  | .node _ fs => 1 + nodeCountList fs
  | .list items => nodeCountList items
  | _ => 0
def nodeCountList : TreeList → Nat
  | .nil => 0
  | .cons h t => nodeCount h + nodeCountList t
end

mutual
/-- bottom-up map over every dataclass instance -/
def mapBU (f : Tree → Tree) : Tree → Tree
  | .node k fs => f (.node k (mapBUList f fs))
  | .list items => .list (mapBUList f items)
  | t => t
def mapBUList (f : Tree → Tree) : TreeList → TreeList
  | .nil => .nil
  | .cons h t => .cons (mapBU f h) (mapBUList f t)
end

def isKind (k : String) : Tree → Bool
  | .node k' _ => k' == k
  | _ => false

/-- "a transformer whose handler for kind `k` post-processes with `g` changes exactly those nodes" -/
def mapKind (k : String) (g : Tree → Tree) : Tree → Tree :=
  mapBU (fun n => if isKind k n then g n else n)

mutual
/-- top-down: a node of kind `k` is replaced by `g node` and not descended into -/
def replaceTD (k : String) (g : Tree → Tree) : Tree → Tree
  | .node k' fs => if k' == k then g (.node k' fs) else .node k' (replaceTDList k g fs)
  | .list items => .list (replaceTDList k g items)
  | t => t
def replaceTDList (k : String) (g : Tree → Tree) : TreeList → TreeList
  | .nil => .nil
  | .cons h t => .cons (replaceTD k g h) (replaceTDList k g t)
end

mutual
/-- shape of the values odata_query.ast dataclasses hold: a list-valued field contains nodes only
    (never a list inside a list, never a bare string) -/
def wf : Tree → Bool
  | .node _ fs => wfFields fs
  | .list _ => false
  | _ => true
def wfFields : TreeList → Bool
  | .nil => true
  | .cons (.list items) rest => wfItems items && wfFields rest
  | .cons (.node k fs) rest => wf (.node k fs) && wfFields rest
  | .cons _ rest => wfFields rest
def wfItems : TreeList → Bool
  | .nil => true
  | .cons (.node k fs) rest => wf (.node k fs) && wfItems rest
  | .cons _ _ => false
end

mutual
def hasKind (k : String) : Tree → Bool
  | .node k' fs => k' == k || hasKindList k fs
  | .list items => hasKindList k items
  | _ => false
def hasKindList (k : String) : TreeList → Bool
  | .nil => false
  | .cons h t => hasKind k h || hasKindList k t
end

end OQ.Spec
