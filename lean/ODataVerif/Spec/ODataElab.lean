/-
  Spec/ODataElab.lean — reading a parser AST back as a term of the typed grammar (Spec/ODataSem.lean), with
  fields typed by the naming convention of the verification schemas (i… integer, s… string, b… Boolean), and
  the side conditions `wfB` (literal texts well-formed) and `semOk` (the row is inside the part of the value
  space where OData specifies the result and no listed known finding applies).
-/
import ODataVerif.Spec.ODataSem
import ODataVerif.Spec.SqliteSem
namespace OQ.Spec

def colKindOf (n : Str) : Option ColK :=
  match n with
  | 'i' :: _ => some .int
  | 's' :: _ => some .str
  | 'b' :: _ => some .bool
  | _ => none

def cmpKOf : CmpOp → Option CmpK
  | .eq => some .eq | .ne => some .ne | .lt => some .lt | .le => some .le | .gt => some .gt | .ge => some .ge
  | .in_ => none
def arKOf : ArithOp → ArK
  | .add => .add | .sub => .sub | .mul => .mul | .div => .div | .mod => .mod

def asciiDigits (s : Str) : Bool := !s.isEmpty && s.all isDig

mutual
def elabI : Expr → Option IntE
  | .lit .int ('-' :: ds) => if asciiDigits ds then some (.lit true ds) else none
  | .lit .int ds => if asciiDigits ds then some (.lit false ds) else none
  | .ident ⟨c, []⟩ => if colKindOf c == some .int then some (.col c) else none
  | .unary .neg e => (elabI e).map .neg
  | .binop k l r =>
      match elabI l, elabI r with
      | some a, some b => some (.arith (arKOf k) a b)
      | _, _ => none
  | .call ⟨n, []⟩ (.cons a .nil) =>
      if n == "length".toList then (elabS a).map .length else none
  | .call ⟨n, []⟩ (.cons a (.cons b .nil)) =>
      if n == "indexof".toList then
        match elabS a, elabS b with
        | some x, some y => some (.indexof x y)
        | _, _ => none
      else none
  | _ => none
def elabS : Expr → Option StrE
  | .lit .str s => some (.lit s)
  | .ident ⟨c, []⟩ => if colKindOf c == some .str then some (.col c) else none
  | .call ⟨n, []⟩ (.cons a .nil) =>
      if n == "tolower".toList then (elabS a).map .tolower
      else if n == "toupper".toList then (elabS a).map .toupper
      else if n == "trim".toList then (elabS a).map .trim
      else none
  | .call ⟨n, []⟩ (.cons a (.cons b .nil)) =>
      if n == "concat".toList then
        match elabS a, elabS b with
        | some x, some y => some (.concat x y)
        | _, _ => none
      else if n == "substring".toList then
        match elabS a, elabI b with
        | some x, some i => some (.substring x i)
        | _, _ => none
      else none
  | .call ⟨n, []⟩ (.cons a (.cons b (.cons c .nil))) =>
      if n == "substring".toList then
        match elabS a, elabI b, elabI c with
        | some x, some i, some m => some (.substring3 x i m)
        | _, _, _ => none
      else none
  | _ => none
end

def elabIs : Exprs → Option (List IntE)
  | .nil => some []
  | .cons h t =>
      match elabI h, elabIs t with
      | some a, some as => some (a :: as)
      | _, _ => none
def elabSs : Exprs → Option (List StrE)
  | .nil => some []
  | .cons h t =>
      match elabS h, elabSs t with
      | some a, some as => some (a :: as)
      | _, _ => none

def likeKOf (n : Str) : Option LikeK :=
  if n == "contains".toList then some .contains
  else if n == "startswith".toList then some .startswith
  else if n == "endswith".toList then some .endswith
  else none

def elabB : Expr → Option BoolE
  | .compare .in_ l (.list xs) =>
      match elabI l, elabIs xs with
      | some a, some as => if as.isEmpty then none else some (.inI a as)
      | _, _ =>
          match elabS l, elabSs xs with
          | some a, some as => if as.isEmpty then none else some (.inS a as)
          | _, _ => none
  | .compare op (.ident ⟨c, []⟩) (.lit .null _) =>
      match colKindOf c, op with
      | some k, .eq => some (.isNull k c false)
      | some k, .ne => some (.isNull k c true)
      | _, _ => none
  -- the same test with the literal on the left (`null eq c`): eq / ne are symmetric
  | .compare op (.lit .null _) (.ident ⟨c, []⟩) =>
      match colKindOf c, op with
      | some k, .eq => some (.isNull k c false)
      | some k, .ne => some (.isNull k c true)
      | _, _ => none
  | .compare op l r =>
      match cmpKOf op with
      | none => none
      | some k =>
          match elabI l, elabI r with
          | some a, some b => some (.cmpI k a b)
          | _, _ =>
              match elabS l, elabS r with
              | some a, some b => some (.cmpS k a b)
              | _, _ =>
                  if k == .eq || k == .ne then
                    match elabB l, elabB r with
                    | some a, some b => some (.cmpB k a b)
                    | _, _ => none
                  else none
  | .boolop .and_ l r =>
      match elabB l, elabB r with
      | some a, some b => some (.and a b)
      | _, _ => none
  | .boolop .or_ l r =>
      match elabB l, elabB r with
      | some a, some b => some (.or a b)
      | _, _ => none
  | .unary .not_ e => (elabB e).map .not
  | .call ⟨n, []⟩ (.cons a (.cons b .nil)) =>
      match likeKOf n, elabS a, elabS b with
      | some k, some x, some y => some (.like k x y)
      | _, _, _ => none
  | .ident ⟨c, []⟩ => if colKindOf c == some .bool then some (.col c) else none
  | .lit .bool v =>
      -- the Boolean keywords in any ASCII letter case (the lexer is case-insensitive and the node keeps the spelling: C19)
      let lc := v.map (fun c => if 'A' ≤ c ∧ c ≤ 'Z' then Char.ofNat (c.toNat + 32) else c)
      if lc == "true".toList then some (.lit true) else if lc == "false".toList then some (.lit false) else none
  | _ => none

/-! ### side conditions -/
def noNul (s : Str) : Bool := !s.contains (Char.ofNat 0)

def isLitS : StrE → Bool
  | .lit _ => true
  | _ => false

def hasLikeMeta (s : Str) : Bool := s.contains '%' || s.contains '_'

/-- the case-insensitive reading SQLite's LIKE gives the three functions -/
def likeCI (k : LikeK) (h n : Str) : Bool := likeSem k (h.map foldA) (n.map foldA)

section
variable (ρ : Row)
mutual
/-- every sub-term is inside the specified part of OData's semantics on this row, and no known finding applies -/
def semOkI : IntE → Bool
  | .lit _ ds => asciiDigits ds
  | .col c => (match ρ.get c with
               | .str _ => false
               | _ => true)
  | .neg e => semOkI e
  | .arith _ l r => semOkI l && semOkI r
  | .length s => semOkS s
  | .indexof a b => semOkS a && semOkS b
def semOkS : StrE → Bool
  | .lit s => noNul s
  | .col c => (match ρ.get c with
               | .int _ => false
               | .str s => noNul s
               | .null => true)
  | .concat a b => semOkS a && semOkS b
  | .substring s i => semOkS s && semOkI i && (match evalI ρ i with
                                                 | some k => decide (0 ≤ k)
                                                 | none => true)
  | .substring3 s i n => semOkS s && semOkI i && semOkI n &&
      (match evalI ρ i with
       | some k => decide (0 ≤ k)
       | none => true) &&
      (match evalI ρ n with
       | some k => decide (0 ≤ k)
       | none => true)
  | .tolower s => semOkS s
  | .toupper s => semOkS s
  | .trim s => semOkS s
end

def semOkIs : List IntE → Bool
  | [] => true
  | e :: t => semOkI ρ e && semOkIs t
def semOkSs : List StrE → Bool
  | [] => true
  | e :: t => semOkS ρ e && semOkSs t

def semOkB : BoolE → Bool
  | .cmpI _ l r => semOkI ρ l && semOkI ρ r
  | .cmpS _ l r => semOkS ρ l && semOkS ρ r
  | .cmpB k l r => (k == .eq || k == .ne) && semOkB l && semOkB r
  | .isNull _ _ _ => true
  | .inI e xs => semOkI ρ e && semOkIs ρ xs && !xs.isEmpty
  | .inS e xs => semOkS ρ e && semOkSs ρ xs && !xs.isEmpty
  | .and l r => semOkB l && semOkB r
  | .or l r => semOkB l && semOkB r
  | .not e => semOkB e
  | .like k a b =>
      semOkS ρ a && semOkS ρ b &&
      (match evalS ρ a, evalS ρ b with
       | some h, some n =>
           -- known finding D20: SQLite's LIKE folds ASCII case; D19': a computed pattern's % and _ are wildcards
           (likeCI k h n == likeSem k h n) && (isLitS b || !hasLikeMeta n)
       | _, _ => true)
  | .col c => (match ρ.get c with
               | .str _ => false
               | .int z => z == 0 || z == 1        -- a Boolean column holds 0 / 1
               | .null => true)
  | .lit _ => true
end

end OQ.Spec
