/-
  Spec/Subst.lean — what C14 demands: substitution on *field references* with binders.
  A field reference is an `Identifier` or an `Attribute` path in expression position; function names,
  named-parameter names and lambda-bound variables (and every path rooted at a bound variable inside
  the lambda body) are not field references.  `bound` is the list of variables bound by the
  enclosing lambdas.
-/
import ODataVerif.Model.Basic
import ODataVerif.Model.Rewrite
namespace OQ.Spec

mutual
def subst (m : List (Tree × Tree)) (bound : List Tree) : Tree → Tree
  | .node k fs =>
      let generic := Tree.node k (substFields m bound fs)
      if k = "Identifier" then
        if bound.contains (.node k fs) then .node k fs
        else (match lookupRepl m (.node k fs) with
              | some r => r
              | none => .node k fs)
      else if k = "Attribute" then
        match fs with
        | .cons owner (.cons (.str a) .nil) =>
            if bound.contains (rootOf owner) then .node k fs
            else (match lookupRepl m (.node k fs) with
                  | some r => r          -- a maximal path, or the owner prefix of a longer one
                  | none => mkAttr (subst m bound owner) a)
        | _ => generic
      else if k = "Call" then
        match fs with
        | .cons func (.cons (.list args) .nil) =>
            .node k (.cons func (.cons (.list (substItems m bound args)) .nil))
        | _ => generic
      else if k = "NamedParam" then
        match fs with
        | .cons name (.cons param .nil) => .node k (.cons name (.cons (subst m bound param) .nil))
        | _ => generic
      else if k = "Lambda" then
        match fs with
        | .cons ident (.cons body .nil) =>
            .node k (.cons ident (.cons (subst m (ident :: bound) body) .nil))
        | _ => generic
      else generic
  | t => t
def substFields (m : List (Tree × Tree)) (bound : List Tree) : TreeList → TreeList
  | .nil => .nil
  | .cons (.list items) rest => .cons (.list (substItems m bound items)) (substFields m bound rest)
  | .cons (.node k fs) rest => .cons (subst m bound (.node k fs)) (substFields m bound rest)
  | .cons y rest => .cons y (substFields m bound rest)
def substItems (m : List (Tree × Tree)) (bound : List Tree) : TreeList → TreeList
  | .nil => .nil
  | .cons (.node k fs) rest => .cons (subst m bound (.node k fs)) (substItems m bound rest)
  | .cons y rest => .cons y (substItems m bound rest)
end

def isIdentNode : Tree → Bool
  | .node k _ => k == "Identifier"
  | _ => false

mutual
/-- shape facts about trees in the image of the parser that the substitution theorem uses:
    a path's owner is an identifier or a path; a lambda's first field is an identifier. -/
def scopeOk : Tree → Bool
  | .node k fs =>
      (if k = "Attribute" then
        match fs with
        | .cons owner (.cons (.str _) .nil) => isIdentNode owner || isAttr owner
        | _ => true
      else if k = "Lambda" then
        match fs with
        | .cons ident (.cons _ .nil) => isIdentNode ident
        | _ => true
      else true) && scopeOkList fs
  | .list items => scopeOkList items
  | _ => true
def scopeOkList : TreeList → Bool
  | .nil => true
  | .cons h t => scopeOk h && scopeOkList t
end

end OQ.Spec
