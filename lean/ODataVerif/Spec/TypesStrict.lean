/-
  Spec/TypesStrict.lean — "well-typed filter" for C12's quantifier: the typed grammar of Spec/Types.lean with
  the additional OData rule that the operands of a comparison / the elements of an `in` list must be of
  compatible primitive types (equal, both numeric, or `null`).  Written from OData 4.01 Part 2 §5.1.1.1.
-/
import ODataVerif.Spec.Types
namespace OQ.Spec

def compatTy : OTy → OTy → Bool
  | .prim .null, .coll | .coll, .prim .null => false
  | .prim .null, _ | _, .prim .null => true
  | .coll, _ | _, .coll => false
  | a, b => a == b || (isNumeric a && isNumeric b)

/-- the `null` literal is an expression of every primitive type (Part 2 §5.1.1.14.1: it may stand wherever a primitive value is expected) -/
def argFits (param arg : OTy) : Bool := param == arg || (arg == .prim .null && param != .coll)

/-- result type of a built-in when `null` arguments are matched against the primitive parameters of its signatures (first matching row) -/
def sigResultN (fn : String) (args : List OTy) : Option OTy :=
  match sigTable.find? (fun r => r.1 == fn && r.2.1.length == args.length && (r.2.1.zip args).all (fun p => argFits p.1 p.2)) with
  | some r => some r.2.2
  | none => none

mutual
def sType (Γ : Expr → Option OTy) : Expr → Option OTy
  | .ident i => Γ (.ident i)
  | .attr o n => Γ (.attr o n)
  | .lit k _ => some (.prim k)
  | .list xs => (sTypes Γ xs).map (fun _ => .coll)
  | .compare .in_ l (.list xs) =>
      match sType Γ l, sTypes Γ xs with
      | some t, some ts => if t != .coll && ts.all (compatTy t) && !ts.isEmpty then some (.prim .bool) else none
      | _, _ => none
  | .compare .in_ l r =>
      match sType Γ l, sType Γ r with
      | some t, some .coll => if t != .coll then some (.prim .bool) else none
      | _, _ => none
  | .compare _ l r =>
      match sType Γ l, sType Γ r with
      | some a, some b => if compatTy a b then some (.prim .bool) else none
      | _, _ => none
  | .boolop _ l r =>
      match sType Γ l, sType Γ r with
      | some (.prim .bool), some (.prim .bool) => some (.prim .bool)
      | _, _ => none
  | .unary .not_ e =>
      match sType Γ e with
      | some (.prim .bool) => some (.prim .bool)
      | _ => none
  | .unary .neg e =>
      match sType Γ e with
      | some t => if isNumeric t then some t else none
      | none => none
  | .binop _ l r =>
      match sType Γ l, sType Γ r with
      | some (.prim .int), some (.prim .int) => some (.prim .int)
      | some a, some b => if isNumeric a && isNumeric b then some (.prim .float) else none
      | _, _ => none
  | .call f args =>
      match sTypes Γ args with
      | some tys => sigResultN (String.ofList f.fullName) tys
      | none => none
  | .named _ _ => none
  | .coll _ _ _ => none
def sTypes (Γ : Expr → Option OTy) : Exprs → Option (List OTy)
  | .nil => some []
  | .cons h t =>
      match sType Γ h, sTypes Γ t with
      | some a, some as => some (a :: as)
      | _, _ => none
end

/-- a well-typed filter: a Boolean expression of the strict typed grammar -/
def wellTypedFilter (Γ : Expr → Option OTy) (e : Expr) : Bool := sType Γ e == some (.prim .bool)

end OQ.Spec
