/-
  Spec/OrmSemOk.lean — the per-backend side conditions of the ORM semantic theorems (C02, C03): which (filter, row)
  pairs are inside the part of the value space where OData specifies the result and no listed known finding of
  that backend applies.

  Django (`semOkDj`):      as `semOkB`, except that a negated condition or an in-list over fields as an operand of eq / ne is
                           excluded (Django emits `NOT (a) = (b)` without parentheses: known finding), that computed LIKE patterns are escaped by Django itself (no wildcard
                           condition) and that `concat` with a NULL operand is excluded (Django wraps both operands
                           in COALESCE(…, ''): known finding).
  SQLAlchemy (`semOkSa`):  as `semOkB` (a computed pattern's `%` / `_` are wildcards: known finding).
-/
import ODataVerif.Spec.ODataElab
namespace OQ.Spec

section
variable (ρ : Row)
mutual
def semOkDjI : IntE → Bool
  | .lit _ ds => asciiDigits ds
  | .col c => (match ρ.get c with
               | .str _ => false
               | _ => true)
  | .neg e => semOkDjI e
  | .arith _ l r => semOkDjI l && semOkDjI r
  | .length s => semOkDjS s
  | .indexof a b => semOkDjS a && semOkDjS b
def semOkDjS : StrE → Bool
  | .lit s => noNul s
  | .col c => (match ρ.get c with
               | .int _ => false
               | .str s => noNul s
               | .null => true)
  | .concat a b => semOkDjS a && semOkDjS b && (evalS ρ a).isSome && (evalS ρ b).isSome
  | .substring s i => semOkDjS s && semOkDjI i && (match evalI ρ i with
                                                     | some k => decide (0 ≤ k)
                                                     | none => true)
  | .substring3 s i n => semOkDjS s && semOkDjI i && semOkDjI n &&
      (match evalI ρ i with
       | some k => decide (0 ≤ k)
       | none => true) &&
      (match evalI ρ n with
       | some k => decide (0 ≤ k)
       | none => true)
  | .tolower s => semOkDjS s
  | .toupper s => semOkDjS s
  | .trim s => semOkDjS s
end

def semOkDjIs : List IntE → Bool
  | [] => true
  | e :: t => semOkDjI ρ e && semOkDjIs t
def semOkDjSs : List StrE → Bool
  | [] => true
  | e :: t => semOkDjS ρ e && semOkDjSs t

def isLitI : IntE → Bool
  | .lit _ _ => true
  | _ => false

/-- Django does not parenthesise a negated condition, nor an `in` over non-literal items, when it is an operand of
    `=` / `<>` (known finding): such operands are outside the fragment -/
def djOperandOk : BoolE → Bool
  | .not _ => false
  | .inI _ xs => xs.all isLitI
  | .inS _ xs => xs.all isLitS
  | _ => true

def parenI : IntE → Bool
  | .arith _ _ _ | .indexof _ _ => true
  | _ => false
def parenS : StrE → Bool
  | .concat _ _ => true
  | _ => false
/-- the condition's SQL text starts with `(` without being enclosed by it: Django takes such a RIGHT operand of `=` / `<>`
    for already parenthesised (`x = (a + 1) = 2`: known finding) -/
def djStartsParen : BoolE → Bool
  | .cmpI _ l _ => parenI l
  | .cmpS _ l _ => parenS l
  | .inI e _ => parenI e
  | .inS e _ => parenS e
  | .like _ a _ => parenS a
  | .cmpB _ _ _ => true
  | _ => false

def semOkDj : BoolE → Bool
  | .cmpI _ l r => semOkDjI ρ l && semOkDjI ρ r
  | .cmpS _ l r => semOkDjS ρ l && semOkDjS ρ r
  | .cmpB k l r => (k == .eq || k == .ne) && semOkDj l && semOkDj r && djOperandOk l && djOperandOk r && !djStartsParen r
  | .isNull _ _ _ => true
  | .inI e xs => semOkDjI ρ e && semOkDjIs ρ xs && !xs.isEmpty
  | .inS e xs => semOkDjS ρ e && semOkDjSs ρ xs && !xs.isEmpty
  | .and l r => semOkDj l && semOkDj r
  | .or l r => semOkDj l && semOkDj r
  | .not e => semOkDj e
  | .like k a b =>
      semOkDjS ρ a && semOkDjS ρ b &&
      (match evalS ρ a, evalS ρ b with
       | some h, some n => likeCI k h n == likeSem k h n        -- known finding: SQLite's LIKE folds ASCII case
       | _, _ => true)
  | .col c => (match ρ.get c with
               | .str _ => false
               | .int z => z == 0 || z == 1
               | .null => true)
  | .lit _ => true

/-- SQLAlchemy on SQLite: the conditions of the raw SQLite dialect -/
def semOkSa (b : BoolE) : Bool := semOkB ρ b
end

end OQ.Spec
