/-
  Spec/RelSem.lean — reference semantics of navigation and collection lambdas (C04, C15), written from OData 4.01
  Part 2 §5.1.1.10 / §5.1.1.13 and the property text:

    * a to-one path `a/b/c` reads the related row; a MISSING related row behaves as null
    * `coll/any()` — the collection is non-empty
    * `coll/any(x: p)` — SOME related row satisfies p        `coll/all(x: p)` — EVERY related row satisfies p
      (true for an empty collection); each parent is matched on ITS OWN related rows only
    * and / or / not compose under three-valued logic; a row is selected iff the filter is `tt`

  A database is a list of tables; relations are declared by a schema (to-one by foreign key, to-many by the child's
  foreign key, many-to-many through a link table).  Scalar leaves reuse Spec/ODataSem.lean over the parent's
  EXTENDED row, in which the column reached by the to-one path `p₁/…/pₖ/c` is stored under the key "p₁/…/pₖ/c".
  Core Lean only.
-/
import ODataVerif.Spec.ODataSem
namespace OQ.Spec

inductive RelKind
  | toOne (fk : Str) (key : Str)              -- src.fk = dst.key   (key = "id", or a unique natural key the foreign key references)
  | toMany (childFk : Str) (key : Str)        -- dst.childFk = src.key
  | m2m (link : Str) (srcCol dstCol : Str)    -- link.srcCol = src.id ∧ link.dstCol = dst.id
  deriving DecidableEq, Repr

structure RelDef where
  src : Str
  name : Str
  dst : Str
  kind : RelKind
  deriving DecidableEq, Repr

abbrev Schema := List RelDef
abbrev DB := List (Str × List Row)

def DB.table (db : DB) (t : Str) : List Row :=
  match db.find? (fun p => p.1 == t) with
  | some p => p.2
  | none => []

def Schema.rel (sch : Schema) (src name : Str) : Option RelDef :=
  sch.find? (fun r => r.src == src && r.name == name)

def idOf (r : Row) : Option Int := r.int "id".toList

/-- the rows of the target table related to `r` through `rel` -/
def relatedRows (db : DB) (rel : RelDef) (r : Row) : List Row :=
  match rel.kind with
  | .toOne fk key =>
      (match r.int fk with
       | some k => (db.table rel.dst).filter (fun x => x.int key == some k)
       | none => [])
  | .toMany cfk key =>
      (match r.int key with
       | some k => (db.table rel.dst).filter (fun x => x.int cfk == some k)
       | none => [])
  | .m2m link sc dc =>
      (match idOf r with
       | some k =>
           let ids := ((db.table link).filter (fun l => l.int sc == some k)).filterMap (fun l => l.int dc)
           (db.table rel.dst).filter (fun x => match idOf x with
                                               | some i => ids.contains i
                                               | none => false)
       | none => [])

/-- follow a to-one path from `(tbl, r)`: the table reached and the row there (`none` = a link is missing);
    the outer `none` = the path is not a to-one path of the schema -/
def navTo (sch : Schema) (db : DB) : Str → Option Row → List Str → Option (Str × Option Row)
  | tbl, r, [] => some (tbl, r)
  | tbl, r, seg :: rest =>
      match sch.rel tbl seg with
      | some rel =>
          (match rel.kind with
           | .toOne _ _ =>
               let next := match r with
                 | some row => (relatedRows db rel row).head?
                 | none => none
               navTo sch db rel.dst next rest
           | _ => none)
      | none => none

def joinSlash : List Str → Str
  | [] => []
  | [a] => a
  | a :: rest => a ++ '/' :: joinSlash rest

def splitSlash (s : Str) : List Str :=
  let rec go (cur : Str) : Str → List Str
    | [] => [cur.reverse]
    | '/' :: t => cur.reverse :: go [] t
    | c :: t => go (c :: cur) t
  go [] s

/-- value of the (possibly path-qualified) column `key` = "p₁/…/pₖ/c" for the row `r` of `tbl`; a missing link gives null -/
def pathValue (sch : Schema) (db : DB) (tbl : Str) (r : Row) (key : Str) : Val :=
  let segs := splitSlash key
  match segs.reverse with
  | [] => .null
  | c :: revPath =>
      match navTo sch db tbl (some r) revPath.reverse with
      | some (_, some row) => row.get c
      | _ => .null

mutual
def colsOfI : IntE → List Str
  | .lit _ _ => []
  | .col c => [c]
  | .neg e => colsOfI e
  | .arith _ l r => colsOfI l ++ colsOfI r
  | .length s => colsOfS s
  | .indexof a b => colsOfS a ++ colsOfS b
def colsOfS : StrE → List Str
  | .lit _ => []
  | .col c => [c]
  | .concat a b => colsOfS a ++ colsOfS b
  | .substring s i => colsOfS s ++ colsOfI i
  | .substring3 s i n => colsOfS s ++ colsOfI i ++ colsOfI n
  | .tolower s | .toupper s | .trim s => colsOfS s
end
def colsOfIs : List IntE → List Str
  | [] => []
  | e :: t => colsOfI e ++ colsOfIs t
def colsOfSs : List StrE → List Str
  | [] => []
  | e :: t => colsOfS e ++ colsOfSs t
def colsOfB : BoolE → List Str
  | .cmpI _ l r => colsOfI l ++ colsOfI r
  | .cmpS _ l r => colsOfS l ++ colsOfS r
  | .cmpB _ l r => colsOfB l ++ colsOfB r
  | .isNull _ c _ => [c]
  | .inI e xs => colsOfI e ++ colsOfIs xs
  | .inS e xs => colsOfS e ++ colsOfSs xs
  | .and l r | .or l r => colsOfB l ++ colsOfB r
  | .not e => colsOfB e
  | .like _ a b => colsOfS a ++ colsOfS b
  | .col c => [c]
  | .lit _ => []

/-- the extended row a scalar leaf is evaluated on: every column it mentions, resolved through its path -/
def extRow (sch : Schema) (db : DB) (tbl : Str) (r : Row) (b : BoolE) : Row :=
  (colsOfB b).map (fun key => (key, pathValue sch db tbl r key))

/-- relational filters -/
inductive RCond
  | scalar (b : BoolE)                                   -- columns may be path-qualified ("o/n")
  | and (l r : RCond)
  | or (l r : RCond)
  | not (e : RCond)
  | nonEmpty (path : List Str) (coll : Str)              -- path/coll/any()
  | any (path : List Str) (coll : Str) (body : RCond)    -- path/coll/any(x: body)   (body relative to x)
  | all (path : List Str) (coll : Str) (body : RCond)
  deriving Repr

/-- the collection `path/coll` of `(tbl, r)`: target table and the related rows (empty when a link is missing) -/
def collRows (sch : Schema) (db : DB) (tbl : Str) (r : Row) (path : List Str) (coll : Str) : Option (Str × List Row) :=
  match navTo sch db tbl (some r) path with
  | some (t, row) =>
      (match sch.rel t coll with
       | some rel =>
           (match rel.kind with
            | .toOne _ _ => none
            | _ => some (rel.dst, match row with
                                  | some x => relatedRows db rel x
                                  | none => []))
       | none => none)
  | none => none

/-- meaning of a relational filter on the row `r` of table `tbl`; `none` = not a filter over this schema -/
def evalR (sch : Schema) (db : DB) : Str → Row → RCond → Option V3
  | tbl, r, .scalar b => some (evalB (extRow sch db tbl r b) b)
  | tbl, r, .and x y =>
      (match evalR sch db tbl r x, evalR sch db tbl r y with
       | some a, some b => some (V3.and a b)
       | _, _ => none)
  | tbl, r, .or x y =>
      (match evalR sch db tbl r x, evalR sch db tbl r y with
       | some a, some b => some (V3.or a b)
       | _, _ => none)
  | tbl, r, .not x => (evalR sch db tbl r x).map V3.not
  | tbl, r, .nonEmpty path coll =>
      (collRows sch db tbl r path coll).map (fun p => V3.ofBool (!p.2.isEmpty))
  | tbl, r, .any path coll body =>
      (match collRows sch db tbl r path coll with
       | some (t, rows) =>
           let vs := rows.map (fun c => evalR sch db t c body)
           if vs.any (· == none) then none else some (V3.ofBool (vs.any (· == some .tt)))
       | none => none)
  | tbl, r, .all path coll body =>
      (match collRows sch db tbl r path coll with
       | some (t, rows) =>
           let vs := rows.map (fun c => evalR sch db t c body)
           if vs.any (· == none) then none else some (V3.ofBool (vs.all (· == some .tt)))
       | none => none)

def selectsR (sch : Schema) (db : DB) (tbl : Str) (r : Row) (f : RCond) : Option Bool :=
  (evalR sch db tbl r f).map (· == .tt)

end OQ.Spec

namespace OQ.Spec
/-- every lambda body of the filter is two-valued on every related row it is evaluated on (the property quantifies over
    lambda bodies over NON-NULL child columns; with an unknown body the SQL `EXISTS` reading and the logical reading of
    `all` differ) -/
def lambdaClean (sch : Schema) (db : DB) : Str → Row → RCond → Bool
  | _, _, .scalar _ => true
  | tbl, r, .and x y => lambdaClean sch db tbl r x && lambdaClean sch db tbl r y
  | tbl, r, .or x y => lambdaClean sch db tbl r x && lambdaClean sch db tbl r y
  | tbl, r, .not x => lambdaClean sch db tbl r x
  | _, _, .nonEmpty _ _ => true
  | tbl, r, .any path coll body =>
      (match collRows sch db tbl r path coll with
       | some (t, rows) => rows.all (fun c => lambdaClean sch db t c body && evalR sch db t c body != some .unk)
       | none => true)
  | tbl, r, .all path coll body =>
      (match collRows sch db tbl r path coll with
       | some (t, rows) => rows.all (fun c => lambdaClean sch db t c body && evalR sch db t c body != some .unk)
       | none => true)
end OQ.Spec
