/-
  Spec/SqlLex.lean — an independent SQL tokeniser (the "independent reader" of C07 / C09 / C01).

  Written from the lexical rules SQL-92, SQLite and Presto/Athena share, never from the library:
    * `'…'` string literal, a quote inside is written twice; no backslash escapes
    * `"…"` quoted identifier, a double quote inside is written twice
    * numbers  digits [ . digits ] [ (e|E) [+|-] digits ]
    * words    [A-Za-z_][A-Za-z0-9_]*
    * operators  = != <> < <= > >= + - * / % ||   and  ( ) , .
    * blanks (space, tab, CR, LF) separate tokens
  Everything else is REJECTED: comments (`--`, `/*`), `;`, a lone `|` or `!`, backslashes, back-ticks,
  control characters and every non-ASCII character outside a literal / quoted identifier, an
  unterminated literal, a number running into a word.  A text that needs a more permissive reader to be
  understood is not "tokenisable" in the sense of C09.

  The tokeniser is a Mealy machine (`stepSt`) folded over the characters (`run`), so that it is
  structurally recursive and lemmas about `run st (a ++ b)` go by induction on `a`.
  Core Lean only.
-/
import ODataVerif.Model.Basic
namespace OQ.Spec

inductive SqlTok
  | str (s : Str)        -- string literal; the *content* (quotes un-doubled)
  | qid (s : Str)        -- quoted identifier; the name
  | num (s : Str)        -- numeric literal, as written
  | word (s : Str)       -- keyword / bare identifier, as written
  | op (s : Str)         -- operator
  | lp | rp | comma | dot
  deriving DecidableEq, Repr

inductive LSt
  | top
  | str (acc : Str)       -- inside '…'
  | strQ (acc : Str)      -- just read a quote inside '…': the end, unless another quote follows
  | qid (acc : Str)
  | qidQ (acc : Str)
  | int (acc : Str)       -- digits
  | dot0 (acc : Str)      -- digits '.'            (needs a digit)
  | frac (acc : Str)      -- digits '.' digits
  | exp0 (acc : Str)      -- … 'e'                 (needs sign or digit)
  | exp1 (acc : Str)      -- … 'e' sign            (needs a digit)
  | exp (acc : Str)       -- … 'e' [sign] digits
  | word (acc : Str)
  | bar                   -- read '|'
  | lt | gt | bang | minus | slash
  deriving DecidableEq, Repr

def isBlank (c : Char) : Bool := c == ' ' || c == '\n' || c == '\t' || c == '\r'
def isDig (c : Char) : Bool := '0' ≤ c && c ≤ '9'
def isLetter (c : Char) : Bool := ('a' ≤ c && c ≤ 'z') || ('A' ≤ c && c ≤ 'Z') || c == '_'
def isWordCh (c : Char) : Bool := isLetter c || isDig c

/-- from the top state, reading `c`: tokens completed at once and the next state -/
def fromTop (c : Char) : Option (List SqlTok × LSt) :=
  if isBlank c then some ([], .top)
  else if c == '\'' then some ([], .str [])
  else if c == '"' then some ([], .qid [])
  else if isDig c then some ([], .int [c])
  else if isLetter c then some ([], .word [c])
  else if c == '(' then some ([.lp], .top)
  else if c == ')' then some ([.rp], .top)
  else if c == ',' then some ([.comma], .top)
  else if c == '.' then some ([.dot], .top)
  else if c == '=' then some ([.op ['=']], .top)
  else if c == '+' then some ([.op ['+']], .top)
  else if c == '*' then some ([.op ['*']], .top)
  else if c == '%' then some ([.op ['%']], .top)
  else if c == '|' then some ([], .bar)
  else if c == '<' then some ([], .lt)
  else if c == '>' then some ([], .gt)
  else if c == '!' then some ([], .bang)
  else if c == '-' then some ([], .minus)
  else if c == '/' then some ([], .slash)
  else none

/-- a pending token is complete: emit it and treat `c` from the top state -/
def flush (t : SqlTok) (c : Char) : Option (List SqlTok × LSt) :=
  match fromTop c with
  | some (out, st) => some (t :: out, st)
  | none => none

/-- a number is complete at `c` unless `c` would run it into a word or another number -/
def endNum (acc : Str) (c : Char) : Option (List SqlTok × LSt) :=
  if isWordCh c || c == '.' then none else flush (.num acc) c

def stepSt : LSt → Char → Option (List SqlTok × LSt)
  | .top, c => fromTop c
  | .str acc, c => if c == '\'' then some ([], .strQ acc) else some ([], .str (acc ++ [c]))
  | .strQ acc, c => if c == '\'' then some ([], .str (acc ++ ['\''])) else flush (.str acc) c
  | .qid acc, c => if c == '"' then some ([], .qidQ acc) else some ([], .qid (acc ++ [c]))
  | .qidQ acc, c => if c == '"' then some ([], .qid (acc ++ ['"'])) else flush (.qid acc) c
  | .int acc, c =>
      if isDig c then some ([], .int (acc ++ [c]))
      else if c == '.' then some ([], .dot0 (acc ++ [c]))
      else if c == 'e' || c == 'E' then some ([], .exp0 (acc ++ [c]))
      else endNum acc c
  | .dot0 acc, c => if isDig c then some ([], .frac (acc ++ [c])) else none
  | .frac acc, c =>
      if isDig c then some ([], .frac (acc ++ [c]))
      else if c == 'e' || c == 'E' then some ([], .exp0 (acc ++ [c]))
      else endNum acc c
  | .exp0 acc, c =>
      if isDig c then some ([], .exp (acc ++ [c]))
      else if c == '+' || c == '-' then some ([], .exp1 (acc ++ [c]))
      else none
  | .exp1 acc, c => if isDig c then some ([], .exp (acc ++ [c])) else none
  | .exp acc, c => if isDig c then some ([], .exp (acc ++ [c])) else endNum acc c
  | .word acc, c => if isWordCh c then some ([], .word (acc ++ [c])) else flush (.word acc) c
  | .bar, c => if c == '|' then some ([.op ['|', '|']], .top) else none
  | .lt, c =>
      if c == '=' then some ([.op ['<', '=']], .top)
      else if c == '>' then some ([.op ['<', '>']], .top)
      else flush (.op ['<']) c
  | .gt, c => if c == '=' then some ([.op ['>', '=']], .top) else flush (.op ['>']) c
  | .bang, c => if c == '=' then some ([.op ['!', '=']], .top) else none
  | .minus, c => if c == '-' then none else flush (.op ['-']) c          -- `--` starts a comment
  | .slash, c => if c == '*' then none else flush (.op ['/']) c          -- `/*` starts a comment

/-- end of input -/
def finish : LSt → Option (List SqlTok)
  | .top => some []
  | .strQ acc => some [.str acc]
  | .qidQ acc => some [.qid acc]
  | .int acc | .frac acc | .exp acc => some [.num acc]
  | .word acc => some [.word acc]
  | .lt => some [.op ['<']]
  | .gt => some [.op ['>']]
  | .minus => some [.op ['-']]
  | .slash => some [.op ['/']]
  | _ => none

def run : LSt → List Char → Option (List SqlTok)
  | st, [] => finish st
  | st, c :: r =>
      match stepSt st c with
      | none => none
      | some (out, st') =>
          match run st' r with
          | none => none
          | some ts => some (out ++ ts)

/-- tokenise a whole text; `none` = not tokenisable -/
def sqlLex (s : Str) : Option (List SqlTok) := run .top s

/-- erase what a filter can choose (literal contents, identifier spellings): the token *shape* -/
def SqlTok.shape : SqlTok → SqlTok
  | .str _ => .str []
  | .qid _ => .qid []
  | t => t

end OQ.Spec
