/-
  Spec/OrmRelSem.lean — environment model: what Django's and SQLAlchemy's query machinery make of the plans of
  Model/OrmRel.lean on a database.

  Django:      a scalar leaf over F("a__b__c") paths reads the related row through LEFT OUTER JOINs (a missing row gives NULL);
               `Model.objects.filter(<back path> = OuterRef("pk"))` keeps the child rows from which following the back path
               reaches the outer row; EXISTS / NOT EXISTS as in SQL (a row counts only if the sub-query's condition is TRUE).
  SQLAlchemy:  a scalar leaf reads related rows through the recorded LEFT OUTER JOINs — it is only meaningful if every path it
               navigates has been joined (otherwise the table is cross-joined: `none`); `rel.any(cond)` is an EXISTS over the
               rows related to THIS parent through `rel`.
  Hand-written; validated by the C04 / C15 checks (real ORMs on SQLite vs these functions); part of the trusted base.
-/
import ODataVerif.Model.OrmRel
namespace OQ.Spec

/-- following the relation path `back` from the row `c` of `tbl` reaches a row whose id is `target` -/
def reachesBack (sch : Schema) (db : DB) : Str → Row → List Str → Int → Bool
  | _, c, [], target => idOf c == some target
  | tbl, c, seg :: rest, target =>
      match sch.rel tbl seg with
      | some rel => (relatedRows db rel c).any (fun c' => reachesBack sch db rel.dst c' rest target)
      | none => false

/-- the rows reached from `(tbl, r)` by following the forward relation path (relations of any kind) -/
def rowsVia (sch : Schema) (db : DB) : Str → Row → List Str → List Row
  | _, r, [] => [r]
  | tbl, r, seg :: rest =>
      match sch.rel tbl seg with
      | some rel => (relatedRows db rel r).flatMap (fun r' => rowsVia sch db rel.dst r' rest)
      | none => []

/-- Django's evaluation of a plan on the row `r` of `tbl` -/
def evalDjPlan (sch : Schema) (db : DB) : Str → Row → Plan → V3
  | tbl, r, .leaf b => evalB (extRow sch db tbl r b) b
  | tbl, r, .and x y => V3.and (evalDjPlan sch db tbl r x) (evalDjPlan sch db tbl r y)
  | tbl, r, .or x y => V3.or (evalDjPlan sch db tbl r x) (evalDjPlan sch db tbl r y)
  | tbl, r, .not x => V3.not (evalDjPlan sch db tbl r x)
  | _, r, .exists_ child back body =>
      match idOf r with
      | some pk =>
          V3.ofBool ((db.table child).any (fun c =>
            reachesBack sch db child c back pk &&
            (match body with
             | some b => evalDjPlan sch db child c b == .tt
             | none => true)))
      | none => .ff
  | _, r, .notExistsNot child back body =>
      match idOf r with
      | some pk =>
          V3.ofBool (!(db.table child).any (fun c =>
            reachesBack sch db child c back pk && V3.not (evalDjPlan sch db child c body) == .tt))
      | none => .tt

/-- SQLAlchemy's evaluation; `none` = a leaf navigates a path that is not joined (cartesian product: outside the model) -/
def evalSaPlan (sch : Schema) (db : DB) (joins : List (List Str)) : Str → Row → Plan → Option V3
  | tbl, r, .leaf b => if (leafJoins b).all (fun j => joins.contains j) then some (evalB (extRow sch db tbl r b) b) else none
  | tbl, r, .and x y =>
      (match evalSaPlan sch db joins tbl r x, evalSaPlan sch db joins tbl r y with
       | some a, some b => some (V3.and a b)
       | _, _ => none)
  | tbl, r, .or x y =>
      (match evalSaPlan sch db joins tbl r x, evalSaPlan sch db joins tbl r y with
       | some a, some b => some (V3.or a b)
       | _, _ => none)
  | tbl, r, .not x => (evalSaPlan sch db joins tbl r x).map V3.not
  | tbl, r, .exists_ child fwd body =>
      let rows := rowsVia sch db tbl r fwd
      (match body with
       | none => some (V3.ofBool (!rows.isEmpty))
       | some b =>
           let vs := rows.map (fun c => evalSaPlan sch db [] child c b)
           if vs.any (· == none) then none else some (V3.ofBool (vs.any (· == some .tt))))
  | tbl, r, .notExistsNot child fwd body =>
      let rows := rowsVia sch db tbl r fwd
      let vs := rows.map (fun c => evalSaPlan sch db [] child c body)
      if vs.any (· == none) then none else some (V3.ofBool (!vs.any (fun v => v.map V3.not == some .tt)))

/-- the schema is closed under inverses and relation names are unique per source table -/
def schemaOk (sch : Schema) : Bool :=
  sch.all (fun r => (inverseOf sch r).isSome) &&
  sch.all (fun r => (sch.filter (fun r' => r'.src == r.src && r'.name == r.name)).length == 1)

end OQ.Spec
