/-
  Spec/Builtins.lean — the built-in functions of OData 4.01 (Part 2: URL Conventions, §5.1.1.5 –
  §5.1.1.13) that odata-query lists, with the arities the OData specification gives them.
  Typed in from the specification, not from the code.
-/
import ODataVerif.Model.Basic
namespace OQ.Spec

/-- canonical function name ↦ (minimum, maximum) number of arguments -/
def builtins : List (String × Nat × Nat) :=
  [ -- §5.1.1.5 string and collection functions
    ("concat", 2, 2), ("contains", 2, 2), ("endswith", 2, 2), ("indexof", 2, 2), ("length", 1, 1),
    ("startswith", 2, 2), ("substring", 2, 3),
    -- §5.1.1.7 string functions
    ("matchesPattern", 2, 2), ("tolower", 1, 1), ("toupper", 1, 1), ("trim", 1, 1),
    -- §5.1.1.8 date and time functions
    ("year", 1, 1), ("month", 1, 1), ("day", 1, 1), ("hour", 1, 1), ("minute", 1, 1), ("second", 1, 1),
    ("fractionalseconds", 1, 1), ("totalseconds", 1, 1), ("date", 1, 1), ("time", 1, 1),
    ("totaloffsetminutes", 1, 1), ("mindatetime", 0, 0), ("maxdatetime", 0, 0), ("now", 0, 0),
    -- §5.1.1.9 arithmetic functions
    ("round", 1, 1), ("floor", 1, 1), ("ceiling", 1, 1),
    -- §5.1.1.11 geo functions
    ("geo.distance", 2, 2), ("geo.length", 1, 1), ("geo.intersects", 2, 2),
    -- §5.1.1.6 collection functions
    ("hassubset", 2, 2), ("hassubsequence", 2, 2) ]

def arity (n : Str) : Option (Nat × Nat) :=
  match builtins.find? (fun e => e.1.toList == n) with
  | some e => some e.2
  | none => none

end OQ.Spec
