/-
  Spec/ODataSem.lean — the reference semantics the semantic properties (C01–C04) are judged against: the
  scalar fragment of OData $filter as a TYPED grammar (terms are Int / Str / Bool by construction — the
  "typed grammar" the properties quantify over), its embedding into the parser's AST, and its meaning on a
  row under three-valued logic (a row is selected iff the filter evaluates to `tt`).

  Written from OData 4.01 Part 2 §5.1.1 with the profile decisions recorded in DESIGN §4:
    * `x eq null` / `x ne null` with the LITERAL null are the null tests; every other comparison with a null
      operand is unknown;  `in` is the Kleene disjunction of equalities;  and / or / not are Kleene
    * integer `div` / `mod` truncate toward zero, remainder has the dividend's sign; a zero divisor gives null
    * strings are compared ordinally by code point; string functions are null-propagating, 0-based, ordinal and
      case-sensitive; `indexof` is −1 when absent; `tolower` / `toupper` act on ASCII letters, `trim` on U+0020
    * `substring` with a negative start or length is outside the specified behaviour (`SemOk` excludes it)
  Core Lean only.
-/
import ODataVerif.Model.Ast
namespace OQ.Spec

inductive V3 | tt | ff | unk
  deriving DecidableEq, Repr

namespace V3
def not : V3 → V3
  | tt => ff | ff => tt | unk => unk
def and : V3 → V3 → V3
  | ff, _ | _, ff => ff
  | tt, tt => tt
  | _, _ => unk
def or : V3 → V3 → V3
  | tt, _ | _, tt => tt
  | ff, ff => ff
  | _, _ => unk
def ofBool (b : Bool) : V3 := if b then tt else ff
def ofOpt : Option Bool → V3
  | some b => ofBool b
  | none => unk
end V3

/-- a cell of a row -/
inductive Val
  | null
  | int (z : Int)
  | str (s : Str)
  deriving DecidableEq, Repr

/-- a row: column name ↦ value (Booleans are the integers 0 / 1, as every SQL engine here stores them) -/
abbrev Row := List (Str × Val)

def Row.get (ρ : Row) (c : Str) : Val :=
  match ρ.find? (fun p => p.1 == c) with
  | some p => p.2
  | none => .null
def Row.int (ρ : Row) (c : Str) : Option Int :=
  match ρ.get c with
  | .int z => some z
  | _ => none
def Row.str (ρ : Row) (c : Str) : Option Str :=
  match ρ.get c with
  | .str s => some s
  | _ => none

inductive CmpK | eq | ne | lt | le | gt | ge
  deriving DecidableEq, Repr
inductive ArK | add | sub | mul | div | mod
  deriving DecidableEq, Repr
inductive LikeK | contains | startswith | endswith
  deriving DecidableEq, Repr

mutual
/-- integer-valued terms -/
inductive IntE
  | lit (neg : Bool) (digits : Str)          -- `-7`, `12` : the text as written, sign and ASCII digits
  | col (c : Str)
  | neg (e : IntE)                           -- unary minus
  | arith (k : ArK) (l r : IntE)
  | length (s : StrE)
  | indexof (a b : StrE)
  deriving Repr
/-- string-valued terms -/
inductive StrE
  | lit (s : Str)
  | col (c : Str)
  | concat (a b : StrE)
  | substring (s : StrE) (i : IntE)
  | substring3 (s : StrE) (i n : IntE)
  | tolower (s : StrE)
  | toupper (s : StrE)
  | trim (s : StrE)
  deriving Repr
end

inductive ColK | int | str | bool
  deriving DecidableEq, Repr

/-- Boolean-valued terms: the filters -/
inductive BoolE
  | cmpI (k : CmpK) (l r : IntE)
  | cmpS (k : CmpK) (l r : StrE)
  | cmpB (k : CmpK) (l r : BoolE)            -- only eq / ne are in the grammar; other k never generated
  | isNull (kind : ColK) (c : Str) (negated : Bool)   -- `c eq null` / `c ne null`
  | inI (e : IntE) (xs : List IntE)
  | inS (e : StrE) (xs : List StrE)
  | and (l r : BoolE)
  | or (l r : BoolE)
  | not (e : BoolE)
  | like (k : LikeK) (a b : StrE)
  | col (c : Str)                            -- a Boolean field used as a condition
  | lit (b : Bool)
  deriving Repr

/-! ### meaning -/
def natOfDigits (ds : Str) : Nat := ds.foldl (fun acc c => acc * 10 + (c.toNat - '0'.toNat)) 0

def tdiv (a b : Int) : Int := Int.tdiv a b
def tmod (a b : Int) : Int := Int.tmod a b

def arith (k : ArK) (a b : Int) : Option Int :=
  match k with
  | .add => some (a + b)
  | .sub => some (a - b)
  | .mul => some (a * b)
  | .div => if b = 0 then none else some (tdiv a b)
  | .mod => if b = 0 then none else some (tmod a b)

/-- ordinal comparison of strings by code point -/
def strLt : Str → Str → Bool
  | [], [] => false
  | [], _ :: _ => true
  | _ :: _, [] => false
  | a :: as, b :: bs => a.toNat < b.toNat || (a == b && strLt as bs)

def cmpInt (k : CmpK) (a b : Int) : Bool :=
  match k with
  | .eq => a == b | .ne => a != b | .lt => a < b | .le => a ≤ b | .gt => a > b | .ge => a ≥ b
def cmpStr (k : CmpK) (a b : Str) : Bool :=
  match k with
  | .eq => a == b | .ne => a != b | .lt => strLt a b | .le => !strLt b a | .gt => strLt b a | .ge => !strLt a b

def isPrefix : Str → Str → Bool
  | [], _ => true
  | _ :: _, [] => false
  | a :: as, b :: bs => a == b && isPrefix as bs

/-- 0-based position of the first occurrence of `n` in `h`; −1 when absent -/
def indexOfAux (n : Str) : Str → Nat → Int
  | [], i => if n.isEmpty then i else -1
  | c :: t, i => if isPrefix n (c :: t) then i else indexOfAux n t (i + 1)
def indexOf (h n : Str) : Int := indexOfAux n h 0

def containsStr (h n : Str) : Bool := indexOf h n ≥ 0
def endsWith (h n : Str) : Bool := isPrefix n.reverse h.reverse

def lowerA (c : Char) : Char := if 'A' ≤ c && c ≤ 'Z' then Char.ofNat (c.toNat + 32) else c
def upperA (c : Char) : Char := if 'a' ≤ c && c ≤ 'z' then Char.ofNat (c.toNat - 32) else c
def trimSp (s : Str) : Str := ((s.dropWhile (· == ' ')).reverse.dropWhile (· == ' ')).reverse

mutual
def evalI (ρ : Row) : IntE → Option Int
  | .lit neg ds => some (if neg then -(natOfDigits ds : Int) else natOfDigits ds)
  | .col c => ρ.int c
  | .neg e => (evalI ρ e).map (fun z => -z)
  | .arith k l r =>
      match evalI ρ l, evalI ρ r with
      | some a, some b => arith k a b
      | _, _ => none
  | .length s => (evalS ρ s).map (fun x => (x.length : Int))
  | .indexof a b =>
      match evalS ρ a, evalS ρ b with
      | some x, some y => some (indexOf x y)
      | _, _ => none
def evalS (ρ : Row) : StrE → Option Str
  | .lit s => some s
  | .col c => ρ.str c
  | .concat a b =>
      match evalS ρ a, evalS ρ b with
      | some x, some y => some (x ++ y)
      | _, _ => none
  | .substring s i =>
      match evalS ρ s, evalI ρ i with
      | some x, some k => some (x.drop k.toNat)
      | _, _ => none
  | .substring3 s i n =>
      match evalS ρ s, evalI ρ i, evalI ρ n with
      | some x, some k, some m => some ((x.drop k.toNat).take m.toNat)
      | _, _, _ => none
  | .tolower s => (evalS ρ s).map (List.map lowerA)
  | .toupper s => (evalS ρ s).map (List.map upperA)
  | .trim s => (evalS ρ s).map trimSp
end

def evalIs (ρ : Row) : List IntE → List (Option Int)
  | [] => []
  | e :: t => evalI ρ e :: evalIs ρ t
def evalSs (ρ : Row) : List StrE → List (Option Str)
  | [] => []
  | e :: t => evalS ρ e :: evalSs ρ t

/-- Kleene disjunction of `x eq vᵢ` -/
def inList {α} [BEq α] (x : Option α) (vs : List (Option α)) : V3 :=
  vs.foldl (fun acc v => V3.or acc (match x, v with
                                    | some a, some b => V3.ofBool (a == b)
                                    | _, _ => .unk)) .ff

def likeSem (k : LikeK) (h n : Str) : Bool :=
  match k with
  | .contains => containsStr h n
  | .startswith => isPrefix n h
  | .endswith => endsWith h n

/-- a Boolean operand as a value: tt / ff / unknown -/
def evalB (ρ : Row) : BoolE → V3
  | .cmpI k l r =>
      match evalI ρ l, evalI ρ r with
      | some a, some b => V3.ofBool (cmpInt k a b)
      | _, _ => .unk
  | .cmpS k l r =>
      match evalS ρ l, evalS ρ r with
      | some a, some b => V3.ofBool (cmpStr k a b)
      | _, _ => .unk
  | .cmpB k l r =>
      match evalB ρ l, evalB ρ r with
      | .unk, _ | _, .unk => .unk
      | a, b => V3.ofBool (if k == .ne then a != b else a == b)
  | .isNull _ c negated => V3.ofBool ((ρ.get c == .null) != negated)
  | .inI e xs => inList (evalI ρ e) (evalIs ρ xs)
  | .inS e xs => inList (evalS ρ e) (evalSs ρ xs)
  | .and l r => V3.and (evalB ρ l) (evalB ρ r)
  | .or l r => V3.or (evalB ρ l) (evalB ρ r)
  | .not e => V3.not (evalB ρ e)
  | .like k a b =>
      match evalS ρ a, evalS ρ b with
      | some x, some y => V3.ofBool (likeSem k x y)
      | _, _ => .unk
  | .col c =>
      match ρ.int c with
      | some z => V3.ofBool (z != 0)
      | none => .unk
  | .lit b => V3.ofBool b

/-- the row is selected -/
def selects (ρ : Row) (b : BoolE) : Bool := evalB ρ b == .tt

/-! ### embedding into the parser's AST -/
def idE (c : Str) : Expr := .ident ⟨c, []⟩
def callE (n : String) (args : List Expr) : Expr := .call ⟨n.toList, []⟩ (Exprs.ofList args)

def CmpK.toOp : CmpK → CmpOp
  | .eq => .eq | .ne => .ne | .lt => .lt | .le => .le | .gt => .gt | .ge => .ge
def ArK.toOp : ArK → ArithOp
  | .add => .add | .sub => .sub | .mul => .mul | .div => .div | .mod => .mod
def LikeK.name : LikeK → String
  | .contains => "contains" | .startswith => "startswith" | .endswith => "endswith"

mutual
def IntE.toExpr : IntE → Expr
  | .lit neg ds => .lit .int (if neg then '-' :: ds else ds)
  | .col c => idE c
  | .neg e => .unary .neg e.toExpr
  | .arith k l r => .binop k.toOp l.toExpr r.toExpr
  | .length s => .call ⟨"length".toList, []⟩ (.cons s.toExpr .nil)
  | .indexof a b => .call ⟨"indexof".toList, []⟩ (.cons a.toExpr (.cons b.toExpr .nil))
def StrE.toExpr : StrE → Expr
  | .lit s => .lit .str s
  | .col c => idE c
  | .concat a b => .call ⟨"concat".toList, []⟩ (.cons a.toExpr (.cons b.toExpr .nil))
  | .substring s i => .call ⟨"substring".toList, []⟩ (.cons s.toExpr (.cons i.toExpr .nil))
  | .substring3 s i n => .call ⟨"substring".toList, []⟩ (.cons s.toExpr (.cons i.toExpr (.cons n.toExpr .nil)))
  | .tolower s => .call ⟨"tolower".toList, []⟩ (.cons s.toExpr .nil)
  | .toupper s => .call ⟨"toupper".toList, []⟩ (.cons s.toExpr .nil)
  | .trim s => .call ⟨"trim".toList, []⟩ (.cons s.toExpr .nil)
end

def intsToExprs : List IntE → Exprs
  | [] => .nil
  | e :: t => .cons e.toExpr (intsToExprs t)
def strsToExprs : List StrE → Exprs
  | [] => .nil
  | e :: t => .cons e.toExpr (strsToExprs t)

def BoolE.toExpr : BoolE → Expr
  | .cmpI k l r => .compare k.toOp l.toExpr r.toExpr
  | .cmpS k l r => .compare k.toOp l.toExpr r.toExpr
  | .cmpB k l r => .compare k.toOp l.toExpr r.toExpr
  | .isNull _ c negated => .compare (if negated then .ne else .eq) (idE c) (.lit .null [])
  | .inI e xs => .compare .in_ e.toExpr (.list (intsToExprs xs))
  | .inS e xs => .compare .in_ e.toExpr (.list (strsToExprs xs))
  | .and l r => .boolop .and_ l.toExpr r.toExpr
  | .or l r => .boolop .or_ l.toExpr r.toExpr
  | .not e => .unary .not_ e.toExpr
  | .like k a b => .call ⟨k.name.toList, []⟩ (.cons a.toExpr (.cons b.toExpr .nil))
  | .col c => idE c
  | .lit b => .lit .bool (if b then "true".toList else "false".toList)

end OQ.Spec
