/-
  Spec/SqlMirror.lean — what C09 demands: the SQL tree that has "the same operators with the same operand
  order and nesting, and every field and literal of the filter exactly once in its place", per dialect.

  `mirror d alias e = some t` : `t` is the tree a correct translation of `e` must read as;
  `mirror d alias e = none`   : `e` is outside the SQL-expressible fragment of dialect `d` (C09 is silent,
                                C12 demands a library exception).
  The per-dialect spellings of the OData built-ins (INSTR vs POSITION, SUBSTR vs SUBSTRING … FROM,
  STRFTIME vs EXTRACT, the 0-based → 1-based shifts, `IS [NOT] NULL`, LIKE patterns with `\` as escape
  character) are typed in from the SQL-92, SQLite and Presto documentation.  The overload choice
  (string vs collection) uses `inferType`, whose soundness is C18.
-/
import ODataVerif.Model.Ast
import ODataVerif.Model.Typing
import ODataVerif.Model.Sql
import ODataVerif.Spec.SqlParse
namespace OQ.Spec

def S (s : String) : Str := s.toList

/-- Athena column names: lower-case, everything outside `[a-z0-9_]` replaced by `_` -/
def athenaName (s : Str) : Str :=
  s.flatMap (fun c =>
    if c.toNat == 0x130 then ['i', '_']
    else
      let c' := if c.toNat == 0x212A then 'k' else if 'A' ≤ c && c ≤ 'Z' then Char.ofNat (c.toNat + 32) else c
      if isWordCh c' then [c'] else ['_'])

def colOf (d : Dialect) (alias : Option Str) (name : Str) : SqlTree :=
  let nm := if d = .athena then athenaName name else name
  match alias with
  | some a => if a.isEmpty then .col none nm else .col (some a) nm
  | none => .col none nm

/-- a numeric literal as written in the filter (`-5`, `+3`, `1.5`): sign, then the digits -/
def numOf : Str → SqlTree
  | '-' :: t => .un ['-'] (.num t)
  | '+' :: t => .un ['+'] (.num t)
  | t => .num t

def lowerAscii (s : Str) : Str := s.map (fun c => if 'A' ≤ c && c ≤ 'Z' then Char.ofNat (c.toNat + 32) else c)
def upperAscii (s : Str) : Str := s.map (fun c => if 'a' ≤ c && c ≤ 'z' then Char.ofNat (c.toNat - 32) else c)

/-- `\`, `%`, `_` in a literal substring stand for themselves: escape them with `\` -/
def likeLit : Str → Str
  | [] => []
  | c :: t => if c == '\\' || c == '%' || c == '_' then '\\' :: c :: likeLit t else c :: likeLit t

def durIntervals (p : DurParts) : List SqlTree :=
  let one (x : Option Str) (u : String) : List SqlTree :=
    match x with
    | some n => if n.isEmpty then [] else [.interval n (S u)]
    | none => []
  one p.years "YEAR" ++ one p.months "MONTH" ++ one p.days "DAY" ++ one p.hours "HOUR" ++ one p.minutes "MINUTE"
    ++ one p.seconds "SECOND"

def sumTrees : SqlTree → List SqlTree → SqlTree
  | acc, [] => acc
  | acc, t :: r => sumTrees (.bin ['+'] acc t) r

def litMirror (isDigit : Char → Bool) (d : Dialect) (k : LitKind) (v : Str) : Option SqlTree :=
  match k with
  | .null => some (.kw (S "NULL"))
  | .int | .float => some (numOf v)
  | .bool =>
      let tv := lowerAscii v == S "true"
      if d = .sqlite then some (.num (if tv then ['1'] else ['0'])) else some (.kw (if tv then S "TRUE" else S "FALSE"))
  | .str => some (.str v)
  | .geo => none
  | .date => if d = .sqlite then some (.call (S "DATE") (.cons (.str v) .nil)) else some (.typed (S "DATE") v)
  | .time => if d = .sqlite then some (.call (S "TIME") (.cons (.str v) .nil)) else some (.typed (S "TIME") v)
  | .datetime =>
      match d with
      | .std => some (.typed (S "TIMESTAMP") (v.map (fun c => if c == 'T' then ' ' else c)))
      | .sqlite => some (.call (S "DATETIME") (.cons (.str v) .nil))
      | .athena => some (.call (S "FROM_ISO8601_TIMESTAMP") (.cons (.str v) .nil))
  | .duration =>
      match durUnpack isDigit v with
      | none => none
      | some p =>
          match durIntervals p with
          | [] => none
          | i :: rest =>
              let body := sumTrees i rest
              match p.sign with
              | some c => some (.un [c] body)
              | none => some body
  | .guid => some (.str v)

def one (t : SqlTree) : SqlTrees := .cons t .nil
def two (a b : SqlTree) : SqlTrees := .cons a (.cons b .nil)
def three (a b c : SqlTree) : SqlTrees := .cons a (.cons b (.cons c .nil))

def cmpName : CmpOp → Str
  | .eq => S "=" | .ne => S "!=" | .lt => S "<" | .le => S "<=" | .gt => S ">" | .ge => S ">=" | .in_ => S "IN"
def arithName : ArithOp → Str
  | .add => S "+" | .sub => S "-" | .mul => S "*" | .div => S "/" | .mod => S "%"

def isStrTy (t : Option Ty) : Bool := t == some (.lit .str)
def isListTy (t : Option Ty) : Bool := t == some .list
def strOverload (tys : List (Option Ty)) : Bool := tys.any isStrTy || tys.all (· == none)

/-- the LIKE pattern for "`arg` occurs with `pre` / `suf` wildcards around it" -/
def patternOf (arg : Expr) (argT : SqlTree) (pre suf : Str) : SqlTree × Option Str :=
  match arg with
  | .lit .str raw =>
      let e := likeLit raw
      (.str (pre ++ e ++ suf), if e != raw then some ['\\'] else none)
  | _ =>
      let t := if pre.isEmpty then argT else .bin (S "||") (.str pre) argT
      (if suf.isEmpty then t else .bin (S "||") t (.str suf), none)

section
variable (isDigit : Char → Bool) (d : Dialect) (alias : Option Str)

mutual
def mirror : Expr → Option SqlTree
  | .ident i => some (colOf d alias i.name)
  | .attr _ _ => none
  | .named _ _ => none
  | .coll _ _ _ => none
  | .lit k v => litMirror isDigit d k v
  | .list (.cons a .nil) => mirror a
  | .list xs => (mirrorList xs).map .row
  | .binop op l r => do
      let l' ← mirror l
      let r' ← mirror r
      pure (.bin (arithName op) l' r')
  | .compare .in_ l (.list xs) => do
      let l' ← mirror l
      let xs' ← mirrorList xs
      pure (.inl l' xs')
  | .compare .in_ _ _ => none
  | .compare op l r => do
      let l' ← mirror l
      let r' ← mirror r
      -- `null eq x` is the same test as `x eq null` (eq / ne are symmetric): it reads `x IS NULL` as well
      match l, r, op with
      | .lit .null _, _, .eq => pure (.bin (S "IS") r' l')
      | .lit .null _, _, .ne => pure (.bin (S "ISNOT") r' l')
      | _, .lit .null _, .eq => pure (.bin (S "IS") l' r')
      | _, .lit .null _, .ne => pure (.bin (S "ISNOT") l' r')
      | _, _, _ => pure (.bin (cmpName op) l' r')
  | .boolop op l r => do
      let l' ← mirror l
      let r' ← mirror r
      pure (.bin (if op == .and_ then S "AND" else S "OR") l' r')
  | .unary op e => do
      let e' ← mirror e
      pure (.un (if op == .not_ then S "NOT" else S "-") e')
  | .call f args =>
      if !f.ns.isEmpty then none
      else mirrorCall (String.ofList f.name) args

def mirrorList : Exprs → Option SqlTrees
  | .nil => some .nil
  | .cons h t => do
      let h' ← mirror h
      let t' ← mirrorList t
      pure (.cons h' t')

def mirrorCall (name : String) (args : Exprs) : Option SqlTree :=
  let like2 (pre suf : Str) : Option SqlTree :=
    match args with
    | .cons a0 (.cons a1 .nil) =>
        if strOverload [inferType a0, inferType a1] then do
          let t0 ← mirror a0
          let t1 ← mirror a1
          let (pat, esc) := patternOf a1 t1 pre suf
          pure (.like t0 pat esc)
        else none
    | _ => none
  let unary (k : SqlTree → Option SqlTree) : Option SqlTree :=
    match args with
    | .cons a .nil => (mirror a).bind k
    | _ => none
  let part (p : String) (fmt : String) : Option SqlTree :=
    unary (fun t =>
      if d = .sqlite then some (.cast (.call (S "STRFTIME") (two (.str (S fmt)) t)) (S "INTEGER"))
      else some (.extract (S p) t))
  match name with
  | "concat" =>
      match args with
      | .cons a0 (.cons a1 .nil) => do
          let t0 ← mirror a0
          let t1 ← mirror a1
          pure (.bin (S "||") t0 t1)
      | _ => none
  | "contains" => like2 ['%'] ['%']
  | "startswith" => like2 [] ['%']
  | "endswith" => like2 ['%'] []
  | "indexof" =>
      match args with
      | .cons a0 (.cons a1 .nil) =>
          if strOverload [inferType a0, inferType a1] then do
            let t0 ← mirror a0
            let t1 ← mirror a1
            if d = .sqlite then pure (.bin (S "-") (.call (S "INSTR") (two t0 t1)) (.num ['1']))
            else pure (.bin (S "-") (.position t1 t0) (.num ['1']))
          else none
      | _ => none
  | "length" =>
      match args with
      | .cons a .nil => do
          let t ← mirror a
          let ty := inferType a
          if d = .sqlite then pure (.call (S "LENGTH") (one t))
          else if isStrTy ty || ty == none then pure (.call (S (if d = .athena then "LENGTH" else "CHAR_LENGTH")) (one t))
          else if isListTy ty then pure (.call (S "CARDINALITY") (one t))
          else none
      | _ => none
  | "substring" =>
      match args with
      | .cons a0 (.cons a1 rest) =>
          let ty := inferType a0
          if isStrTy ty || ty == none then do
            let t0 ← mirror a0
            let t1 ← mirror a1
            let start := SqlTree.bin (S "+") t1 (.num ['1'])
            match rest with
            | .nil => if d = .std then pure (.substring t0 start .none) else pure (.call (S "SUBSTR") (two t0 start))
            | .cons a2 .nil => do
                let t2 ← mirror a2
                if d = .std then pure (.substring t0 start (.some t2)) else pure (.call (S "SUBSTR") (three t0 start t2))
            | _ => none
          else if isListTy ty && d = .athena then do
            let t0 ← mirror a0
            let t1 ← mirror a1
            match rest with
            | .nil => pure (.call (S "SLICE") (two t0 t1))
            | .cons a2 .nil => do
                let t2 ← mirror a2
                pure (.call (S "SLICE") (three t0 t1 t2))
            | _ => none
          else none
      | _ => none
  | "tolower" => unary (fun t => some (.call (S "LOWER") (one t)))
  | "toupper" => unary (fun t => some (.call (S "UPPER") (one t)))
  | "trim" => unary (fun t => some (.call (S "TRIM") (one t)))
  | "year" => part "YEAR" "%Y"
  | "month" => part "MONTH" "%m"
  | "day" => part "DAY" "%d"
  | "hour" => part "HOUR" "%H"
  | "minute" => part "MINUTE" "%M"
  | "date" => unary (fun t => if d = .sqlite then some (.call (S "DATE") (one t)) else some (.cast t (S "DATE")))
  | "now" =>
      match args with
      | .nil => if d = .sqlite then some (.call (S "DATETIME") (one (.str (S "now")))) else some (.kw (S "CURRENT_TIMESTAMP"))
      | _ => none
  | "round" =>
      unary (fun t =>
        match d with
        | .std => some (.cast (.bin (S "+") t (.num (S "0.5"))) (S "INTEGER"))
        | .sqlite => some (.call (S "TRUNC") (one (.bin (S "+") t (.num (S "0.5")))))
        | .athena => some (.call (S "ROUND") (one t)))
  | "floor" => unary (fun t => some (.call (S "FLOOR") (one t)))
  | "ceiling" => unary (fun t => some (.call (S "CEILING") (one t)))
  | "hassubset" =>
      if d = .athena then
        match args with
        | .cons a0 (.cons a1 .nil) => do
            let t0 ← mirror a0
            let t1 ← mirror a1
            pure (.bin (S "=") (.call (S "CARDINALITY") (one (.call (S "ARRAY_INTERSECT") (two t0 t1))))
                               (.call (S "CARDINALITY") (one t1)))
        | _ => none
      else none
  | _ => none
end
end

end OQ.Spec

namespace OQ.Spec
/-! ### `sqlSafe`: the syntactic side condition under which the printers' operand rules are complete

The SQL printers parenthesise operands of operators and comparisons by precedence, but splice the
arguments of a few function templates (`x LIKE …`, `a || b`, `POSITION(b IN a)`, `SUBSTR(a, b + 1)`,
`TRUNC(x + 0.5)`) without looking at them.  Every filter of the typed grammar satisfies `sqlSafe`
(a string argument is never a comparison or an arithmetic expression, a number is never a
concatenation); ill-typed nestings such as `contains(a eq b, c)` or `concat(a add b, c)` do not, and the
C09 theorem does not speak about them. -/

def isBuiltin (name : String) : Expr → Bool
  | .call f _ => f.ns.isEmpty && String.ofList f.name == name
  | _ => false
def isBinopE : Expr → Bool
  | .binop _ _ _ => true
  | _ => false
def isMulE : Expr → Bool
  | .binop .mul _ _ | .binop .div _ _ | .binop .mod _ _ => true
  | _ => false
/-- renders as an arithmetic operator expression -/
def isArithE (e : Expr) : Bool := isBinopE e || isBuiltin "indexof" e
def isConcatE (e : Expr) : Bool := isBuiltin "concat" e
def isStrLitE : Expr → Bool
  | .lit .str _ => true
  | _ => false

section
variable (d : Dialect)
mutual
def sqlSafe : Expr → Bool
  | .ident _ | .lit _ _ => true
  | .attr _ _ | .named _ _ | .coll _ _ _ => true
  | .list xs => sqlSafeList xs
  | .binop op l r =>
      sqlSafe l && sqlSafe r && !(isConcatE l && (op == .add || op == .sub))
  | .compare _ l r => sqlSafe l && sqlSafe r
  | .boolop _ l r => sqlSafe l && sqlSafe r
  | .unary _ e => sqlSafe e
  | .call f args =>
      sqlSafeList args &&
      (if !f.ns.isEmpty then true
       else
        match String.ofList f.name, args with
        | "concat", .cons a0 (.cons a1 .nil) => !isArithE a0 && !isMulE a1
        | "contains", .cons a0 (.cons a1 .nil) | "startswith", .cons a0 (.cons a1 .nil) | "endswith", .cons a0 (.cons a1 .nil) =>
            decide (5 ≤ sqlPrec a0) && (isStrLitE a1 || !isMulE a1)
        | "indexof", .cons a0 (.cons a1 .nil) =>
            d == .sqlite || (decide (5 ≤ sqlPrec a0) && decide (5 ≤ sqlPrec a1))
        | "substring", .cons a0 (.cons a1 rest) =>
            if isListTy (inferType a0) then true
            else
              decide (5 ≤ sqlPrec a1) && !isConcatE a1 &&
              (d != .std || (decide (5 ≤ sqlPrec a0) &&
                (match rest with
                 | .cons a2 _ => decide (5 ≤ sqlPrec a2)
                 | .nil => true)))
        | "round", .cons a .nil => d == .athena || (decide (5 ≤ sqlPrec a) && !isConcatE a)
        | "floor", _ | "ceiling", _ => d != .std      -- the standard dialect's CASE templates are not SQL (known finding)
        | _, _ => true)
def sqlSafeList : Exprs → Bool
  | .nil => true
  | .cons h t => sqlSafe h && sqlSafeList t
end
end
end OQ.Spec
