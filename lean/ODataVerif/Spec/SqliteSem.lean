/-
  Spec/SqliteSem.lean — environment model: what SQLite 3.40 computes for the SQL expressions the SQLite dialect
  emits over integer / text / NULL cells (the scalar fragment of C01).  Hand-written from the SQLite
  documentation (lang_expr, lang_corefunc), VALIDATED against the real engine on every run of the C01 check
  (the same WHERE texts are executed by sqlite3 and evaluated here), and part of the trusted base.

  Modelled: integer arithmetic (`/` and `%` truncate toward zero, a zero divisor gives NULL; 64-bit overflow is
  outside the model), comparisons (NULL if an operand is NULL, integers numerically, text by memcmp of the UTF-8
  encoding = code-point order), `IS [NOT] NULL`, `IN (…)`, three-valued AND / OR / NOT over integers, `||`,
  LENGTH, INSTR, SUBSTR with a start ≥ 1 and a length ≥ 0, LOWER / UPPER (ASCII only), TRIM (U+0020 only),
  LIKE (`%`, `_`, optional ESCAPE character; ASCII letters match case-INSENSITIVELY).  Anything else evaluates
  to `none` ("outside the model"), never to a default.
-/
import ODataVerif.Spec.SqlParse
import ODataVerif.Spec.ODataSem
namespace OQ.Spec

def sx (s : String) : Str := s.toList

inductive SqlVal
  | null
  | int (z : Int)
  | text (s : Str)
  deriving DecidableEq, Repr

def SqlVal.ofVal : Val → SqlVal
  | .null => .null
  | .int z => .int z
  | .str s => .text s

/-- how a WHERE clause reads a value: NULL and 0 do not select the row -/
def SqlVal.v3 : SqlVal → Option V3
  | .null => some .unk
  | .int z => some (if z = 0 then .ff else .tt)
  | .text _ => none

def v3ToVal : V3 → SqlVal
  | .tt => .int 1 | .ff => .int 0 | .unk => .null

/-! ### LIKE -/
inductive PatItem | any | one | ch (c : Char)
  deriving DecidableEq, Repr

/-- split a pattern into items; with an escape character `e`, `e x` is the literal character `x` -/
def patItems (esc : Option Char) : Str → List PatItem
  | [] => []
  | c :: t =>
      if esc == some c then
        match t with
        | x :: t' => .ch x :: patItems esc t'
        | [] => [.ch c]
      else if c == '%' then .any :: patItems esc t
      else if c == '_' then .one :: patItems esc t
      else .ch c :: patItems esc t

/-- ASCII case folding, as SQLite's built-in LIKE does -/
def foldA (c : Char) : Char := if 'A' ≤ c && c ≤ 'Z' then Char.ofNat (c.toNat + 32) else c

def likeItems (ci : Bool) : List PatItem → Str → Bool
  | [], s => s.isEmpty
  | .any :: p, [] => likeItems ci p []
  | .any :: p, c :: t => likeItems ci p (c :: t) || likeItems ci (.any :: p) t
  | .one :: _, [] => false
  | .one :: p, _ :: t => likeItems ci p t
  | .ch _ :: _, [] => false
  | .ch x :: p, c :: t => (if ci then foldA x == foldA c else x == c) && likeItems ci p t
termination_by p s => (p.length + s.length, p.length)

def sqliteLike (pat s : Str) (esc : Option Char) : Bool := likeItems true (patItems esc pat) s

/-! ### scalar functions -/
/-- INSTR(h, n): 1-based position of the first occurrence, 0 when absent -/
def instr (h n : Str) : Int := indexOf h n + 1

/-- SUBSTR(s, start) / SUBSTR(s, start, len) for start ≥ 1, len ≥ 0 -/
def substr (s : Str) (start : Int) (len : Option Int) : Option Str :=
  if start < 1 then none
  else
    let r := s.drop (start.toNat - 1)
    match len with
    | none => some r
    | some l => if l < 0 then none else some (r.take l.toNat)

def cmpVals (op : Str) (a b : SqlVal) : Option SqlVal :=
  let k : Option CmpK :=
    if op == sx "=" then some .eq else if op == sx "!=" || op == sx "<>" then some .ne
    else if op == sx "<" then some .lt else if op == sx "<=" then some .le
    else if op == sx ">" then some .gt else if op == sx ">=" then some .ge else none
  match k, a, b with
  | none, _, _ => none
  | some _, .null, _ | some _, _, .null => some .null
  | some k, .int x, .int y => some (.int (if cmpInt k x y then 1 else 0))
  | some k, .text x, .text y => some (.int (if cmpStr k x y then 1 else 0))
  | some _, _, _ => none              -- mixed storage classes: outside the model

def arithVals (op : Str) (a b : SqlVal) : Option SqlVal :=
  let k : Option ArK :=
    if op == sx "+" then some .add else if op == sx "-" then some .sub else if op == sx "*" then some .mul
    else if op == sx "/" then some .div else if op == sx "%" then some .mod else none
  match k, a, b with
  | none, _, _ => none
  | some _, .null, _ | some _, _, .null => some .null
  | some k, .int x, .int y => (match arith k x y with
                               | some z => some (.int z)
                               | none => some .null)
  | some _, _, _ => none

def andVals (a b : SqlVal) : Option SqlVal :=
  match a.v3, b.v3 with
  | some x, some y => some (v3ToVal (V3.and x y))
  | _, _ => none
def orVals (a b : SqlVal) : Option SqlVal :=
  match a.v3, b.v3 with
  | some x, some y => some (v3ToVal (V3.or x y))
  | _, _ => none

def eqForIn (x v : SqlVal) : Option V3 :=
  match cmpVals (sx "=") x v with
  | some r => r.v3
  | none => none

def inVals (x : SqlVal) : List SqlVal → Option V3
  | [] => some .ff
  | v :: t =>
      match eqForIn x v, inVals x t with
      | some a, some b => some (V3.or a b)
      | _, _ => none

section
variable (ρ : Row)
mutual
def sqlEval : SqlTree → Option SqlVal
  | .col none name => some (SqlVal.ofVal (ρ.get name))
  | .col (some _) _ => none
  | .str s => some (.text s)
  | .num s => if s.all isDig && !s.isEmpty then some (.int (natOfDigits s)) else none
  | .kw w => if w == sx "NULL" then some .null else none
  | .typed _ _ => none
  | .interval _ _ => none
  | .un op e =>
      match sqlEval e with
      | none => none
      | some v =>
          if op == sx "-" then
            match v with
            | .null => some .null
            | .int z => some (.int (-z))
            | .text _ => none
          else if op == sx "+" then
            match v with
            | .text _ => none
            | v => some v
          else if op == sx "NOT" then (v.v3).map (fun x => v3ToVal (V3.not x))
          else none
  | .bin op l r =>
      match sqlEval l, sqlEval r with
      | some a, some b =>
          if op == sx "AND" then andVals a b
          else if op == sx "OR" then orVals a b
          else if op == sx "IS" then (if b == .null then some (.int (if a == .null then 1 else 0)) else none)
          else if op == sx "ISNOT" then (if b == .null then some (.int (if a == .null then 0 else 1)) else none)
          else if op == sx "||" then
            match a, b with
            | .null, _ | _, .null => some .null
            | .text x, .text y => some (.text (x ++ y))
            | _, _ => none
          else if isCmpOp op then cmpVals op a b
          else arithVals op a b
      | _, _ => none
  | .like l pat esc =>
      match sqlEval l, sqlEval pat with
      | some .null, some _ | some _, some .null => some .null
      | some (.text h), some (.text p) =>
          let e : Option (Option Char) := match esc with
            | none => some none
            | some [c] => some (some c)
            | some _ => none
          (match e with
           | some ec => some (.int (if sqliteLike p h ec then 1 else 0))
           | none => none)
      | _, _ => none
  | .inl e items =>
      match sqlEval e, sqlEvalList items with
      | some x, some vs => (inVals x vs).map v3ToVal
      | _, _ => none
  | .row _ => none
  | .call name args =>
      match sqlEvalList args with
      | none => none
      | some vs =>
          if name == sx "LENGTH" then
            match vs with
            | [.null] => some .null
            | [.text s] => some (.int s.length)
            | _ => none
          else if name == sx "LOWER" then
            match vs with
            | [.null] => some .null
            | [.text s] => some (.text (s.map lowerA))
            | _ => none
          else if name == sx "UPPER" then
            match vs with
            | [.null] => some .null
            | [.text s] => some (.text (s.map upperA))
            | _ => none
          else if name == sx "TRIM" then
            match vs with
            | [.null] => some .null
            | [.text s] => some (.text (trimSp s))
            | _ => none
          else if name == sx "INSTR" then
            match vs with
            | [.null, _] | [_, .null] => some .null
            | [.text h, .text n] => some (.int (instr h n))
            | _ => none
          else if name == sx "SUBSTR" then
            match vs with
            | [.null, _] | [_, .null] => some .null
            | [.text s, .int st] => (substr s st none).map .text
            | [.null, _, _] | [_, .null, _] | [_, _, .null] => some .null
            | [.text s, .int st, .int ln] => (substr s st (some ln)).map .text
            | _ => none
          else if name == sx "COALESCE" then
            match vs with
            | [.null, b] => some b
            | [a, _] => some a
            | _ => none
          else if name == sx "REPLACE" then
            match vs with
            | [.null, _, _] | [_, .null, _] | [_, _, .null] => some .null
            | [.text s, .text [c], .text r] => some (.text (s.flatMap (fun x => if x == c then r else [x])))
            | _ => none
          else none
  | .cast _ _ => none
  | .extract _ _ => none
  | .position _ _ => none
  | .substring _ _ _ => none
def sqlEvalList : SqlTrees → Option (List SqlVal)
  | .nil => some []
  | .cons h t =>
      match sqlEval h, sqlEvalList t with
      | some a, some as => some (a :: as)
      | _, _ => none
end
end

/-- the row is selected by `WHERE t` -/
def sqliteSelects (ρ : Row) (t : SqlTree) : Option Bool :=
  match sqlEval ρ t with
  | some v => (v.v3).map (· == .tt)
  | none => none

end OQ.Spec
