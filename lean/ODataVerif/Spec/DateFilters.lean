/-
  Spec/DateFilters.lean — the DATE fragment of the filter language as a typed grammar (the date stream of C01–C03 as a type),
  its embedding into the parser's AST, its meaning (three-valued, via Spec/DateSem.lean), and an environment model of what
  SQLite computes for the SQL shapes the SQLite dialect emits for it:

      d cmp 2020-01-01      →   "d" cmp DATE('2020-01-01')               DATE(x) = x for a valid calendar date in ISO form
      d in (l1, l2)         →   "d" IN (DATE('l1'), DATE('l2'))
      year(d) cmp n         →   CAST(STRFTIME('%Y', "d") AS INTEGER) cmp n      likewise %m %d
      and / or / not        →   AND / OR / NOT (Kleene)

  A row stores a date as TEXT in ISO form (what every backend here writes into SQLite).  The evaluator `sqlEvalD` is a model of
  SQLite 3.40's behaviour on these shapes, validated against sqlite3 on every run of C01 (driver command `sqlitedate`); it is
  separate from `Spec.sqlEval` so that the integer / string / Boolean soundness proofs are untouched.
  Core Lean only.
-/
import ODataVerif.Spec.DateSem
import ODataVerif.Spec.SqliteSem
import ODataVerif.Spec.SqlParse
namespace OQ.Spec

def isLeap (y : Nat) : Bool := (y % 4 == 0 && y % 100 != 0) || y % 400 == 0
def daysIn (y m : Nat) : Nat :=
  if m == 2 then (if isLeap y then 29 else 28)
  else if m == 4 || m == 6 || m == 9 || m == 11 then 30 else 31

/-- a calendar date of the proleptic Gregorian calendar with a four-digit year ≥ 1 (what Python's `date` and SQLite agree on) -/
def DateV.valid (a : DateV) : Bool := 1 ≤ a.y && a.y ≤ 9999 && 1 ≤ a.m && a.m ≤ 12 && 1 ≤ a.d && a.d ≤ daysIn a.y a.m

/-- the value of a stored cell: ISO text of a valid date -/
def cellDate (v : Val) : Option DateV :=
  match v with
  | .str s => (match DateV.ofIso s with
               | some a => if a.valid then some a else none
               | none => none)
  | _ => none

/-- the date fragment -/
inductive DateF
  | cmp (k : CmpK) (c : Str) (lit : DateV)            -- `c cmp lit`
  | cmpR (k : CmpK) (lit : DateV) (c : Str)           -- `lit cmp c`
  | inl (c : Str) (lits : List DateV)                 -- `c in (l1, …)`   (at least one literal)
  | part (p : DatePart) (k : CmpK) (c : Str) (n : Nat)    -- `year(c) cmp n`
  | and (l r : DateF)
  | or (l r : DateF)
  | not (e : DateF)
  deriving Repr

def cmpOpOf : CmpK → CmpOp
  | .eq => .eq | .ne => .ne | .lt => .lt | .le => .le | .gt => .gt | .ge => .ge

def dateLit (a : DateV) : Expr := .lit .date a.iso
def colE (c : Str) : Expr := .ident ⟨c, []⟩
def partName : DatePart → Str
  | .year => "year".toList | .month => "month".toList | .day => "day".toList

/-- the parser's AST of a date filter -/
def DateF.toExpr : DateF → Expr
  | .cmp k c l => .compare (cmpOpOf k) (colE c) (dateLit l)
  | .cmpR k l c => .compare (cmpOpOf k) (dateLit l) (colE c)
  | .inl c ls => .compare .in_ (colE c) (.list (Exprs.ofList (ls.map dateLit)))
  | .part p k c n => .compare (cmpOpOf k) (.call ⟨partName p, []⟩ (.cons (colE c) .nil)) (.lit .int (Nat.toDigits 10 n))
  | .and l r => .boolop .and_ l.toExpr r.toExpr
  | .or l r => .boolop .or_ l.toExpr r.toExpr
  | .not e => .unary .not_ e.toExpr

/-- well-formed: literals are valid calendar dates, in-lists are non-empty, column names are what the lexer admits (no `"`) -/
def DateF.wf : DateF → Bool
  | .cmp _ c l => l.valid && !c.contains '"'
  | .cmpR _ l c => l.valid && !c.contains '"'
  | .inl c ls => !ls.isEmpty && ls.all DateV.valid && !c.contains '"'
  | .part _ _ c _ => !c.contains '"'
  | .and l r => l.wf && r.wf
  | .or l r => l.wf && r.wf
  | .not e => e.wf

/-- every date column the filter mentions holds NULL or a valid ISO date in this row -/
def DateF.rowOk (ρ : Row) : DateF → Bool
  | .cmp _ c _ | .cmpR _ _ c | .inl c _ | .part _ _ c _ => ρ.get c == .null || (cellDate (ρ.get c)).isSome
  | .and l r => l.rowOk ρ && r.rowOk ρ
  | .or l r => l.rowOk ρ && r.rowOk ρ
  | .not e => e.rowOk ρ

def flipK : CmpK → CmpK
  | .eq => .eq | .ne => .ne | .lt => .gt | .le => .ge | .gt => .lt | .ge => .le

/-- OData's meaning on a row -/
def evalDF (ρ : Row) : DateF → V3
  | .cmp k c l => dateHolds k l (cellDate (ρ.get c))
  | .cmpR k l c => dateHolds (flipK k) l (cellDate (ρ.get c))
  | .inl c ls => dateIn ls (cellDate (ρ.get c))
  | .part p k c n => datePartHolds p k n (cellDate (ρ.get c))
  | .and l r => V3.and (evalDF ρ l) (evalDF ρ r)
  | .or l r => V3.or (evalDF ρ l) (evalDF ρ r)
  | .not e => V3.not (evalDF ρ e)

/-! ### what SQLite computes -/

/-- `DATE(x)` on TEXT: the same text for a valid ISO date; NULL for NULL; outside the model otherwise
    (SQLite normalises day overflow, accepts date-times, Julian day numbers …) -/
def sqliteDateFn (v : SqlVal) : Option SqlVal :=
  match v with
  | .null => some .null
  | .text s => (match DateV.ofIso s with
                | some a => if a.valid then some (.text s) else none
                | none => none)
  | .int _ => none

/-- `STRFTIME(fmt, x)` for fmt ∈ %Y %m %d on a valid ISO date: the zero-padded field as TEXT -/
def sqliteStrftime (fmt : Str) (v : SqlVal) : Option SqlVal :=
  match v with
  | .null => some .null
  | .text s => (match DateV.ofIso s with
                | some a =>
                    if !a.valid then none
                    else if fmt == sx "%Y" then some (.text (dig4 a.y))
                    else if fmt == sx "%m" then some (.text (dig2 a.m))
                    else if fmt == sx "%d" then some (.text (dig2 a.d))
                    else none
                | none => none)
  | .int _ => none

/-- `CAST(x AS INTEGER)` on a TEXT of decimal digits -/
def sqliteCastInt (v : SqlVal) : Option SqlVal :=
  match v with
  | .null => some .null
  | .int z => some (.int z)
  | .text s => if s.all isDig && !s.isEmpty then some (.int (natOfDigits s)) else none

section
variable (ρ : Row)
mutual
def sqlEvalD : SqlTree → Option SqlVal
  | .col none name => some (SqlVal.ofVal (ρ.get name))
  | .str s => some (.text s)
  | .num s => if s.all isDig && !s.isEmpty then some (.int (natOfDigits s)) else none
  | .un op e =>
      if op == sx "NOT" then
        match sqlEvalD e with
        | some v => (v.v3).map (fun x => v3ToVal (V3.not x))
        | none => none
      else none
  | .bin op l r =>
      match sqlEvalD l, sqlEvalD r with
      | some a, some b =>
          if op == sx "AND" then andVals a b
          else if op == sx "OR" then orVals a b
          else if isCmpOp op then cmpVals op a b
          else none
      | _, _ => none
  | .inl e items =>
      match sqlEvalD e, sqlEvalDList items with
      | some x, some vs => (inVals x vs).map v3ToVal
      | _, _ => none
  | .call name args =>
      match sqlEvalDList args with
      | some [v] => if name == sx "DATE" then sqliteDateFn v else none
      | some [.text fmt, v] => if name == sx "STRFTIME" then sqliteStrftime fmt v else none
      | _ => none
  | .cast e ty =>
      if ty == sx "INTEGER" then
        match sqlEvalD e with
        | some v => sqliteCastInt v
        | none => none
      else none
  | _ => none
def sqlEvalDList : SqlTrees → Option (List SqlVal)
  | .nil => some []
  | .cons h t =>
      match sqlEvalD h, sqlEvalDList t with
      | some v, some vs => some (v :: vs)
      | _, _ => none
end
end

def sqliteSelectsD (ρ : Row) (t : SqlTree) : Option Bool :=
  match sqlEvalD ρ t with
  | some v => (v.v3).map (· == .tt)
  | none => none

example : (DateV.mk 2020 2 29).valid = true ∧ (DateV.mk 2021 2 29).valid = false ∧ (DateV.mk 1900 2 29).valid = false := by decide

end OQ.Spec
