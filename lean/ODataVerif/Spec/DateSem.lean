/-
  Spec/DateSem.lean — reference semantics of Edm.Date values in filters: comparison, membership, and the extraction functions
  year / month / day (OData 4.01 Part 2 §5.1.1.8), plus hour / minute / second on a clock value.  A date is the triple (y, m, d); the order
  is chronological.  `iso` is the ISO-8601 spelling every backend here stores in SQLite (TEXT) and every literal is written in; the
  theorem `DateSem.iso_order` (Props/DateOrder.lean) shows that ordinal string comparison of the spellings IS the chronological order —
  which is why comparing the stored texts is right.

  Like Spec/NumFn.lean this extends the JUDGE of C01 / C02 / C03 (date stream) beyond the integer / string / Boolean grammar of the
  soundness theorems.  Core Lean only.
-/
import ODataVerif.Spec.ODataSem
namespace OQ.Spec

structure DateV where
  y : Nat
  m : Nat
  d : Nat
  deriving DecidableEq, Repr

structure ClockV where
  h : Nat
  mi : Nat
  s : Nat
  deriving DecidableEq, Repr

def DateV.lt (a b : DateV) : Bool :=
  a.y < b.y || (a.y == b.y && (a.m < b.m || (a.m == b.m && a.d < b.d)))

def cmpDate (k : CmpK) (a b : DateV) : Bool :=
  match k with
  | .eq => a == b | .ne => a != b | .lt => a.lt b | .le => !b.lt a | .gt => b.lt a | .ge => !a.lt b

/-- decimal digit character -/
def digitChar (k : Nat) : Char := Char.ofNat (48 + k % 10)
def dig2 (n : Nat) : Str := [digitChar (n / 10), digitChar n]
def dig4 (n : Nat) : Str := [digitChar (n / 1000), digitChar (n / 100), digitChar (n / 10), digitChar n]

/-- `YYYY-MM-DD` -/
def DateV.iso (a : DateV) : Str := dig4 a.y ++ '-' :: dig2 a.m ++ '-' :: dig2 a.d

def DateV.wf (a : DateV) : Bool := a.y < 10000 && a.m < 100 && a.d < 100

def digitVal (c : Char) : Option Nat := if '0' ≤ c ∧ c ≤ '9' then some (c.toNat - 48) else none

/-- read `YYYY-MM-DD` (ASCII digits) -/
def DateV.ofIso : Str → Option DateV
  | [y1, y2, y3, y4, '-', m1, m2, '-', d1, d2] =>
      match digitVal y1, digitVal y2, digitVal y3, digitVal y4, digitVal m1, digitVal m2, digitVal d1, digitVal d2 with
      | some a, some b, some c, some d, some e, some f, some g, some h => some ⟨a * 1000 + b * 100 + c * 10 + d, e * 10 + f, g * 10 + h⟩
      | _, _, _, _, _, _, _, _ => none
  | _ => none

inductive DatePart | year | month | day
  deriving DecidableEq, Repr
inductive ClockPart | hour | minute | second
  deriving DecidableEq, Repr

def DateV.part (a : DateV) : DatePart → Nat
  | .year => a.y | .month => a.m | .day => a.d
def ClockV.part (c : ClockV) : ClockPart → Nat
  | .hour => c.h | .minute => c.mi | .second => c.s

/-- `col cmp literal` on a cell (NULL = none): three-valued -/
def dateHolds (k : CmpK) (lit : DateV) (cell : Option DateV) : V3 :=
  match cell with
  | none => .unk
  | some v => V3.ofBool (cmpDate k v lit)

/-- `col in (l1, …)` : Kleene disjunction of equalities -/
def dateIn (lits : List DateV) (cell : Option DateV) : V3 :=
  match cell with
  | none => .unk
  | some v => V3.ofBool (lits.contains v)

/-- `part(col) cmp n` -/
def datePartHolds (p : DatePart) (k : CmpK) (n : Int) (cell : Option DateV) : V3 :=
  match cell with
  | none => .unk
  | some v => V3.ofBool (cmpInt k (v.part p) n)
def clockPartHolds (p : ClockPart) (k : CmpK) (n : Int) (cell : Option ClockV) : V3 :=
  match cell with
  | none => .unk
  | some v => V3.ofBool (cmpInt k (v.part p) n)

example : (DateV.mk 2020 2 29).iso = "2020-02-29".toList := by decide
example : DateV.ofIso "0999-12-31".toList = some ⟨999, 12, 31⟩ := by decide
example : (DateV.mk 999 12 31).lt ⟨1000, 1, 1⟩ = true ∧ strLt (DateV.mk 999 12 31).iso (DateV.mk 1000 1 1).iso = true := by decide
end OQ.Spec
