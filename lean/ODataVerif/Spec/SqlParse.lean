/-
  Spec/SqlParse.lean — an independent reader of SQL boolean / scalar expressions: a precedence-climbing
  parser over `SqlTok` with the operator precedence SQL-92, SQLite and Presto/Athena share

      OR  <  AND  <  NOT (prefix)  <  comparison · IS · IN · LIKE  <  + -  <  * / %  <  unary + -

  and REJECTION of every text whose reading the dialects do not agree on:
    * a chain of comparison-level operators without parentheses (`a = b = c`, `x LIKE p = 1`):
      SQLite gives `<` `<=` a higher precedence than `=`, SQL-92 does not let them chain at all;
    * `||` mixed with arithmetic without parentheses (`a + b || c`): SQLite binds `||` tightest, Presto
      loosest among the arithmetic operators;
    * `NOT` where a comparison operand is expected (`a = NOT b`);
    * bare (unquoted) identifiers, `CASE`, sub-queries, anything not listed below.
  Special forms read as atoms:  NAME(args) · CAST(e AS T) · EXTRACT(PART FROM e) · POSITION(e IN e) ·
  SUBSTRING(e FROM e [FOR e]) · DATE/TIME/TIMESTAMP 'text' · INTERVAL 'n' UNIT · ( e ) · ( e, e, … ).
  Written from the SQL grammars, never from the library.  Core Lean only.
-/
import ODataVerif.Spec.SqlLex
namespace OQ.Spec

mutual
inductive SqlTree
  | col (qual : Option Str) (name : Str)
  | str (s : Str)
  | num (s : Str)
  | kw (w : Str)                              -- NULL TRUE FALSE CURRENT_TIMESTAMP
  | typed (kind : Str) (text : Str)           -- DATE '…'   TIME '…'   TIMESTAMP '…'
  | interval (n : Str) (unit : Str)           -- INTERVAL '1' DAY
  | un (op : Str) (e : SqlTree)               -- "-"  "+"  "NOT"
  | bin (op : Str) (l r : SqlTree)            -- + - * / % || = != <> < <= > >= AND OR IS ISNOT
  | like (l pat : SqlTree) (esc : Option Str)
  | inl (e : SqlTree) (items : SqlTrees)
  | row (items : SqlTrees)                    -- ( a , b , … )  — zero or ≥ 2 items
  | call (name : Str) (args : SqlTrees)
  | cast (e : SqlTree) (ty : Str)
  | extract (part : Str) (e : SqlTree)
  | position (needle hay : SqlTree)
  | substring (s start : SqlTree) (len : OptSql)
  deriving DecidableEq, Repr
inductive SqlTrees
  | nil
  | cons (h : SqlTree) (t : SqlTrees)
  deriving DecidableEq, Repr
inductive OptSql
  | none
  | some (e : SqlTree)
  deriving DecidableEq, Repr
end

def SqlTrees.ofList : List SqlTree → SqlTrees
  | [] => .nil
  | h :: t => .cons h (ofList t)
def SqlTrees.toList : SqlTrees → List SqlTree
  | .nil => []
  | .cons h t => h :: t.toList

def wd (s : String) : SqlTok := .word s.toList
def opT (s : String) : SqlTok := .op s.toList

def cmpOps : List String := ["=", "!=", "<>", "<", "<=", ">", ">="]
def isCmpOp (s : Str) : Bool := cmpOps.contains (String.ofList s)
def isAddOp (s : Str) : Bool := s == ['+'] || s == ['-']
def isMulOp (s : Str) : Bool := s == ['*'] || s == ['/'] || s == ['%']
def isCatOp (s : Str) : Bool := s == ['|', '|']

def isArithTree : SqlTree → Bool
  | .bin op _ _ => isAddOp op || isMulOp op
  | _ => false
def isCatTree : SqlTree → Bool
  | .bin op _ _ => isCatOp op
  | _ => false

/-- the next token continues a comparison-level expression (so a comparison just read would chain) -/
def cmpHead : List SqlTok → Bool
  | .op s :: _ => isCmpOp s
  | .word s :: _ => s == "IS".toList || s == "IN".toList || s == "LIKE".toList
  | _ => false

def kwAtoms : List String := ["NULL", "TRUE", "FALSE", "CURRENT_TIMESTAMP"]
def typedKinds : List String := ["DATE", "TIME", "TIMESTAMP"]

abbrev PRes := Option (SqlTree × Bool × List SqlTok)   -- tree, "is an atom / parenthesised", rest

mutual
/-- an expression whose operators all have level ≥ `m` -/
def pExpr : Nat → Nat → List SqlTok → PRes
  | 0, _, _ => none
  | f + 1, m, ts =>
      match pPrefix f m ts with
      | some (t, a, r) => pLoop f m t a r
      | none => none

def pLoop : Nat → Nat → SqlTree → Bool → List SqlTok → PRes
  | 0, _, _, _, _ => none
  | f + 1, m, lhs, atomic, ts =>
      match ts with
      | .word wv :: r =>
          if wv == "OR".toList then
            if m ≤ 1 then
              match pExpr f 2 r with
              | some (rhs, _, r') => pLoop f m (.bin wv lhs rhs) false r'
              | none => none
            else some (lhs, atomic, ts)
          else if wv == "AND".toList then
            if m ≤ 2 then
              match pExpr f 3 r with
              | some (rhs, _, r') => pLoop f m (.bin wv lhs rhs) false r'
              | none => none
            else some (lhs, atomic, ts)
          else if wv == "IS".toList then
            if m ≤ 4 then
              let (neg, r1) := match r with
                | .word n :: r1 => if n == "NOT".toList then (true, r1) else (false, r)
                | _ => (false, r)
              match pExpr f 5 r1 with
              | some (rhs, _, r') =>
                  if cmpHead r' then none
                  else pLoop f m (.bin (if neg then "ISNOT".toList else "IS".toList) lhs rhs) false r'
              | none => none
            else some (lhs, atomic, ts)
          else if wv == "IN".toList then
            if m ≤ 4 then
              match r with
              | .lp :: r1 =>
                  match pArgs f r1 with
                  | some (items, r') => if cmpHead r' then none else pLoop f m (.inl lhs items) false r'
                  | none => none
              | _ => none
            else some (lhs, atomic, ts)
          else if wv == "LIKE".toList then
            if m ≤ 4 then
              match pExpr f 5 r with
              | some (pat, _, r') =>
                  match r' with
                  | .word e :: .str c :: r'' =>
                      if e == "ESCAPE".toList then
                        if cmpHead r'' then none else pLoop f m (.like lhs pat (some c)) false r''
                      else if cmpHead r' then none else pLoop f m (.like lhs pat none) false r'
                  | _ => if cmpHead r' then none else pLoop f m (.like lhs pat none) false r'
              | none => none
            else some (lhs, atomic, ts)
          else some (lhs, atomic, ts)
      | .op s :: r =>
          if isCmpOp s then
            if m ≤ 4 then
              match pExpr f 5 r with
              | some (rhs, _, r') => if cmpHead r' then none else pLoop f m (.bin s lhs rhs) false r'
              | none => none
            else some (lhs, atomic, ts)
          else if isAddOp s || isCatOp s then
            if m ≤ 5 then
              match pExpr f 6 r with
              | some (rhs, ra, r') =>
                  let bad :=
                    if isCatOp s then (!atomic && isArithTree lhs) || (!ra && isArithTree rhs)
                    else (!atomic && isCatTree lhs) || (!ra && isCatTree rhs)
                  if bad then none else pLoop f m (.bin s lhs rhs) false r'
              | none => none
            else some (lhs, atomic, ts)
          else if isMulOp s then
            if m ≤ 6 then
              match pExpr f 7 r with
              | some (rhs, ra, r') =>
                  if (!atomic && isCatTree lhs) || (!ra && isCatTree rhs) then none
                  else pLoop f m (.bin s lhs rhs) false r'
              | none => none
            else some (lhs, atomic, ts)
          else none
      | _ => some (lhs, atomic, ts)

def pPrefix : Nat → Nat → List SqlTok → PRes
  | 0, _, _ => none
  | f + 1, m, ts =>
      match ts with
      | .num s :: r => some (.num s, true, r)
      | .str s :: r => some (.str s, true, r)
      | .qid a :: .dot :: .qid b :: r => some (.col (some a) b, true, r)
      | .qid a :: r => some (.col none a, true, r)
      | .op s :: r =>
          if isAddOp s then
            match pExpr f 7 r with
            | some (e, _, r') => some (.un s e, false, r')
            | none => none
          else none
      | .lp :: r =>
          match pArgs f r with
          | some (.cons e .nil, r') => some (e, true, r')
          | some (items, r') => some (.row items, true, r')
          | none => none
      | .word wv :: r =>
          if wv == "NOT".toList then
            if m ≤ 3 then
              match pExpr f 3 r with
              | some (e, _, r') => some (.un wv e, false, r')
              | none => none
            else none
          else if wv == "CAST".toList then
            match r with
            | .lp :: r1 =>
                match pExpr f 0 r1 with
                | some (e, _, .word as_ :: .word ty :: .rp :: r') =>
                    if as_ == "AS".toList then some (.cast e ty, true, r') else none
                | _ => none
            | _ => none
          else if wv == "EXTRACT".toList then
            match r with
            | .lp :: .word part :: .word from_ :: r1 =>
                if from_ == "FROM".toList then
                  match pExpr f 0 r1 with
                  | some (e, _, .rp :: r') => some (.extract part e, true, r')
                  | _ => none
                else none
            | _ => none
          else if wv == "POSITION".toList then
            match r with
            | .lp :: r1 =>
                match pExpr f 5 r1 with
                | some (needle, _, .word in_ :: r2) =>
                    if in_ == "IN".toList then
                      match pExpr f 5 r2 with
                      | some (hay, _, .rp :: r') => some (.position needle hay, true, r')
                      | _ => none
                    else none
                | _ => none
            | _ => none
          else if wv == "SUBSTRING".toList then
            match r with
            | .lp :: r1 =>
                match pExpr f 5 r1 with
                | some (s, _, .word from_ :: r2) =>
                    if from_ == "FROM".toList then
                      match pExpr f 5 r2 with
                      | some (st, _, .rp :: r') => some (.substring s st .none, true, r')
                      | some (st, _, .word for_ :: r3) =>
                          if for_ == "FOR".toList then
                            match pExpr f 5 r3 with
                            | some (ln, _, .rp :: r') => some (.substring s st (.some ln), true, r')
                            | _ => none
                          else none
                      | _ => none
                    else none
                | _ => none
            | _ => none
          else if wv == "INTERVAL".toList then
            match r with
            | .str n :: .word u :: r' => some (.interval n u, true, r')
            | _ => none
          else
            match r with
            | .lp :: r1 =>
                match pArgs f r1 with
                | some (args, r') => some (.call wv args, true, r')
                | none => none
            | .str s :: r' =>
                if typedKinds.contains (String.ofList wv) then some (.typed wv s, true, r') else none
            | _ => if kwAtoms.contains (String.ofList wv) then some (.kw wv, true, r) else none
      | _ => none

/-- comma-separated expressions up to and including the closing parenthesis -/
def pArgs : Nat → List SqlTok → Option (SqlTrees × List SqlTok)
  | 0, _ => none
  | f + 1, ts =>
      match ts with
      | .rp :: r => some (.nil, r)
      | _ =>
          match pExpr f 0 ts with
          | some (e, _, .comma :: r) =>
              match pArgs f r with
              | some (rest, r') => some (.cons e rest, r')
              | none => none
          | some (e, _, .rp :: r) => some (.cons e .nil, r)
          | _ => none
end

def sqlFuel (ts : List SqlTok) : Nat := 4 * ts.length + 8

/-- read a whole token list as one expression; `none` = not a well-formed expression -/
def sqlParse (ts : List SqlTok) : Option SqlTree :=
  match pExpr (sqlFuel ts) 0 ts with
  | some (t, _, []) => some t
  | _ => none

def sqlRead (s : Str) : Option SqlTree := (sqlLex s).bind sqlParse

end OQ.Spec
