/-
  Spec/OrmSql.lean — environment models: the SQL expression Django 6.1 / SQLAlchemy 2.0 compile, on SQLite, for
  the expression objects the library hands them (`OTree`, Model/Orm.lean), for the scalar fragment with a formal
  semantics (integers, strings, Booleans, NULL).  Hand-written from the two compilers' behaviour, VALIDATED on
  every run of the C02 / C03 checks (the shorthands are executed on in-memory SQLite and the selected rows are
  compared with `sqliteSelects` of these trees), and part of the trusted base.  `none` = outside the model
  (floats, dates, functions SQLite lacks, …).

  Django:      lookups → `=`, `<>`, `<`, …, `IN`, `IS [NOT] NULL`;  `~Q` → `NOT (…)`;  contains / startswith / endswith →
               `x LIKE '%' || REPLACE(REPLACE(REPLACE(y, '\', '\\'), '%', '\%'), '_', '\_') || '%' ESCAPE '\'`;
               Concat → `COALESCE(a, '') || COALESCE(b, '')`;  StrIndex → INSTR;  Substr → SUBSTR;  `/` `%` as written.
  SQLAlchemy:  `== null()` → `IS NULL`;  `~x` → `NOT x` (or the negated comparison, which is the same in 3VL);
               contains(y) → `x LIKE '%' || y || '%'`, with `ESCAPE '/'` and `/`-escaped text when autoescape was
               requested (literal with a wildcard);  `/` is true division (floating point: outside the model);
               char_length → LENGTH;  ltrim(rtrim(x)) = TRIM(x) for U+0020;  strpos / concat do not exist on SQLite.
-/
import ODataVerif.Model.Orm
import ODataVerif.Spec.SqliteSem
namespace OQ.Spec

def strT (s : String) : SqlTree := .str s.toList
def call1 (n : String) (a : SqlTree) : SqlTree := .call n.toList (.cons a .nil)
def call2 (n : String) (a b : SqlTree) : SqlTree := .call n.toList (.cons a (.cons b .nil))
def call3 (n : String) (a b c : SqlTree) : SqlTree := .call n.toList (.cons a (.cons b (.cons c .nil)))

def intTree (z : Int) : SqlTree :=
  if z < 0 then .un ['-'] (.num (toString z.natAbs).toList) else .num (toString z.natAbs).toList

/-- a bound parameter as the SQL value it carries (integers and strings; Booleans as 0 / 1) -/
def paramTree (k : LitKind) (v : Str) : Option SqlTree :=
  match k with
  | .null => some (.kw "NULL".toList)
  | .int =>
      (match v with
       | '-' :: ds => if !ds.isEmpty && ds.all isDig then some (.un ['-'] (.num ds)) else none
       | ds => if !ds.isEmpty && ds.all isDig then some (.num ds) else none)
  | .str => some (.str v)
  | .bool => some (.num (if v.map lowerA == "true".toList then ['1'] else ['0']))
  | _ => none

def binName (op : String) : Option Str :=
  match op with
  | "+" | "-" | "*" | "%" => some op.toList
  | "exact" => some "=".toList
  | "ne" => some "<>".toList
  | "lt" => some "<".toList
  | "lte" => some "<=".toList
  | "gt" => some ">".toList
  | "gte" => some ">=".toList
  | "and" => some "AND".toList
  | "or" => some "OR".toList
  | _ => none

def likePre (op : String) : Option (Str × Str) :=
  match op with
  | "contains" | "contains_autoescape" => some (['%'], ['%'])
  | "startswith" | "startswith_autoescape" => some ([], ['%'])
  | "endswith" | "endswith_autoescape" => some (['%'], [])
  | _ => none
def isAutoescape (op : String) : Bool :=
  op == "contains_autoescape" || op == "startswith_autoescape" || op == "endswith_autoescape"

/-- `pre || x || suf` with the empty sides left out -/
def catPat (pre suf : Str) (x : SqlTree) : SqlTree :=
  let t := if pre.isEmpty then x else .bin "||".toList (.str pre) x
  if suf.isEmpty then t else .bin "||".toList t (.str suf)

/-- Django's `REPLACE(REPLACE(REPLACE(y, '\', '\\'), '%', '\%'), '_', '\_')` -/
def djEscape (y : SqlTree) : SqlTree :=
  call3 "REPLACE" (call3 "REPLACE" (call3 "REPLACE" y (strT "\\") (strT "\\\\")) (strT "%") (strT "\\%")) (strT "_") (strT "\\_")

mutual
/-- the SQL Django compiles for the tree -/
def djSql : OTree → Option SqlTree
  | .col [c] => some (.col none c)
  | .col _ => none
  | .param k v => paramTree k v
  | .pint z => some (intTree z)
  | .const _ => none
  | .node op args =>
      match op, args with
      | "list", _ => none
      | "isnull", .cons a .nil => (djSql a).map (fun x => .bin "IS".toList x (.kw "NULL".toList))
      | "notnull", .cons a .nil => (djSql a).map (fun x => .bin "ISNOT".toList x (.kw "NULL".toList))
      | "not", .cons a .nil => (djSql a).map (fun x => .un "NOT".toList x)
      | "in", .cons a (.cons (.node "list" items) .nil) =>
          (match djSql a, djSqlList items with
           | some x, some xs => some (.inl x xs)
           | _, _ => none)
      | "/", .cons a (.cons b .nil) =>
          (match djSql a, djSql b with
           | some x, some y => some (.bin "/".toList x y)
           | _, _ => none)
      | "Length", .cons a .nil => (djSql a).map (call1 "LENGTH")
      | "Lower", .cons a .nil => (djSql a).map (call1 "LOWER")
      | "Upper", .cons a .nil => (djSql a).map (call1 "UPPER")
      | "Trim", .cons a .nil => (djSql a).map (call1 "TRIM")
      | "Concat", .cons a (.cons b .nil) =>
          (match djSql a, djSql b with
           | some x, some y => some (.bin "||".toList (call2 "COALESCE" x (strT "")) (call2 "COALESCE" y (strT "")))
           | _, _ => none)
      | "StrIndex", .cons a (.cons b .nil) =>
          (match djSql a, djSql b with
           | some x, some y => some (call2 "INSTR" x y)
           | _, _ => none)
      | "Substr", .cons a (.cons b .nil) =>
          (match djSql a, djSql b with
           | some x, some y => some (call2 "SUBSTR" x y)
           | _, _ => none)
      | "Substr", .cons a (.cons b (.cons c .nil)) =>
          (match djSql a, djSql b, djSql c with
           | some x, some y, some z => some (call3 "SUBSTR" x y z)
           | _, _, _ => none)
      | op, .cons a (.cons b .nil) =>
          (match djSql a, djSql b with
           | some x, some y =>
               (match likePre op with
                | some (pre, suf) => some (.like x (catPat pre suf (djEscape y)) (some ['\\']))
                | none => (binName op).map (fun o => .bin o x y))
           | _, _ => none)
      | _, _ => none
def djSqlList : OTrees → Option SqlTrees
  | .nil => some .nil
  | .cons h t =>
      match djSql h, djSqlList t with
      | some x, some xs => some (.cons x xs)
      | _, _ => none
end

/-- SQLAlchemy's autoescape: `/` before `%`, `_` and `/` -/
def saEscape : Str → Str
  | [] => []
  | c :: t => if c == '%' || c == '_' || c == '/' then '/' :: c :: saEscape t else c :: saEscape t

def needsAutoescape (v : Str) : Bool := v.contains '%' || v.contains '_' || v.contains '/'

def isNullConst : OTree → Bool
  | .const "NULL" => true
  | _ => false

mutual
/-- the SQL SQLAlchemy compiles for the tree (SQLite dialect) -/
def saSql : OTree → Option SqlTree
  | .col [c] => some (.col none c)
  | .col _ => none
  | .param k v => paramTree k v
  | .pint z => some (intTree z)
  | .const c =>
      (match c with
       | "TRUE" => some (.num ['1'])
       | "FALSE" => some (.num ['0'])
       | "NULL" => some (.kw "NULL".toList)
       | _ => none)
  | .node op args =>
      match op, args with
      | "list", _ => none
      | "not", .cons a .nil => (saSql a).map (fun x => .un "NOT".toList x)
      | "in", .cons a (.cons (.node "list" items) .nil) =>
          (match saSql a, saSqlList items with
           | some x, some xs => some (.inl x xs)
           | _, _ => none)
      | "char_length", .cons a .nil => (saSql a).map (call1 "LENGTH")
      | "lower", .cons a .nil => (saSql a).map (call1 "LOWER")
      | "upper", .cons a .nil => (saSql a).map (call1 "UPPER")
      | "ltrim", .cons (.node "rtrim" (.cons a .nil)) .nil => (saSql a).map (call1 "TRIM")
      | "substr", .cons a (.cons b .nil) =>
          (match saSql a, saSql b with
           | some x, some y => some (call2 "SUBSTR" x y)
           | _, _ => none)
      | "substr", .cons a (.cons b (.cons c .nil)) =>
          (match saSql a, saSql b, saSql c with
           | some x, some y, some z => some (call3 "SUBSTR" x y z)
           | _, _, _ => none)
      | "exact", .cons a (.cons b .nil) =>
          (match saSql a, saSql b with
           | some x, some y =>
               if isNullConst b then some (.bin "IS".toList x y)
               else if isNullConst a then some (.bin "IS".toList y x)
               else some (.bin "=".toList x y)
           | _, _ => none)
      | "ne", .cons a (.cons b .nil) =>
          (match saSql a, saSql b with
           | some x, some y =>
               if isNullConst b then some (.bin "ISNOT".toList x y)
               else if isNullConst a then some (.bin "ISNOT".toList y x)
               else some (.bin "!=".toList x y)
           | _, _ => none)
      | op, .cons a (.cons b .nil) =>
          (match likePre op with
           | some (pre, suf) =>
               (match saSql a, saSql b with
                | some x, some p =>
                    (match isAutoescape op, b with
                     | true, .param .str v => some (.like x (catPat pre suf (.str (saEscape v))) (some ['/']))
                     | true, _ => none
                     | false, _ => some (.like x (catPat pre suf p) none))
                | _, _ => none)
           | none =>
               (match saSql a, saSql b with
                | some x, some y => (binName op).map (fun o => .bin o x y)
                | _, _ => none))
      | _, _ => none
def saSqlList : OTrees → Option SqlTrees
  | .nil => some .nil
  | .cons h t =>
      match saSql h, saSqlList t with
      | some x, some xs => some (.cons x xs)
      | _, _ => none
end

end OQ.Spec
