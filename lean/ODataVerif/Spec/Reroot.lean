/-
  Spec/Reroot.lean — what C17 demands: on the (root, segments) view of paths, "x/a becomes a,
  x/a/b becomes a/b", every other node unchanged.  Written from the property text.
-/
import ODataVerif.Model.Basic
import ODataVerif.Model.Rewrite
namespace OQ.Spec

/-- peel a chain of `Attribute` nodes: the root it hangs off and the segment names, outermost last -/
def pathView : Tree → Tree × List Str
  | .node k (.cons owner (.cons (.str a) .nil)) =>
      if k = "Attribute" then ((pathView owner).1, (pathView owner).2 ++ [a])
      else (.node k (.cons owner (.cons (.str a) .nil)), [])
  | t => (t, [])

/-- hang segment names off a root -/
def buildPath (r : Tree) (ss : List Str) : Tree := ss.foldl mkAttr r

/-- a path is re-rooted one step down when (and only when) its root is the variable -/
def rerootPath (x t : Tree) : Tree :=
  if (pathView t).1 = x then
    match (pathView t).2 with
    | s :: rest => buildPath (mkIdent s) rest
    | [] => t
  else t

mutual
def reroot (x : Tree) : Tree → Tree
  | .node k fs => if isAttr (.node k fs) then rerootPath x (.node k fs) else .node k (rerootList x fs)
  | .list items => .list (rerootList x items)
  | t => t
def rerootList (x : Tree) : TreeList → TreeList
  | .nil => .nil
  | .cons h t => .cons (reroot x h) (rerootList x t)
end

mutual
/-- does some path hang directly off `x`? -/
def mentions (x : Tree) : Tree → Bool
  | .node k fs => (isAttr (.node k fs) && (pathView (.node k fs)).1 == x) || mentionsList x fs
  | .list items => mentionsList x items
  | _ => false
def mentionsList (x : Tree) : TreeList → Bool
  | .nil => false
  | .cons h t => mentions x h || mentionsList x t
end

end OQ.Spec
