/-
  Spec/RelElab.lean — reading a parser AST as a relational filter (Spec/RelSem.lean `RCond`): to-one paths become
  path-qualified column keys ("o/n"), `path/coll/any(...)` / `all(...)` become lambda nodes whose body is made relative
  to the lambda variable BY THE SPECIFICATION'S OWN RULE (drop the leading variable segment), scalar leaves are typed by
  a column-kind function supplied by the schema.  Also the verification schema used by the C04 / C15 checks.
-/
import ODataVerif.Spec.RelSem
import ODataVerif.Spec.ODataElab
namespace OQ.Spec

/-- the segments of a path expression `a/b/c` -/
def pathSegs : Expr → Option (List Str)
  | .ident ⟨c, []⟩ => some [c]
  | .attr o n => (pathSegs o).map (· ++ [n])
  | _ => none

section
variable (kindOf : Str → Option ColK)     -- kind of a column by its (last-segment) name
variable (var : Option Str)               -- lambda variable in scope: a path starting with it is relative to the child row

/-- column key of a path, relative to the lambda variable if there is one -/
def keyOf (e : Expr) : Option (Str × Str) :=       -- (key, last segment)
  match pathSegs e with
  | some segs =>
      let segs := match var, segs with
        | some v, s :: rest => if s == v && !rest.isEmpty then rest else segs
        | _, _ => segs
      (match segs.reverse with
       | last :: _ => some (joinSlash segs, last)
       | [] => none)
  | none => none

def colOfKind (k : ColK) (e : Expr) : Option Str :=
  match keyOf var e with
  | some (key, last) => if kindOf last == some k then some key else none
  | none => none

mutual
def relI : Expr → Option IntE
  | .lit .int ('-' :: ds) => if asciiDigits ds then some (.lit true ds) else none
  | .lit .int ds => if asciiDigits ds then some (.lit false ds) else none
  | .ident i => (colOfKind kindOf var .int (.ident i)).map .col
  | .attr o n => (colOfKind kindOf var .int (.attr o n)).map .col
  | .unary .neg e => (relI e).map .neg
  | .binop k l r =>
      match relI l, relI r with
      | some a, some b => some (.arith (arKOf k) a b)
      | _, _ => none
  | .call ⟨n, []⟩ (.cons a .nil) => if n == "length".toList then (relS a).map .length else none
  | _ => none
def relS : Expr → Option StrE
  | .lit .str s => some (.lit s)
  | .ident i => (colOfKind kindOf var .str (.ident i)).map .col
  | .attr o n => (colOfKind kindOf var .str (.attr o n)).map .col
  | .call ⟨n, []⟩ (.cons a .nil) =>
      if n == "tolower".toList then (relS a).map .tolower
      else if n == "toupper".toList then (relS a).map .toupper
      else none
  | _ => none
end

def relIs : Exprs → Option (List IntE)
  | .nil => some []
  | .cons h t =>
      match relI kindOf var h, relIs t with
      | some a, some as => some (a :: as)
      | _, _ => none
def relSs : Exprs → Option (List StrE)
  | .nil => some []
  | .cons h t =>
      match relS kindOf var h, relSs t with
      | some a, some as => some (a :: as)
      | _, _ => none

/-- scalar leaves -/
def relLeaf : Expr → Option BoolE
  | .compare .in_ l (.list xs) =>
      match relI kindOf var l, relIs kindOf var xs with
      | some a, some as => if as.isEmpty then none else some (.inI a as)
      | _, _ =>
          match relS kindOf var l, relSs kindOf var xs with
          | some a, some as => if as.isEmpty then none else some (.inS a as)
          | _, _ => none
  | .compare op l (.lit .null _) =>
      match keyOf var l with
      | some (key, last) =>
          (match kindOf last, op with
           | some k, .eq => some (.isNull k key false)
           | some k, .ne => some (.isNull k key true)
           | _, _ => none)
      | none => none
  | .compare op l r =>
      match cmpKOf op with
      | none => none
      | some k =>
          match relI kindOf var l, relI kindOf var r with
          | some a, some b => some (.cmpI k a b)
          | _, _ =>
              match relS kindOf var l, relS kindOf var r with
              | some a, some b => some (.cmpS k a b)
              | _, _ => none
  | .call ⟨n, []⟩ (.cons a (.cons b .nil)) =>
      match likeKOf n, relS kindOf var a, relS kindOf var b with
      | some k, some x, some y => some (.like k x y)
      | _, _, _ => none
  | _ => none
end

/-- split the owner of a lambda into its to-one prefix and the collection name, relative to the variable in scope -/
def ownerOf (var : Option Str) (e : Expr) : Option (List Str × Str) :=
  match pathSegs e with
  | some segs =>
      let segs := match var, segs with
        | some v, s :: rest => if s == v && !rest.isEmpty then rest else segs
        | _, _ => segs
      (match segs.reverse with
       | coll :: revPath => some (revPath.reverse, coll)
       | [] => none)
  | none => none

mutual
/-- the first segments of all paths / identifiers of an expression (lambda variables are looked for among them) -/
def pathHeads : Expr → List Str
  | .ident i => [i.name]
  | .attr o _ => pathHeads o
  | .lit _ _ => []
  | .list xs => pathHeadsList xs
  | .binop _ l r | .compare _ l r | .boolop _ l r => pathHeads l ++ pathHeads r
  | .unary _ e => pathHeads e
  | .named _ e => pathHeads e
  | .call _ args => pathHeadsList args
  | .coll o _ l => pathHeads o ++ pathHeadsLam l
def pathHeadsList : Exprs → List Str
  | .nil => []
  | .cons h t => pathHeads h ++ pathHeadsList t
def pathHeadsLam : OptLam → List Str
  | .none => []
  | .some _ b => pathHeads b
end

/-- the relational filter an AST denotes.  `outer` lists the lambda variables of ENCLOSING lambdas: a reference to one of them
    from inside a nested lambda (a correlated inner predicate) is outside the grammar (`none`). -/
def elabRAux (kindOf : Str → Option ColK) : List Str → Option Str → Expr → Option RCond
  | outer, var, .boolop .and_ l r =>
      (match elabRAux kindOf outer var l, elabRAux kindOf outer var r with
       | some a, some b => some (.and a b)
       | _, _ => none)
  | outer, var, .boolop .or_ l r =>
      (match elabRAux kindOf outer var l, elabRAux kindOf outer var r with
       | some a, some b => some (.or a b)
       | _, _ => none)
  | outer, var, .unary .not_ e => (elabRAux kindOf outer var e).map .not
  | outer, var, .coll ow .any .none =>
      if (pathHeads ow).any (fun h => outer.contains h) then none
      else (ownerOf var ow).map (fun p => .nonEmpty p.1 p.2)
  | outer, var, .coll ow op (.some v body) =>
      if (pathHeads ow).any (fun h => outer.contains h) then none
      else
        let outer' := match var with
          | some x => x :: outer
          | none => outer
        (match ownerOf var ow, elabRAux kindOf outer' (some v.name) body with
         | some (path, coll), some b => some (if op == .any then .any path coll b else .all path coll b)
         | _, _ => none)
  | outer, var, e =>
      if (pathHeads e).any (fun h => outer.contains h) then none
      else (relLeaf kindOf var e).map .scalar

def elabR (kindOf : Str → Option ColK) (var : Option Str) (e : Expr) : Option RCond := elabRAux kindOf [] var e

/-! ### the verification schema (harness/dbenv.py) -/
def T (s : String) : Str := s.toList

def vSchema : Schema :=
  [ ⟨T "p", T "o", T "o", .toOne (T "o_id") (T "id")⟩, ⟨T "p", T "w", T "w", .toOne (T "w_id") (T "id")⟩,
    ⟨T "p", T "kids", T "k", .toMany (T "p_id") (T "id")⟩, ⟨T "p", T "tags", T "tag", .m2m (T "p_tags") (T "p_id") (T "tag_id")⟩,
    ⟨T "k", T "p", T "p", .toOne (T "p_id") (T "id")⟩, ⟨T "k", T "o", T "o", .toOne (T "o_id") (T "id")⟩,
    ⟨T "w", T "o", T "tag", .toOne (T "o_id") (T "id")⟩, ⟨T "w", T "ps", T "p", .toMany (T "w_id") (T "id")⟩,
    ⟨T "o", T "ps", T "p", .toMany (T "o_id") (T "id")⟩, ⟨T "o", T "ks", T "k", .toMany (T "o_id") (T "id")⟩,
    ⟨T "tag", T "ps", T "p", .m2m (T "p_tags") (T "tag_id") (T "p_id")⟩, ⟨T "tag", T "ws", T "w", .toMany (T "o_id") (T "id")⟩,
    -- a foreign key that references a unique NATURAL key of the parent (d.number), not its primary key
    ⟨T "p", T "dept", T "d", .toOne (T "dn") (T "number")⟩, ⟨T "d", T "emps", T "p", .toMany (T "dn") (T "number")⟩ ]

def vKind (c : Str) : Option ColK :=
  -- (the foreign-key columns are ordinary integer columns of their tables: a to-one relationship compared with a key value is judged through them)
  if c == T "id" || c == T "n" || c == T "a" || c == T "x" || c == T "number" || c == T "o_id" || c == T "w_id" || c == T "p_id" || c == T "dn" then some .int
  else if c == T "name" || c == T "s" || c == T "label" || c == T "title" then some .str
  else none

end OQ.Spec

namespace OQ.Spec
/-! ### comparisons of a condition with a Boolean literal

  `(c) eq true`, `true eq (c)`, `(c) ne false` mean `c`; `(c) eq false`, `(c) ne true` mean `not c` — under three-valued logic exactly (an unknown `c`
  stays unknown on both sides).  The elaborator of the relational grammar works on the forms without the wrapper; the JUDGE (driver `releval`) first
  removes the wrappers with `unwrapBoolCmp`.  (Only the judge: the plan models see the filter as written.) -/
def isCondShape : Expr → Bool
  | .compare _ _ _ | .boolop _ _ _ | .unary .not_ _ | .coll _ _ _ => true
  | .call ⟨n, []⟩ _ => n == "contains".toList || n == "startswith".toList || n == "endswith".toList
  | _ => false

def boolLitVal : Expr → Option Bool
  | .lit .bool v =>
      let lc := v.map (fun c => if 'A' ≤ c ∧ c ≤ 'Z' then Char.ofNat (c.toNat + 32) else c)
      if lc == "true".toList then some true else if lc == "false".toList then some false else none
  | _ => none

mutual
def unwrapBoolCmp : Expr → Expr
  | .compare op l r =>
      let l' := unwrapBoolCmp l
      let r' := unwrapBoolCmp r
      match op, isCondShape l', boolLitVal r', boolLitVal l', isCondShape r' with
      | .eq, true, some b, _, _ => if b then l' else .unary .not_ l'
      | .ne, true, some b, _, _ => if b then .unary .not_ l' else l'
      | .eq, _, _, some b, true => if b then r' else .unary .not_ r'
      | .ne, _, _, some b, true => if b then .unary .not_ r' else r'
      | _, _, _, _, _ => .compare op l' r'
  | .boolop o l r => .boolop o (unwrapBoolCmp l) (unwrapBoolCmp r)
  | .unary o e => .unary o (unwrapBoolCmp e)
  | .coll ow o lam => .coll ow o (unwrapLam lam)
  | e => e
def unwrapLam : OptLam → OptLam
  | .none => .none
  | .some v b => .some v (unwrapBoolCmp b)
end

example : unwrapBoolCmp (.compare .eq (.compare .eq (.ident ⟨"a".toList, []⟩) (.lit .null [])) (.lit .bool "TRUE".toList))
    = .compare .eq (.ident ⟨"a".toList, []⟩) (.lit .null []) := by decide
end OQ.Spec
