/-
  Spec/RefPrinter.lean — the operator precedence table of OData 4.01 Part 2 §5.1.1.14, typed in from
  the specification, and an independent reference printer that knows only that table.
  The printer emits *tokens* (`printToks`), in a minimally or a fully parenthesised rendering and with
  a choice of where optional whitespace (BWS) is written; `render` spells tokens as text.
-/
import ODataVerif.Model.Basic
import ODataVerif.Model.Ast
import ODataVerif.Model.Lexer
import ODataVerif.Spec.Builtins
namespace OQ.Spec

/-- §5.1.1.14 (highest to lowest): primary (`/`, `in`) > unary (`-`, `not`) > multiplicative >
    additive > relational > equality > conditional AND > conditional OR.  Numbers: larger binds
    tighter; atoms are 9. -/
def level : Expr → Nat
  | .boolop .or_ _ _ => 1
  | .boolop .and_ _ _ => 2
  | .compare .eq _ _ | .compare .ne _ _ => 3
  | .compare .lt _ _ | .compare .le _ _ | .compare .gt _ _ | .compare .ge _ _ => 4
  | .binop .add _ _ | .binop .sub _ _ => 5
  | .binop .mul _ _ | .binop .div _ _ | .binop .mod _ _ => 6
  | .unary _ _ => 7
  | .compare .in_ _ _ => 8
  | _ => 9

/-- `minimal` / `full`: the two reference parenthesisations; `printer`: the rule odata_query's own
    printer (roundtrip.py) follows — the minimal rule, plus a path or a call on the left of `in` -/
inductive Mode | minimal | full | printer deriving DecidableEq, Repr

/-- where optional whitespace is written -/
structure Style where
  afterMinus : Bool := false
  insideParens : Bool := false
  beforeComma : Bool := false
  afterComma : Bool := false
  beforeColon : Bool := false
  afterColon : Bool := false
  deriving DecidableEq, Repr

def ws? (b : Bool) : List Tok := if b then [.ws] else []

def paren (sty : Style) (ts : List Tok) : List Tok :=
  [.lp] ++ ws? sty.insideParens ++ ts ++ ws? sty.insideParens ++ [.rp]

/-- does the operand need parentheses? `strict = true` for the right operand of a (left-associative)
    binary operator -/
def isAttrOrCall : Expr → Bool
  | .attr _ _ => true
  | .call _ _ => true
  | _ => false

def needsParen (mode : Mode) (parentLevel : Nat) (strict : Bool) (child : Expr) : Bool :=
  match mode with
  | .full => level child < 9
  | .minimal => if strict then level child ≤ parentLevel else level child < parentLevel
  | .printer => (if strict then decide (level child ≤ parentLevel) else decide (level child < parentLevel))
                  || (parentLevel == 8 && !strict && isAttrOrCall child)

def commaToks (sty : Style) : List Tok := ws? sty.beforeComma ++ [.comma] ++ ws? sty.afterComma

mutual
def printToks (sty : Style) (mode : Mode) : Expr → List Tok
  | .ident i => [.ident i]
  | .attr o n => printToks sty mode o ++ [.slash, .ident ⟨n, []⟩]
  | .lit k v => [.lit k v]
  | .list xs => printList sty mode xs
  | .binop o l r =>
      operand sty mode (level (.binop o l r)) false l ++ [.arith o] ++ operand sty mode (level (.binop o l r)) true r
  | .compare .in_ l r =>
      operand sty mode 8 false l ++ [.cmp .in_] ++ printToks sty mode r
  | .compare o l r =>
      operand sty mode (level (.compare o l r)) false l ++ [.cmp o] ++ operand sty mode (level (.compare o l r)) true r
  | .boolop o l r =>
      operand sty mode (level (.boolop o l r)) false l ++ [.bool o] ++ operand sty mode (level (.boolop o l r)) true r
  | .unary .not_ e => [.not_] ++ operand sty mode 7 false e
  | .unary .neg e => [.uminus] ++ ws? sty.afterMinus ++ operand sty mode 7 false e
  | .named n e => [.ident n, .eqs] ++ printToks sty mode e
  | .call f .nil => [.ident f, .lp, .rp]
  | .call f (.cons a .nil) =>
      -- a single positional list argument would be read as the argument list itself: keep it apart
      [.ident f] ++ paren sty (printToks sty mode a)
  | .call f args => [.ident f] ++ paren sty (printArgs sty mode args)
  | .coll ow op .none => printToks sty mode ow ++ [.slash, (if op = .any then .any else .all), .lp] ++ ws? sty.insideParens ++ [.rp]
  | .coll ow op (.some v b) =>
      printToks sty mode ow ++ [.slash, (if op = .any then .any else .all)] ++
        paren sty ([.ident v] ++ ws? sty.beforeColon ++ [.colon] ++ ws? sty.afterColon ++ printToks sty mode b)
/-- an operand, parenthesised when the table says so -/
def operand (sty : Style) (mode : Mode) (parentLevel : Nat) (strict : Bool) : Expr → List Tok
  | e => if needsParen mode parentLevel strict e then paren sty (printToks sty mode e) else printToks sty mode e
/-- `(a, b, c)` / `(a,)` — the trailing comma of a singleton is followed by the closing parenthesis
    (with the inside-parentheses whitespace, not the after-comma one) -/
def printList (sty : Style) (mode : Mode) : Exprs → List Tok
  | .nil => [.lp, .rp]
  | .cons a .nil =>
      [.lp] ++ ws? sty.insideParens ++ printToks sty mode a ++ ws? sty.beforeComma ++ [.comma] ++
        ws? sty.insideParens ++ [.rp]
  | xs => paren sty (printArgs sty mode xs)
def printArgs (sty : Style) (mode : Mode) : Exprs → List Tok
  | .nil => []
  | .cons a .nil => printToks sty mode a
  | .cons a rest => printToks sty mode a ++ commaToks sty ++ printArgs sty mode rest
end

/-! ### spelling tokens -/
def spellArith : ArithOp → String
  | .add => "add" | .sub => "sub" | .mul => "mul" | .div => "div" | .mod => "mod"
def spellCmp : CmpOp → String
  | .eq => "eq" | .ne => "ne" | .lt => "lt" | .le => "le" | .gt => "gt" | .ge => "ge" | .in_ => "in"
def spellBool : BoolOp → String
  | .and_ => "and" | .or_ => "or"

def quoteStr : Str → Str
  | [] => []
  | '\'' :: t => '\'' :: '\'' :: quoteStr t
  | c :: t => c :: quoteStr t

def spellIdent (i : Ident) : Str := joinDotsS (i.ns ++ [i.name])
where joinDotsS : List Str → Str
  | [] => []
  | [x] => x
  | x :: rest => x ++ '.' :: joinDotsS rest

def spellTok : Tok → Str
  | .lit .null _ => "null".toList
  | .lit .str v => '\'' :: quoteStr v ++ ['\'']
  | .lit .geo v => "geography'".toList ++ v ++ ['\'']
  | .lit .duration v => "duration'".toList ++ v ++ ['\'']
  | .lit _ v => v
  | .ident i => spellIdent i
  | .arith o => (" " ++ spellArith o ++ " ").toList
  | .cmp o => (" " ++ spellCmp o ++ " ").toList
  | .bool o => (" " ++ spellBool o ++ " ").toList
  | .not_ => "not ".toList
  | .uminus => ['-']
  | .any => "any".toList
  | .all => "all".toList
  | .ws => [' ']
  | .lp => ['('] | .rp => [')'] | .comma => [','] | .slash => ['/'] | .colon => [':'] | .eqs => ['=']

def isUnsignedNumber : Tok → Bool
  | .lit .int (c :: _) => c != '-' && c != '+'
  | .lit .float (c :: _) => c != '-' && c != '+'
  | .lit .date _ | .lit .datetime _ | .lit .time _ | .lit .guid _ => true
  | _ => false

/-- spell a token list; a unary minus directly in front of an unsigned number is kept apart from it
    (otherwise the lexer reads a signed literal) -/
def render : List Tok → Str
  | [] => []
  | .uminus :: t :: rest =>
      if isUnsignedNumber t then '-' :: ' ' :: render (t :: rest) else '-' :: render (t :: rest)
  | t :: rest => spellTok t ++ render rest

end OQ.Spec

namespace OQ.Spec

def isNamed : Expr → Bool
  | .named _ _ => true
  | _ => false

/-- namespace of the identifier a path hangs off -/
def rootNs : Expr → List Str
  | .ident i => i.ns
  | .attr o _ => rootNs o
  | _ => []

/-- paths the parser can build: a chain of segments off an identifier; a namespace on the root
    survives only when at most one segment follows it (grammar.py:448-470, `_reverse_attributes`) -/
def pathOk : Expr → Bool
  | .ident _ => true
  | .attr (.ident _) _ => true
  | .attr (.attr o n) _ => rootNs o == [] && pathOk (.attr o n)
  | _ => false

/-- C11's acceptance condition, from the specification's function table -/
def callOk (f : Ident) (n : Nat) : Bool :=
  if f.ns = [] ∨ f.ns = ["geo".toList] then
    match arity (spellIdent f) with
    | some (lo, hi) => decide (lo ≤ n) && decide (n ≤ hi)
    | none => false
  else true

mutual
/-- the image of the parser ("expression trees over the supported operators"): what the reference
    printer is asked to print.  Decidable. -/
def printable : Expr → Bool
  | .ident _ => true
  | .attr o n => pathOk (.attr o n)
  | .lit _ _ => true
  | .list xs => xs.length ≥ 1 && printableArgs xs
  | .binop _ l r => printable l && printable r
  | .compare .in_ l r =>
      printable l && (match r with
                      | .list xs => xs.length ≥ 1 && printableArgs xs
                      | _ => false)
  | .compare _ l r => printable l && printable r
  | .boolop _ l r => printable l && printable r
  | .unary _ e => printable e
  | .named _ _ => false                       -- only directly as a call argument
  | .call f args =>
      callOk f args.length && (printableArgs args || printableNamed args)
  | .coll ow op lam =>
      pathOk ow && (match lam with
                    | .none => op == .any
                    | .some _ b => printable b)
def printableArgs : Exprs → Bool
  | .nil => true
  | .cons a rest => printable a && printableArgs rest
/-- a non-empty list of named parameters -/
def printableNamed : Exprs → Bool
  | .nil => false
  | .cons (.named _ e) .nil => printable e
  | .cons (.named _ e) rest => printable e && printableNamed rest
  | .cons _ _ => false
end

end OQ.Spec
