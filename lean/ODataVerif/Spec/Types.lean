/-
  Spec/Types.lean — the typed grammar of the property (C18): a reference type synthesiser for OData
  $filter expressions, written from OData 4.01 Part 2 §5.1.1 (operators and built-in function
  signatures), never from the code.  `float` stands for Edm.Double / Edm.Decimal / Edm.Single and
  `int` for the integer types; `coll` is any collection.
-/
import ODataVerif.Model.Basic
import ODataVerif.Model.Ast
import ODataVerif.Model.Parser
namespace OQ.Spec

inductive OTy
  | prim (k : LitKind)
  | coll
  deriving DecidableEq, Repr

open OTy LitKind in
/-- the signatures of the built-ins (OData 4.01 Part 2 §5.1.1.5 – §5.1.1.11): name, argument types,
    result type.  Overloads are separate rows. -/
def sigTable : List (String × List OTy × OTy) :=
  [
    ("concat", [prim str, prim str], (prim str)),
    ("concat", [coll, coll], coll),
    ("contains", [prim str, prim str], (prim bool)),
    ("contains", [coll, coll], (prim bool)),
    ("endswith", [prim str, prim str], (prim bool)),
    ("endswith", [coll, coll], (prim bool)),
    ("startswith", [prim str, prim str], (prim bool)),
    ("startswith", [coll, coll], (prim bool)),
    ("indexof", [prim str, prim str], (prim int)),
    ("indexof", [coll, coll], (prim int)),
    ("length", [prim str], (prim int)),
    ("length", [coll], (prim int)),
    ("substring", [prim str, prim int], (prim str)),
    ("substring", [prim str, prim int, prim int], (prim str)),
    ("substring", [coll, prim int], coll),
    ("substring", [coll, prim int, prim int], coll),
    ("hassubset", [coll, coll], (prim bool)),
    ("hassubsequence", [coll, coll], (prim bool)),
    ("matchesPattern", [prim str, prim str], (prim bool)),
    ("tolower", [prim str], (prim str)),
    ("toupper", [prim str], (prim str)),
    ("trim", [prim str], (prim str)),
    ("year", [prim date], (prim int)),
    ("year", [prim datetime], (prim int)),
    ("month", [prim date], (prim int)),
    ("month", [prim datetime], (prim int)),
    ("day", [prim date], (prim int)),
    ("day", [prim datetime], (prim int)),
    ("hour", [prim datetime], (prim int)),
    ("hour", [prim time], (prim int)),
    ("minute", [prim datetime], (prim int)),
    ("minute", [prim time], (prim int)),
    ("second", [prim datetime], (prim int)),
    ("second", [prim time], (prim int)),
    ("fractionalseconds", [prim datetime], (prim float)),
    ("fractionalseconds", [prim time], (prim float)),
    ("totalseconds", [prim duration], (prim float)),
    ("date", [prim datetime], (prim date)),
    ("time", [prim datetime], (prim time)),
    ("totaloffsetminutes", [prim datetime], (prim int)),
    ("mindatetime", [], (prim datetime)),
    ("maxdatetime", [], (prim datetime)),
    ("now", [], (prim datetime)),
    ("round", [prim float], (prim float)),
    ("floor", [prim float], (prim float)),
    ("ceiling", [prim float], (prim float)),
    -- numeric promotion (Part 2 §5.1.1.1): an integer operand is promoted; the result is still the fractional type
    ("round", [prim int], (prim float)),
    ("floor", [prim int], (prim float)),
    ("ceiling", [prim int], (prim float)),
    ("geo.distance", [prim geo, prim geo], (prim float)),
    ("geo.length", [prim geo], (prim float)),
    ("geo.intersects", [prim geo, prim geo], (prim bool)) ]

/-- result type of a built-in applied to arguments of the given types (`none` = ill-typed) -/
def sigResult (fn : String) (args : List OTy) : Option OTy :=
  match sigTable.find? (fun r => r.1 == fn && r.2.1 == args) with
  | some r => some r.2.2
  | none => none

def isNumeric : OTy → Bool
  | .prim .int | .prim .float => true
  | _ => false

mutual
/-- type synthesis for the typed grammar; `Γ` types field references (identifiers and paths) -/
def typeOf (Γ : Expr → Option OTy) : Expr → Option OTy
  | .ident i => Γ (.ident i)
  | .attr o n => Γ (.attr o n)
  | .lit k _ => some (.prim k)
  | .list xs => (typesOf Γ xs).map (fun _ => .coll)
  | .compare .in_ l r =>
      match typeOf Γ l, typeOf Γ r with
      | some _, some .coll => some (.prim .bool)
      | _, _ => none
  | .compare _ l r =>
      match typeOf Γ l, typeOf Γ r with
      | some _, some _ => some (.prim .bool)
      | _, _ => none
  | .boolop _ l r =>
      match typeOf Γ l, typeOf Γ r with
      | some (.prim .bool), some (.prim .bool) => some (.prim .bool)
      | _, _ => none
  | .unary .not_ e =>
      match typeOf Γ e with
      | some (.prim .bool) => some (.prim .bool)
      | _ => none
  | .unary .neg e =>
      match typeOf Γ e with
      | some t => if isNumeric t then some t else none
      | none => none
  | .binop o l r =>
      match typeOf Γ l, typeOf Γ r with
      | some (.prim .int), some (.prim .int) => some (.prim .int)
      -- temporal arithmetic (Part 2 §5.1.1.2): the difference of two points in time is a duration; a point in time plus / minus a duration is a point in
      -- time of the same kind; durations add, subtract, and scale by numbers
      | some (.prim .date), some (.prim .date) => if o == .sub then some (.prim .duration) else none
      | some (.prim .datetime), some (.prim .datetime) => if o == .sub then some (.prim .duration) else none
      | some (.prim .date), some (.prim .duration) => if o == .add || o == .sub then some (.prim .date) else none
      | some (.prim .datetime), some (.prim .duration) => if o == .add || o == .sub then some (.prim .datetime) else none
      | some (.prim .duration), some (.prim .duration) => if o == .add || o == .sub then some (.prim .duration) else none
      | some (.prim .duration), some b => if (o == .mul || o == .div) && isNumeric b then some (.prim .duration) else none
      | some a, some (.prim .duration) => if o == .mul && isNumeric a then some (.prim .duration) else none
      | some a, some b => if isNumeric a && isNumeric b then some (.prim .float) else none
      | _, _ => none
  | .call f args =>
      match typesOf Γ args with
      | some tys => sigResult (String.ofList f.fullName) tys
      | none => none
  | .named _ _ => none
  | .coll _ _ _ => none
def typesOf (Γ : Expr → Option OTy) : Exprs → Option (List OTy)
  | .nil => some []
  | .cons h t =>
      match typeOf Γ h, typesOf Γ t with
      | some a, some as => some (a :: as)
      | _, _ => none
end

end OQ.Spec
