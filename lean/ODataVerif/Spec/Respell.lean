/-
  Spec/Respell.lean — the admissible re-spellings of a token list (C19 at the character level):
  every run of whitespace may be replaced by any other non-empty run of whitespace characters (the lexer's `\s`
  class, `CharEnv.isSpace`: blanks, tabs, newlines, …), and the operator / literal keywords may be written in any
  ASCII letter case.  `Respell env ts s` : `s` is such a spelling of the token list `ts` (`render ts` is one of them).
  `normTok` / `normE` : the two literal kinds whose token value is the text as written (Boolean, Float) are compared
  up to ASCII letter case; everything else must come out identical.
-/
import ODataVerif.Model.Lexer
import ODataVerif.Spec.RefPrinter
namespace OQ.Spec

/-- a non-empty run of whitespace characters (the class the WS rule and the operator rules use) -/
def isBlankRun (env : CharEnv) (w : Str) : Prop := w ≠ [] ∧ w.all env.isSpace = true

/-- `s` is the lower-case ASCII keyword `k` in some ASCII letter case -/
def ciSpell (k s : Str) : Prop := s.map asciiLower = k

/-- tokens that have one spelling only (`spellTok`) -/
def exactTok : Tok → Bool
  | .lit .int _ | .lit .str _ | .lit .date _ | .lit .time _ | .lit .guid _ => true
  | .ident _ | .uminus | .lp | .rp | .comma | .slash | .colon | .eqs => true
  | _ => false

/-- the spellings of one token -/
inductive SpellTok (env : CharEnv) : Tok → Str → Prop
  | arith (o : ArithOp) (w1 kw w2 : Str) : isBlankRun env w1 → isBlankRun env w2 → ciSpell (spellArith o).toList kw →
      SpellTok env (.arith o) (w1 ++ kw ++ w2)
  | cmp (o : CmpOp) (w1 kw w2 : Str) : isBlankRun env w1 → isBlankRun env w2 → ciSpell (spellCmp o).toList kw →
      SpellTok env (.cmp o) (w1 ++ kw ++ w2)
  | bool (o : BoolOp) (w1 kw w2 : Str) : isBlankRun env w1 → isBlankRun env w2 → ciSpell (spellBool o).toList kw →
      SpellTok env (.bool o) (w1 ++ kw ++ w2)
  | not_ (kw w : Str) : ciSpell "not".toList kw → isBlankRun env w → SpellTok env .not_ (kw ++ w)
  | any (kw : Str) : ciSpell "any".toList kw → SpellTok env .any kw
  | all (kw : Str) : ciSpell "all".toList kw → SpellTok env .all kw
  | ws (w : Str) : isBlankRun env w → SpellTok env .ws w
  | null (v kw : Str) : ciSpell "null".toList kw → SpellTok env (.lit .null v) kw
  | boolLit (v s : Str) : s.map asciiLower = v.map asciiLower → SpellTok env (.lit .bool v) s
  | geo (v pre : Str) : ciSpell "geography".toList pre → SpellTok env (.lit .geo v) (pre ++ '\'' :: v ++ ['\''])
  /-- the token action upper-cases the body of a duration -/
  | duration (v pre b : Str) : ciSpell "duration".toList pre → b.map asciiUpper = v →
      SpellTok env (.lit .duration v) (pre ++ '\'' :: b ++ ['\''])
  /-- the token action upper-cases a datetime (`T` separator, `Z` suffix) -/
  | datetime (v s : Str) : s.map asciiUpper = v → SpellTok env (.lit .datetime v) s
  | float (v s : Str) : s.map asciiLower = v.map asciiLower → SpellTok env (.lit .float v) s
  | exact (t : Tok) : exactTok t = true → SpellTok env t (spellTok t)

/-- the spellings of a token list: concatenation, with an optional run of whitespace after a unary minus — required
    exactly where `render` writes a blank (in front of an unsigned number) -/
inductive Respell (env : CharEnv) : List Tok → Str → Prop
  | nil : Respell env [] []
  | cons (t : Tok) (ts : List Tok) (s r : Str) : t ≠ .uminus → SpellTok env t s → Respell env ts r →
      Respell env (t :: ts) (s ++ r)
  | minus (ts : List Tok) (r : Str) : (∀ u rest, ts = u :: rest → isUnsignedNumber u = false) → Respell env ts r →
      Respell env (.uminus :: ts) ('-' :: r)
  | minusBlank (ts : List Tok) (w r : Str) : isBlankRun env w → Respell env ts r →
      Respell env (.uminus :: ts) ('-' :: w ++ r)

/-- Boolean and Float tokens carry the text as written: compare them up to ASCII letter case -/
def normTok : Tok → Tok
  | .lit .bool v => .lit .bool (v.map asciiLower)
  | .lit .float v => .lit .float (v.map asciiLower)
  | t => t

mutual
def normE : Expr → Expr
  | .lit .bool v => .lit .bool (v.map asciiLower)
  | .lit .float v => .lit .float (v.map asciiLower)
  | .lit k v => .lit k v
  | .ident i => .ident i
  | .attr o n => .attr (normE o) n
  | .list xs => .list (normEs xs)
  | .binop o l r => .binop o (normE l) (normE r)
  | .compare o l r => .compare o (normE l) (normE r)
  | .boolop o l r => .boolop o (normE l) (normE r)
  | .unary o e => .unary o (normE e)
  | .named n e => .named n (normE e)
  | .call f args => .call f (normEs args)
  | .coll o op l => .coll (normE o) op (normLam l)
def normEs : Exprs → Exprs
  | .nil => .nil
  | .cons h t => .cons (normE h) (normEs t)
def normLam : OptLam → OptLam
  | .none => .none
  | .some v b => .some v (normE b)
end

end OQ.Spec
