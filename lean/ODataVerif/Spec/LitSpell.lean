/-
  Spec/LitSpell.lean — the WELL-FORMED spellings of the primitive literals (OData ABNF: int64Value, dateValue,
  timeOfDayValue, dateTimeOffsetValue, durationValue, guidValue, single-quoted strings) as functions from the MEANING
  (numbers, calendar fields, characters) to the text, and the meaning of a duration in microseconds with the
  documented 365.25-day year and 30.44-day month.  Written from the ABNF, independently of the lexer / py_val models:
  Props/C06Value.lean proves that the models read every such text back to the meaning it was spelled from.
-/
import ODataVerif.Model.Basic
namespace OQ.LitSpell

def digitChar (n : Nat) : Char := Char.ofNat (48 + n % 10)

/-- the low `w` decimal digits of `n`, most significant first: EVERY digit string of length `w` is `pad w n` for
    exactly one `n < 10 ^ w` (leading zeros included) -/
def pad : Nat → Nat → Str
  | 0, _ => []
  | w + 1, n => pad w (n / 10) ++ [digitChar n]

def hexChar (upper : Bool) (n : Nat) : Char :=
  let d := n % 16
  if d < 10 then Char.ofNat (48 + d) else if upper then Char.ofNat (55 + d) else Char.ofNat (87 + d)

/-- the low `w` hexadecimal digits of `n`; `up i` chooses the letter case of the digit at position `i` from the left (0-based) -/
def hexPad (up : Nat → Bool) : Nat → Nat → Str
  | 0, _ => []
  | w + 1, n => hexPad up w (n / 16) ++ [hexChar (up w) n]

def isoDate (y m d : Nat) : Str := pad 4 y ++ '-' :: pad 2 m ++ '-' :: pad 2 d

def leap (y : Nat) : Bool := (y % 4 == 0 && y % 100 != 0) || y % 400 == 0
def monthLen (y m : Nat) : Nat :=
  match m with
  | 2 => if leap y then 29 else 28
  | 4 | 6 | 9 | 11 => 30
  | _ => 31
/-- a day of the proleptic Gregorian calendar, years 1..9999 -/
def validDate (y m d : Nat) : Prop := 1 ≤ y ∧ y ≤ 9999 ∧ 1 ≤ m ∧ m ≤ 12 ∧ 1 ≤ d ∧ d ≤ monthLen y m

/-- fraction digits (each < 10), as text and as microseconds (digits beyond the sixth are dropped) -/
def fracText (fs : List Nat) : Str := fs.map digitChar
def digitsVal (fs : List Nat) : Nat := fs.foldl (fun a d => a * 10 + d % 10) 0
def fracMicros (fs : List Nat) : Nat := digitsVal (fs.take 6) * 10 ^ (6 - min 6 fs.length)

/-- seconds part of a clock: absent, whole seconds, or seconds with a non-empty fraction -/
inductive Secs
  | none
  | whole (s : Nat)
  | frac (s : Nat) (fs : List Nat)
def Secs.text : Secs → Str
  | .none => []
  | .whole s => ':' :: pad 2 s
  | .frac s fs => ':' :: pad 2 s ++ '.' :: fracText fs
def Secs.s : Secs → Nat
  | .none => 0 | .whole s => s | .frac s _ => s
def Secs.us : Secs → Nat
  | .frac _ fs => fracMicros fs | _ => 0
def Secs.ok : Secs → Prop
  | .none => True
  | .whole s => s < 60
  | .frac s fs => s < 60 ∧ fs ≠ [] ∧ ∀ d ∈ fs, d < 10

def clockText (h mi : Nat) (sc : Secs) : Str := pad 2 h ++ ':' :: pad 2 mi ++ sc.text

/-- UTC offset of a date-time: none, Z (either case), or ±hh:mm -/
inductive Off
  | naive
  | z (upper : Bool)
  | hm (neg : Bool) (h m : Nat)
def Off.text : Off → Str
  | .naive => []
  | .z u => [if u then 'Z' else 'z']
  | .hm neg h m => (if neg then '-' else '+') :: pad 2 h ++ ':' :: pad 2 m
def Off.minutes : Off → Option Int
  | .naive => none
  | .z _ => some 0
  | .hm neg h m => some (if neg then -((h * 60 + m : Nat) : Int) else ((h * 60 + m : Nat) : Int))
/-- the same offset with the Z designator in upper case (the value is the same; the DATETIME token carries the upper-cased text) -/
def Off.up : Off → Off
  | .z _ => .z true
  | o => o
def Off.ok : Off → Prop
  | .hm _ h m => h < 24 ∧ m < 60
  | _ => True

def dateTimeText (y mo d : Nat) (sep : Char) (h mi : Nat) (sc : Secs) (o : Off) : Str :=
  isoDate y mo d ++ sep :: clockText h mi sc ++ o.text

/-- one `<digits><letter>` component of a duration: absent, or a number written in w+1 digits -/
def compText (l : Char) : Option (Nat × Nat) → Str
  | none => []
  | some (w, n) => pad (w + 1) n ++ [l]
def compVal : Option (Nat × Nat) → Nat
  | none => 0
  | some (_, n) => n
def compOk : Option (Nat × Nat) → Prop
  | none => True
  | some (w, n) => n < 10 ^ (w + 1)

/-- seconds of a duration: absent, whole, or with 1..6 fraction digits -/
inductive DSecs
  | none
  | whole (w n : Nat)
  | frac (w n : Nat) (fs : List Nat)
def DSecs.text : DSecs → Str
  | .none => []
  | .whole w n => pad (w + 1) n ++ ['S']
  | .frac w n fs => pad (w + 1) n ++ '.' :: fracText fs ++ ['S']
def DSecs.micros : DSecs → Nat
  | .none => 0
  | .whole _ n => n * 1000000
  | .frac _ n fs => n * 1000000 + fracMicros fs
def DSecs.ok : DSecs → Prop
  | .none => True
  | .whole w n => n < 10 ^ (w + 1)
  | .frac w n fs => n < 10 ^ (w + 1) ∧ fs ≠ [] ∧ fs.length ≤ 6 ∧ ∀ d ∈ fs, d < 10

/-- sign: none / '+' / '-' -/
inductive Sign | none | plus | minus
def Sign.text : Sign → Str
  | .none => [] | .plus => ['+'] | .minus => ['-']
def Sign.neg : Sign → Bool
  | .minus => true | _ => false

/-- the value text of a duration (what the token carries: between the quotes of duration'…'), with or without a time part -/
def durText (sg : Sign) (y mo d : Option (Nat × Nat)) (tp : Option (Option (Nat × Nat) × Option (Nat × Nat) × DSecs)) : Str :=
  sg.text ++ 'P' :: compText 'Y' y ++ compText 'M' mo ++ compText 'D' d ++
    (match tp with
     | none => []
     | some (h, mi, s) => 'T' :: compText 'H' h ++ compText 'M' mi ++ s.text)

/-- the documented meaning: 365.25-day years (31 557 600 s), 30.44-day months (2 630 016 s), in microseconds -/
def durMicros (sg : Sign) (y mo d : Option (Nat × Nat)) (tp : Option (Option (Nat × Nat) × Option (Nat × Nat) × DSecs)) : Int :=
  let secs : Nat := compVal y * 31557600 + compVal mo * 2630016 + compVal d * 86400 +
    (match tp with
     | none => 0
     | some (h, mi, _) => compVal h * 3600 + compVal mi * 60)
  let us : Nat := secs * 1000000 + (match tp with | none => 0 | some (_, _, s) => s.micros)
  if sg.neg then -(us : Int) else us

/-- 8-4-4-4-12 hexadecimal digits of a 128-bit number, any letter case per digit -/
def guidText (up : Nat → Bool) (n : Nat) : Str :=
  let h := hexPad up 32 n
  h.take 8 ++ '-' :: (h.drop 8).take 4 ++ '-' :: (h.drop 12).take 4 ++ '-' :: (h.drop 16).take 4 ++ '-' :: h.drop 20

/-- a string literal: quotes doubled, between single quotes -/
def quoteText (s : Str) : Str := '\'' :: s.flatMap (fun c => if c = '\'' then ['\'', '\''] else [c]) ++ ['\'']

/-- what may follow a literal in a filter: the end, a blank, a closing parenthesis or a comma -/
def boundary (rest : Str) : Prop := rest = [] ∨ ∃ c t, rest = c :: t ∧ (c = ' ' ∨ c = ')' ∨ c = ',')

def dotted (segs : List Str) : Str := (segs.intersperse ['.']).flatten

/-! ### decimal / exponent numbers, Boolean, null, geography -/
/-- exponent part: absent, or `e` / `E`, an optional sign, and w+1 digits -/
inductive Expo
  | none
  | some (upper : Bool) (sg : Sign) (w n : Nat)
def Expo.text : Expo → Str
  | .none => []
  | .some u sg w n => (if u then 'E' else 'e') :: sg.text ++ pad (w + 1) n
def Expo.ok : Expo → Prop
  | .none => True
  | .some _ _ w n => n < 10 ^ (w + 1)
/-- decimalValue: optional sign, digits, then a fraction and / or an exponent (at least one of the two) -/
def decimalText (sg : Sign) (wi ni : Nat) (fr : Option (Nat × Nat)) (ex : Expo) : Str :=
  sg.text ++ pad (wi + 1) ni ++ (match fr with | none => [] | some (wf, nf) => '.' :: pad (wf + 1) nf) ++ ex.text

/-- a keyword in any ASCII letter case: `up i` chooses the case of the i-th letter -/
def caseWord (up : Nat → Bool) (w : Str) : Str := (w.zipIdx).map (fun p => if up p.2 then (if 'a' ≤ p.1 ∧ p.1 ≤ 'z' then Char.ofNat (p.1.toNat - 32) else p.1) else p.1)

/-- geography'...' with the content's quotes doubled -/
def geoText (up : Nat → Bool) (content : Str) : Str :=
  caseWord up "geography".toList ++ '\'' :: content.flatMap (fun c => if c = '\'' then ['\'', '\''] else [c]) ++ ['\'']

/-! ### identifiers (odataIdentifier with dotted namespaces; ASCII) -/
def isStartA (c : Char) : Bool := c == '_' || ('a' ≤ c && c ≤ 'z') || ('A' ≤ c && c ≤ 'Z')
def isWordA (c : Char) : Bool := isStartA c || ('0' ≤ c && c ≤ '9')
def lowerA (c : Char) : Char := if 'A' ≤ c ∧ c ≤ 'Z' then Char.ofNat (c.toNat + 32) else c

/-- dotted segments: every segment a non-empty run of word characters, the first segment starting with a letter or an underscore,
    at most 128 identifier characters in all (the dots are not counted) -/
def wfIdent (segs : List Str) : Prop :=
  (∀ s ∈ segs, s ≠ [] ∧ s.all isWordA = true) ∧ (∃ c t r, segs = (c :: t) :: r ∧ isStartA c = true) ∧ (segs.map List.length).sum ≤ 128

/-- the words that are literals / operators on their own, in any letter case -/
def reservedWords : List Str := ["true".toList, "false".toList, "null".toList, "any".toList, "all".toList, "not".toList]
def notReserved (s : Str) : Prop := s.map lowerA ∉ reservedWords

end OQ.LitSpell
