/-
  Model/Shorthand.lean — the shorthands (odata_query/django/shorthand.py, odata_query/sqlalchemy/shorthand.py) over an
  abstract query, and SQLAlchemy's global function registry.

  An abstract query is what the host hands in: the root entity, the conditions already on it, the relationships already
  joined (with the join kind), the ordering and the annotations.  The shorthand
    * (SQLAlchemy) adds a LEFT OUTER JOIN for every relationship the filter's visitor recorded that is not joined yet
      (compared by `str(rel)` = "Model.rel" and by the bare key, shorthand.py:47-53),
    * (Django) adds the annotations the visitor recorded,
    * appends the filter's condition with `.filter(...)` — everything else is left as it was.
-/
import ODataVerif.Model.Basic
namespace OQ

structure Join where
  rel : Str            -- "P.o" : str(InstrumentedAttribute)
  key : Str            -- "o"
  outer : Bool
  deriving DecidableEq, Repr

/-- conditions are opaque predicates on a (joined) row of type `ρ` -/
structure AQuery (ρ : Type) where
  entity : Str
  wheres : List (ρ → Bool)
  joins : List Join
  order : List Str
  annotations : List Str

/-- `_get_joined_attrs`: the strings the existing joins are known by -/
def joinedAttrs {ρ} (q : AQuery ρ) : List Str := q.joins.map (·.rel)

/-- the join loop of `apply_odata_query` (shorthand.py:47-53) -/
def addJoins {ρ} (q : AQuery ρ) : List Join → AQuery ρ
  | [] => q
  | j :: rest =>
      if (joinedAttrs q).contains j.rel || (joinedAttrs q).contains j.key then addJoins q rest
      else addJoins { q with joins := q.joins ++ [{ j with outer := true }] } rest

/-- SQLAlchemy `apply_odata_query` / `apply_odata_core`: joins the visitor asks for, then `.filter(where_clause)` -/
def applySa {ρ} (q : AQuery ρ) (required : List Join) (clause : ρ → Bool) : AQuery ρ :=
  let q' := addJoins q required
  { q' with wheres := q'.wheres ++ [clause] }

/-- Django `apply_odata_query`: `.annotate(**annotations)` then `.filter(where_clause)` -/
def applyDj {ρ} (q : AQuery ρ) (annots : List Str) (clause : ρ → Bool) : AQuery ρ :=
  { q with annotations := q.annotations ++ annots, wheres := q.wheres ++ [clause] }

/-- the rows of a candidate list that a query keeps -/
def AQuery.keep {ρ} (q : AQuery ρ) (rows : List ρ) : List ρ := rows.filter (fun r => q.wheres.all (fun w => w r))

/-! ### SQLAlchemy's function registry: package ↦ name ↦ class -/
abbrev Registry := List (String × String × String)      -- (package, function name, class)

def Registry.lookup (r : Registry) (pkg name : String) : Option String :=
  match r.find? (fun e => e.1 == pkg && e.2.1 == name) with
  | some e => some e.2.2
  | none => none

/-- `GenericFunction.__init_subclass__` registers the class under ITS OWN `package` attribute (default `_default`) -/
def Registry.register (r : Registry) (pkg name cls : String) : Registry := (pkg, name, cls) :: r

/-- what `import odata_query.sqlalchemy` adds: the classes of functions_ext.py, each under the package it declares -/
def functionsExt : List (String × String × String × String) :=
  [("ceil", "odata", "odata", "Integer"), ("floor", "odata", "odata", "Integer"), ("lower", "odata", "odata", "String"),
   ("ltrim", "odata", "odata", "String"), ("round", "odata", "odata", "Integer"), ("rtrim", "odata", "odata", "String"),
   ("strpos", "odata", "odata", "Integer"), ("substr", "odata", "odata", "String"), ("upper", "odata", "odata", "String")]

def afterImport (r : Registry) : Registry :=
  functionsExt.foldl (fun acc f => acc.register f.2.1 f.1 ("odata_query." ++ f.1)) r

end OQ
