/-
  Model/Ast.lean — the typed view of odata_query/ast.py (what the parser can produce) and its
  embedding into the uniform `Tree` (dataclass fields in declaration order, ast.py:14-381).
-/
import ODataVerif.Model.Basic
namespace OQ

structure Ident where
  name : Str
  ns : List Str := []
  deriving DecidableEq, Repr

inductive ArithOp | add | sub | mul | div | mod deriving DecidableEq, Repr
inductive CmpOp | eq | ne | lt | le | gt | ge | in_ deriving DecidableEq, Repr
inductive BoolOp | and_ | or_ deriving DecidableEq, Repr
inductive UnOp | not_ | neg deriving DecidableEq, Repr
inductive CollOp | any | all deriving DecidableEq, Repr
inductive LitKind
  | null | int | float | bool | str | geo | date | time | datetime | duration | guid
  deriving DecidableEq, Repr

mutual
inductive Expr
  | ident (i : Ident)
  | attr (owner : Expr) (name : Str)
  | lit (k : LitKind) (val : Str)           -- `Null` carries `[]`
  | list (xs : Exprs)
  | binop (o : ArithOp) (l r : Expr)
  | compare (o : CmpOp) (l r : Expr)
  | boolop (o : BoolOp) (l r : Expr)
  | unary (o : UnOp) (e : Expr)
  | named (n : Ident) (e : Expr)
  | call (f : Ident) (args : Exprs)
  | coll (owner : Expr) (o : CollOp) (lam : OptLam)
  deriving DecidableEq, Repr
inductive Exprs
  | nil
  | cons (h : Expr) (t : Exprs)
  deriving DecidableEq, Repr
inductive OptLam
  | none
  | some (v : Ident) (body : Expr)
  deriving DecidableEq, Repr
end

namespace Exprs
def toList : Exprs → List Expr
  | nil => []
  | cons h t => h :: t.toList
def ofList : List Expr → Exprs
  | [] => nil
  | h :: t => cons h (ofList t)
def length : Exprs → Nat
  | nil => 0
  | cons _ t => t.length + 1
def snoc : Exprs → Expr → Exprs
  | nil, e => cons e nil
  | cons h t, e => cons h (snoc t e)
@[simp] theorem toList_ofList (l : List Expr) : (ofList l).toList = l := by
  induction l with
  | nil => rfl
  | cons h t ih => simp [ofList, toList, ih]
@[simp] theorem ofList_toList : (l : Exprs) → ofList l.toList = l
  | nil => rfl
  | cons h t => by simp [ofList, toList, ofList_toList t]
@[simp] theorem length_toList : (l : Exprs) → l.toList.length = l.length
  | nil => rfl
  | cons h t => by simp [toList, length, length_toList t]
end Exprs

def LitKind.className : LitKind → String
  | .null => "Null" | .int => "Integer" | .float => "Float" | .bool => "Boolean"
  | .str => "String" | .geo => "Geography" | .date => "Date" | .time => "Time"
  | .datetime => "DateTime" | .duration => "Duration" | .guid => "GUID"

def LitKind.all : List LitKind :=
  [.null, .int, .float, .bool, .str, .geo, .date, .time, .datetime, .duration, .guid]

def LitKind.ofClassName (s : String) : Option LitKind :=
  LitKind.all.find? (fun k => k.className == s)

def ArithOp.className : ArithOp → String
  | .add => "Add" | .sub => "Sub" | .mul => "Mult" | .div => "Div" | .mod => "Mod"
def CmpOp.className : CmpOp → String
  | .eq => "Eq" | .ne => "NotEq" | .lt => "Lt" | .le => "LtE" | .gt => "Gt" | .ge => "GtE" | .in_ => "In"
def BoolOp.className : BoolOp → String
  | .and_ => "And" | .or_ => "Or"
def UnOp.className : UnOp → String
  | .not_ => "Not" | .neg => "USub"
def CollOp.className : CollOp → String
  | .any => "Any" | .all => "All"

def ArithOp.ofClassName : String → Option ArithOp
  | "Add" => some .add | "Sub" => some .sub | "Mult" => some .mul | "Div" => some .div
  | "Mod" => some .mod | _ => none
def CmpOp.ofClassName : String → Option CmpOp
  | "Eq" => some .eq | "NotEq" => some .ne | "Lt" => some .lt | "LtE" => some .le
  | "Gt" => some .gt | "GtE" => some .ge | "In" => some .in_ | _ => none
def BoolOp.ofClassName : String → Option BoolOp
  | "And" => some .and_ | "Or" => some .or_ | _ => none
def UnOp.ofClassName : String → Option UnOp
  | "Not" => some .not_ | "USub" => some .neg | _ => none
def CollOp.ofClassName : String → Option CollOp
  | "Any" => some .any | "All" => some .all | _ => none

open Tree TreeList in
def Ident.toTree (i : Ident) : Tree :=
  node "Identifier" (cons (str i.name) (cons (tuple i.ns) nil))

/-- `Kind()` — a field-less dataclass instance (operator tokens, `Null`). -/
def Tree.leaf (k : String) : Tree := .node k .nil

mutual
def Expr.toTree : Expr → Tree
  | .ident i => i.toTree
  | .attr o n => .node "Attribute" (.cons o.toTree (.cons (.str n) .nil))
  | .lit .null _ => Tree.leaf "Null"
  | .lit k v => .node k.className (.cons (.str v) .nil)
  | .list xs => .node "List" (.cons (.list xs.toTrees) .nil)
  | .binop o l r => .node "BinOp" (.cons (Tree.leaf o.className) (.cons l.toTree (.cons r.toTree .nil)))
  | .compare o l r => .node "Compare" (.cons (Tree.leaf o.className) (.cons l.toTree (.cons r.toTree .nil)))
  | .boolop o l r => .node "BoolOp" (.cons (Tree.leaf o.className) (.cons l.toTree (.cons r.toTree .nil)))
  | .unary o e => .node "UnaryOp" (.cons (Tree.leaf o.className) (.cons e.toTree .nil))
  | .named n e => .node "NamedParam" (.cons n.toTree (.cons e.toTree .nil))
  | .call f a => .node "Call" (.cons f.toTree (.cons (.list a.toTrees) .nil))
  | .coll ow o l => .node "CollectionLambda" (.cons ow.toTree (.cons (Tree.leaf o.className) (.cons l.toTree .nil)))
def Exprs.toTrees : Exprs → TreeList
  | .nil => .nil
  | .cons h t => .cons h.toTree t.toTrees
def OptLam.toTree : OptLam → Tree
  | .none => .none
  | .some v b => .node "Lambda" (.cons v.toTree (.cons b.toTree .nil))
end

def Ident.ofTree : Tree → Option Ident
  | .node "Identifier" (.cons (.str n) (.cons (.tuple ns) .nil)) => some ⟨n, ns⟩
  | _ => none

mutual
def Expr.ofTree : Tree → Option Expr
  | .node "Identifier" (.cons (.str n) (.cons (.tuple ns) .nil)) => some (.ident ⟨n, ns⟩)
  | .node "Attribute" (.cons o (.cons (.str n) .nil)) => do
      let o' ← Expr.ofTree o
      pure (.attr o' n)
  | .node "Null" .nil => some (.lit .null [])
  | .node "List" (.cons (.list xs) .nil) => do
      let xs' ← Exprs.ofTrees xs
      pure (.list xs')
  | .node "BinOp" (.cons (.node o .nil) (.cons l (.cons r .nil))) => do
      let o' ← ArithOp.ofClassName o
      let l' ← Expr.ofTree l
      let r' ← Expr.ofTree r
      pure (.binop o' l' r')
  | .node "Compare" (.cons (.node o .nil) (.cons l (.cons r .nil))) => do
      let o' ← CmpOp.ofClassName o
      let l' ← Expr.ofTree l
      let r' ← Expr.ofTree r
      pure (.compare o' l' r')
  | .node "BoolOp" (.cons (.node o .nil) (.cons l (.cons r .nil))) => do
      let o' ← BoolOp.ofClassName o
      let l' ← Expr.ofTree l
      let r' ← Expr.ofTree r
      pure (.boolop o' l' r')
  | .node "UnaryOp" (.cons (.node o .nil) (.cons e .nil)) => do
      let o' ← UnOp.ofClassName o
      let e' ← Expr.ofTree e
      pure (.unary o' e')
  | .node "NamedParam" (.cons n (.cons e .nil)) => do
      let n' ← Ident.ofTree n
      let e' ← Expr.ofTree e
      pure (.named n' e')
  | .node "Call" (.cons f (.cons (.list a) .nil)) => do
      let f' ← Ident.ofTree f
      let a' ← Exprs.ofTrees a
      pure (.call f' a')
  | .node "CollectionLambda" (.cons ow (.cons (.node o .nil) (.cons l .nil))) => do
      let ow' ← Expr.ofTree ow
      let o' ← CollOp.ofClassName o
      let l' ← OptLam.ofTree l
      pure (.coll ow' o' l')
  | .node k (.cons (.str v) .nil) => do
      let k' ← LitKind.ofClassName k
      if k' = .null then none else pure (.lit k' v)
  | _ => none
def Exprs.ofTrees : TreeList → Option Exprs
  | .nil => some .nil
  | .cons h t => do
      let h' ← Expr.ofTree h
      let t' ← Exprs.ofTrees t
      pure (.cons h' t')
def OptLam.ofTree : Tree → Option OptLam
  | .none => some .none
  | .node "Lambda" (.cons v (.cons b .nil)) => do
      let v' ← Ident.ofTree v
      let b' ← Expr.ofTree b
      pure (.some v' b')
  | _ => none
end

end OQ

namespace OQ
mutual
/-- every path hangs off an identifier (the only paths the parser builds, grammar.py:433-475) -/
def Expr.pathsOk : Expr → Bool
  | .ident _ => true
  | .attr o _ => (match o with
                  | .ident _ => true
                  | .attr _ _ => true
                  | _ => false) && o.pathsOk
  | .lit _ _ => true
  | .list xs => xs.pathsOk
  | .binop _ l r => l.pathsOk && r.pathsOk
  | .compare _ l r => l.pathsOk && r.pathsOk
  | .boolop _ l r => l.pathsOk && r.pathsOk
  | .unary _ e => e.pathsOk
  | .named _ e => e.pathsOk
  | .call _ a => a.pathsOk
  | .coll ow _ l => ow.pathsOk && l.pathsOk
def Exprs.pathsOk : Exprs → Bool
  | .nil => true
  | .cons h t => h.pathsOk && t.pathsOk
def OptLam.pathsOk : OptLam → Bool
  | .none => true
  | .some _ b => b.pathsOk
end
end OQ
