/-
  Model/Rewrite.lean — odata_query/rewrite.py over the uniform `Tree`:
  `IdentifierStripper` (rewrite.py, visit_Attribute + generic transformer) and `AliasRewriter`
  (visit_Identifier, visit_Attribute, visit_Call, visit_NamedParam, visit_Lambda + generic transformer).
-/
import ODataVerif.Model.Basic
import ODataVerif.Model.Visitor
namespace OQ

def mkIdent (name : Str) : Tree := .node "Identifier" (.cons (.str name) (.cons (.tuple []) .nil))
def mkAttr (owner : Tree) (a : Str) : Tree := .node "Attribute" (.cons owner (.cons (.str a) .nil))

def isAttr : Tree → Bool
  | .node "Attribute" (.cons _ (.cons (.str _) .nil)) => true
  | _ => false

/-! ### IdentifierStripper -/
mutual
/-- `IdentifierStripper(x).visit(t)` -/
def strip (x : Tree) : Tree → Tree
  | .node k fs =>
      let generic := Tree.node k (stripFields x fs)
      if k = "Attribute" then
        match fs with
        | .cons owner (.cons (.str a) .nil) =>
            -- visit_Attribute
            if owner = x then mkIdent a
            else if isAttr owner then mkAttr (strip x owner) a
            else .node k fs
        | _ => generic
      else generic
  | t => t
def stripFields (x : Tree) : TreeList → TreeList
  | .nil => .nil
  | .cons (.list items) rest => .cons (.list (stripItems x items)) (stripFields x rest)
  | .cons (.node k fs) rest => .cons (strip x (.node k fs)) (stripFields x rest)
  | .cons y rest => .cons y (stripFields x rest)
def stripItems (x : Tree) : TreeList → TreeList
  | .nil => .nil
  | .cons (.node k fs) rest => .cons (strip x (.node k fs)) (stripItems x rest)
  | .cons y rest => .cons y (stripItems x rest)
end

/-! ### AliasRewriter -/

/-- `dict` lookup in `self.replacements`; the dict comprehension lets a later duplicate key win -/
def lookupRepl : List (Tree × Tree) → Tree → Option Tree
  | [], _ => none
  | (k, v) :: rest, n =>
      match lookupRepl rest n with
      | some v' => some v'
      | none => if k = n then some v else none

/-- `AliasRewriter._root_of` -/
def rootOf : Tree → Tree
  | .node "Attribute" (.cons owner (.cons (.str _) .nil)) => rootOf owner
  | t => t

mutual
/-- `AliasRewriter(m).visit(t)` with `self.replacements = m` -/
def alias (m : List (Tree × Tree)) : Tree → Tree
  | .node k fs =>
      let generic := Tree.node k (aliasFields m fs)
      if k = "Identifier" then
        -- visit_Identifier
        (match lookupRepl m (.node k fs) with
         | some r => r
         | none => .node k fs)
      else if k = "Attribute" then
        -- visit_Attribute
        match fs with
        | .cons owner (.cons (.str a) .nil) =>
            (match lookupRepl m (.node k fs) with
             | some r => r
             | none => mkAttr (alias m owner) a)
        | _ => generic
      else if k = "Call" then
        -- visit_Call: the function name is kept, the arguments are visited
        match fs with
        | .cons func (.cons (.list args) .nil) =>
            .node k (.cons func (.cons (.list (aliasItems m args)) .nil))
        | _ => generic
      else if k = "NamedParam" then
        match fs with
        | .cons name (.cons param .nil) => .node k (.cons name (.cons (alias m param) .nil))
        | _ => generic
      else if k = "Lambda" then
        -- visit_Lambda: aliases rooted at the bound variable are shadowed inside the body
        match fs with
        | .cons ident (.cons body .nil) =>
            .node k (.cons ident (.cons (alias (m.filter (fun kv => rootOf kv.1 != ident)) body) .nil))
        | _ => generic
      else generic
  | t => t
def aliasFields (m : List (Tree × Tree)) : TreeList → TreeList
  | .nil => .nil
  | .cons (.list items) rest => .cons (.list (aliasItems m items)) (aliasFields m rest)
  | .cons (.node k fs) rest => .cons (alias m (.node k fs)) (aliasFields m rest)
  | .cons y rest => .cons y (aliasFields m rest)
def aliasItems (m : List (Tree × Tree)) : TreeList → TreeList
  | .nil => .nil
  | .cons (.node k fs) rest => .cons (alias m (.node k fs)) (aliasItems m rest)
  | .cons y rest => .cons y (aliasItems m rest)
end

end OQ
