/-
  Model/Parser.lean — token-level model of `ODataParser` (odata_query/grammar.py:337-710) as driven by
  `sly.yacc.Parser.parse`.

  The real parser is an LALR(1) automaton built by SLY from the productions and the precedence
  declaration; the model is a precedence-climbing parser over the same grammar (DESIGN Appendix A),
  tied to it by the correspondence check (exhaustive short token sequences + generated filters).
  It reproduces the order in which the driver raises things: SLY builds no default reductions for
  this grammar, so one look-ahead token is pulled from the lazy lexer before every reduction —
  a tokenising error at the next position wins over a function error of the construct just
  completed, and a look-ahead outside the reduction's look-ahead set is a syntax error reported
  before the action (`_function_call`) runs.
-/
import ODataVerif.Model.Basic
import ODataVerif.Model.Ast
import ODataVerif.Model.Lexer
namespace OQ

/-! ### ODATA_FUNCTIONS (grammar.py:23-62): name ↦ (min, max) -/
def odataFunctions : List (String × Nat × Nat) :=
  [("concat", 2, 2), ("contains", 2, 2), ("endswith", 2, 2), ("indexof", 2, 2), ("length", 1, 1),
   ("startswith", 2, 2), ("substring", 2, 3), ("matchesPattern", 2, 2), ("tolower", 1, 1),
   ("toupper", 1, 1), ("trim", 1, 1), ("year", 1, 1), ("month", 1, 1), ("day", 1, 1), ("hour", 1, 1),
   ("minute", 1, 1), ("second", 1, 1), ("fractionalseconds", 1, 1), ("totalseconds", 1, 1),
   ("date", 1, 1), ("time", 1, 1), ("totaloffsetminutes", 1, 1), ("mindatetime", 0, 0),
   ("maxdatetime", 0, 0), ("now", 0, 0), ("round", 1, 1), ("floor", 1, 1), ("ceiling", 1, 1),
   ("geo.distance", 2, 2), ("geo.length", 1, 1), ("geo.intersects", 2, 2), ("hassubset", 2, 2),
   ("hassubsequence", 2, 2)]

/-- `".".join(parts)` -/
def joinDots : List Str → Str
  | [] => []
  | [x] => x
  | x :: rest => x ++ '.' :: joinDots rest

/-- `Identifier.full_name()` (ast.py:24) -/
def Ident.fullName (i : Ident) : Str := joinDots (i.ns ++ [i.name])

def lookupFn (tbl : List (String × Nat × Nat)) (n : Str) : Option (Nat × Nat) :=
  match tbl.find? (fun e => e.1.toList == n) with
  | some e => some e.2
  | none => none

/-- `ODataParser._function_call` (grammar.py:563-587) over a given function table. -/
def functionCallWith (tbl : List (String × Nat × Nat)) (f : Ident) (args : Exprs) : Outcome Expr :=
  if f.ns = [] ∨ f.ns = ["geo".toList] then
    match lookupFn tbl f.fullName with
    | none => .lib (.unknownFunction f.fullName)
    | some (lo, hi) =>
        if args.length < lo ∨ args.length > hi then
          .lib (.argumentCount f.fullName lo hi args.length)
        else .ok (.call f args)
  else .ok (.call f args)

def functionCall (f : Ident) (args : Exprs) : Outcome Expr := functionCallWith odataFunctions f args

/-! ### errors inside the parser -/

inductive PErr
  | syntax (remaining : Nat)   -- ParsingException at the token with `remaining` tokens left (incl. itself)
  | eof                        -- ParsingException(None, eof=True)
  | tokenizing                 -- the lazy lexer raised while the driver pulled the look-ahead
  | exc (o : Outcome Unit)     -- raised by a grammar action (`_function_call`, or a foreign exception)
  | fuel                       -- model artefact: recursion budget exhausted (shown unreachable)
  deriving DecidableEq, Repr


/-- The parser fails on the head of `ts` (pulling it from the lexer first). -/
def failAt (lexErr : Bool) : List Tok → PErr
  | [] => if lexErr then .tokenizing else .eof
  | ts => .syntax ts.length

/-- optional `WS` (the `BWS` non-terminal, grammar.py:642-658) -/
def skipWs : List Tok → List Tok
  | .ws :: r => r
  | r => r

/-- operator levels of `ODataParser.precedence` (grammar.py:344-353), 1 = loosest -/
def BoolOp.lvl : BoolOp → Nat
  | .or_ => 1 | .and_ => 2
def CmpOp.lvl : CmpOp → Nat
  | .eq | .ne => 3
  | .lt | .le | .gt | .ge => 4
  | .in_ => 8
def ArithOp.lvl : ArithOp → Nat
  | .add | .sub => 5
  | .mul | .div | .mod => 6
/-- level of the prefix operators `not`, unary `-` -/
def unaryLvl : Nat := 7

/-- tokens in the look-ahead set of the reductions that complete a `common_expr` (the fourteen binary
    operators, `)`, `,`, `WS`; end of input is handled separately). -/
def isFollow : Tok → Bool
  | .arith _ | .cmp _ | .bool _ | .rp | .comma | .ws => true
  | _ => false

/-- `_explode_attr` on the shapes it can meet (grammar.py:683); `none` = NotImplementedError. -/
def explodePath : Expr → Option (List Str)
  | .ident i => some [i.name]
  | .attr o n => (explodePath o).map (· ++ [n])
  | _ => none

/-- the rebuild half of `_reverse_attributes` (grammar.py:663): left-nested chain over the names. -/
def rebuildPath : List Str → Option Expr
  | [] => none
  | h :: rest => some (rest.foldl (fun o n => .attr o n) (.ident ⟨h, []⟩))

/-- action of `property_path_expr : entity_navigation_property single_navigation_expr`
    (grammar.py:448-470) with `p[0] = i`, `p[1] = tail`. -/
def pathCons (i : Ident) (tail : Expr) : Outcome Expr :=
  match tail with
  | .attr _ _ =>
      match explodePath tail with
      | some names => (match rebuildPath (i.name :: names) with
                       | some e => .ok e
                       | none => .foreign "IndexError")
      | none => .notImplemented
  | .coll owner op lam =>
      match owner with
      | .attr _ _ =>
          (match explodePath owner with
           | some names => (match rebuildPath (i.name :: names) with
                            | some e => .ok (.coll e op lam)
                            | none => .foreign "IndexError")
           | none => .notImplemented)
      | .ident o => .ok (.coll (.attr (.ident i) o.name) op lam)
      | _ => .foreign "AttributeError"
  | .ident j => .ok (.attr (.ident i) j.name)
  | _ => .foreign "AttributeError"

def liftOutcome {α} (o : Outcome α) (rest : List Tok) : Except PErr (α × List Tok) :=
  match o with
  | .ok a => .ok (a, rest)
  | .lib e => .error (.exc (.lib e))
  | .notImplemented => .error (.exc .notImplemented)
  | .foreign c => .error (.exc (.foreign c))

/-- a call has just been completed with `rest` still to read: the driver looks at the next token
    first, then runs `_function_call`. -/
def finishCall (lexErr : Bool) (f : Ident) (args : Exprs) (rest : List Tok) : Except PErr (Expr × List Tok) :=
  match rest with
  | [] => if lexErr then .error .tokenizing else liftOutcome (functionCall f args) rest
  | t :: _ => if isFollow t then liftOutcome (functionCall f args) rest else .error (.syntax rest.length)

/-- expect `)` -/
def expectRp (lexErr : Bool) : List Tok → Except PErr (List Tok)
  | .rp :: r => .ok r
  | ts => .error (failAt lexErr ts)

mutual
/-- `common_expr` at minimum operator level `min` -/
def parseExpr (lexErr : Bool) : Nat → Nat → List Tok → Except PErr (Expr × List Tok)
  | 0, _, _ => .error .fuel
  | f + 1, min, ts => do
      let (lhs, r) ← parsePrefix lexErr f ts
      parseLoop lexErr f min lhs r

/-- the operator loop: `lhs` has been read -/
def parseLoop (lexErr : Bool) : Nat → Nat → Expr → List Tok → Except PErr (Expr × List Tok)
  | 0, _, _, _ => .error .fuel
  | f + 1, min, lhs, ts =>
      match ts with
      | .bool o :: r =>
          if o.lvl ≥ min then do
            let (rhs, r') ← parseExpr lexErr f (o.lvl + 1) r
            parseLoop lexErr f min (.boolop o lhs rhs) r'
          else .ok (lhs, ts)
      | .cmp .in_ :: r =>
          if CmpOp.in_.lvl ≥ min then do
            let (rhs, r') ← parseListExpr lexErr f r
            parseLoop lexErr f min (.compare .in_ lhs rhs) r'
          else .ok (lhs, ts)
      | .cmp o :: r =>
          if o.lvl ≥ min then do
            let (rhs, r') ← parseExpr lexErr f (o.lvl + 1) r
            parseLoop lexErr f min (.compare o lhs rhs) r'
          else .ok (lhs, ts)
      | .arith o :: r =>
          if o.lvl ≥ min then do
            let (rhs, r') ← parseExpr lexErr f (o.lvl + 1) r
            parseLoop lexErr f min (.binop o lhs rhs) r'
          else .ok (lhs, ts)
      | _ => .ok (lhs, ts)

/-- everything that can start a `common_expr` -/
def parsePrefix (lexErr : Bool) : Nat → List Tok → Except PErr (Expr × List Tok)
  | 0, _ => .error .fuel
  | f + 1, ts =>
      match ts with
      | .not_ :: r => do
          let (e, r') ← parseExpr lexErr f (unaryLvl + 1) r
          pure (.unary .not_ e, r')
      | .uminus :: r => do
          let (e, r') ← parseExpr lexErr f (unaryLvl + 1) (skipWs r)
          pure (.unary .neg e, r')
      | .lit k v :: r => .ok (.lit k v, r)
      | .lp :: r => parseParen lexErr f (skipWs r)
      | .ident i :: .lp :: .rp :: r => finishCall lexErr i .nil r
      | .ident i :: .lp :: r => parseCallArgs lexErr f i (skipWs r)
      | .ident i :: r => parsePath lexErr f i r
      | _ => .error (failAt lexErr ts)

/-- after `"(" BWS`: a parenthesised expression or a list (grammar.py:370, 400-423) -/
def parseParen (lexErr : Bool) : Nat → List Tok → Except PErr (Expr × List Tok)
  | 0, _ => .error .fuel
  | f + 1, ts => do
      let (e, r) ← parseExpr lexErr f 0 ts
      match skipWs r with
      | .rp :: r' => pure (e, r')
      | .comma :: r' =>
          (match skipWs r' with
           | .rp :: r'' => pure (.list (.cons e .nil), r'')
           | r'' => do
               let (items, r3) ← parseItems lexErr f (.cons e .nil) r''
               pure (.list items, r3))
      | r' => .error (failAt lexErr r')

/-- `list_items` continuation: `acc` read, positioned at the next item (grammar.py:400-409) -/
def parseItems (lexErr : Bool) : Nat → Exprs → List Tok → Except PErr (Exprs × List Tok)
  | 0, _, _ => .error .fuel
  | f + 1, acc, ts => do
      let (e, r) ← parseExpr lexErr f 0 ts
      let acc' := acc.snoc e
      match skipWs r with
      | .rp :: r' => pure (acc', r')
      | .comma :: r' => parseItems lexErr f acc' (skipWs r')
      | r' => .error (failAt lexErr r')

/-- the right operand of `in`: must be a `list_expr` (grammar.py:539) -/
def parseListExpr (lexErr : Bool) : Nat → List Tok → Except PErr (Expr × List Tok)
  | 0, _ => .error .fuel
  | f + 1, ts =>
      match ts with
      | .lp :: r => do
          let (e, r1) ← parseExpr lexErr f 0 (skipWs r)
          match skipWs r1 with
          | .comma :: r2 =>
              (match skipWs r2 with
               | .rp :: r3 => pure (.list (.cons e .nil), r3)
               | r3 => do
                   let (items, r4) ← parseItems lexErr f (.cons e .nil) r3
                   pure (.list items, r4))
          | r2 => .error (failAt lexErr r2)
      | _ => .error (failAt lexErr ts)

/-- after `IDENT "(" BWS` (not immediately `)`): positional or named arguments (grammar.py:589-632) -/
def parseCallArgs (lexErr : Bool) : Nat → Ident → List Tok → Except PErr (Expr × List Tok)
  | 0, _, _ => .error .fuel
  | f + 1, i, ts =>
      match ts with
      | .ident n :: .eqs :: r => do
          let (e, r1) ← parseExpr lexErr f 0 r
          parseNamedRest lexErr f i (.cons (.named n e) .nil) r1
      | _ => do
          let (e, r1) ← parseExpr lexErr f 0 ts
          match skipWs r1 with
          | .rp :: r2 => finishCall lexErr i (.cons e .nil) r2
          | .comma :: r2 =>
              (match skipWs r2 with
               | .rp :: r3 => finishCall lexErr i (.cons e .nil) r3
               | r3 => do
                   let (items, r4) ← parseItems lexErr f (.cons e .nil) r3
                   finishCall lexErr i items r4)
          | r2 => .error (failAt lexErr r2)

/-- `list_named_param` continuation (grammar.py:607-632) -/
def parseNamedRest (lexErr : Bool) : Nat → Ident → Exprs → List Tok → Except PErr (Expr × List Tok)
  | 0, _, _, _ => .error .fuel
  | f + 1, i, acc, ts =>
      match skipWs ts with
      | .rp :: r => finishCall lexErr i acc r
      | .comma :: r =>
          (match skipWs r with
           | .ident n :: .eqs :: r' => do
               let (e, r1) ← parseExpr lexErr f 0 r'
               parseNamedRest lexErr f i (acc.snoc (.named n e)) r1
           | .ident _ :: r' => .error (failAt lexErr r')
           | r' => .error (failAt lexErr r'))
      | r => .error (failAt lexErr r)

/-- `property_path_expr` after its first identifier `i` (grammar.py:433-508) -/
def parsePath (lexErr : Bool) : Nat → Ident → List Tok → Except PErr (Expr × List Tok)
  | 0, _, _ => .error .fuel
  | f + 1, i, ts =>
      match ts with
      | .slash :: .ident j :: r => do
          let (tail, r') ← parsePath lexErr f j r
          liftOutcome (pathCons i tail) r'
      | .slash :: .any :: .lp :: r =>
          (match skipWs r with
           | .rp :: r' => pure (.coll (.ident i) .any .none, r')
           | r' => do
               let (lam, r2) ← parseLambda lexErr f r'
               let r3 ← expectRp lexErr (skipWs r2)
               pure (.coll (.ident i) .any lam, r3))
      | .slash :: .all :: .lp :: r => do
          let (lam, r2) ← parseLambda lexErr f (skipWs r)
          let r3 ← expectRp lexErr (skipWs r2)
          pure (.coll (.ident i) .all lam, r3)
      | .slash :: .any :: r => .error (failAt lexErr r)
      | .slash :: .all :: r => .error (failAt lexErr r)
      | .slash :: r => .error (failAt lexErr r)
      | _ => .ok (.ident i, ts)

/-- `lambda_ : ODATA_IDENTIFIER BWS ":" BWS common_expr` (grammar.py:490) -/
def parseLambda (lexErr : Bool) : Nat → List Tok → Except PErr (OptLam × List Tok)
  | 0, _ => .error .fuel
  | f + 1, ts =>
      match ts with
      | .ident v :: r =>
          (match skipWs r with
           | .colon :: r' => do
               let (body, r'') ← parseExpr lexErr f 0 (skipWs r')
               pure (.some v body, r'')
           | r' => .error (failAt lexErr r'))
      | _ => .error (failAt lexErr ts)
end

/-- fuel that is always enough (`parse_fuel_sufficient`) -/
def parseFuel (ts : List Tok) : Nat := 4 * ts.length + 8

/-- `ODataParser().parse(tokens)` on the tokens produced before the first lexing error. -/
def parseToks (lexErr : Option Nat) (ts : List Tok) : Outcome Expr :=
  match parseExpr lexErr.isSome (parseFuel ts) 0 ts with
  | .ok (e, []) =>
      (match lexErr with
       | some i => .lib (.tokenizing i)
       | none => .ok e)
  | .ok (_, r) => .lib (.parsing (some (ts.length - r.length)))
  | .error (.syntax n) => .lib (.parsing (some (ts.length - n)))
  | .error .eof => .lib (.parsing none)
  | .error .tokenizing => .lib (.tokenizing (lexErr.getD 0))
  | .error (.exc (.lib e)) => .lib e
  | .error (.exc .notImplemented) => .notImplemented
  | .error (.exc (.foreign c)) => .foreign c
  | .error (.exc (.ok _)) => .foreign "model"
  | .error .fuel => .foreign "model-fuel"

/-- `ODataParser().parse(ODataLexer().tokenize(text))` -/
def parseText (env : CharEnv) (s : Str) : Outcome Expr :=
  let lr := lexAll env s
  parseToks lr.err lr.toks

end OQ
