/-
  Model/PyVal.lean — the `py_val` properties of the literal nodes (odata_query/ast.py:41-196) on the
  shapes the lexer admits.  No floats (DESIGN §3.8): `Float.py_val` is not modelled; `Duration.py_val`
  is modelled in exact integer arithmetic (microseconds) and is valid while every component is small
  enough for IEEE doubles to be exact to the microsecond (bounds stated in the evidence of C06).
-/
import ODataVerif.Model.Basic
import ODataVerif.Model.Ast
import ODataVerif.Model.Lexer
namespace OQ

/-- canonical description of a Python value (what the harness prints for the real `py_val`) -/
inductive PyValue
  | none
  | int (n : Int)
  | bool (b : Bool)
  | str (s : Str)
  | date (y m d : Nat)
  | time (h mi s us : Nat)
  | datetime (y m d h mi s us : Nat) (offsetMinutes : Option Int)   -- `none` = naive
  | guid (n : Nat)
  | duration (microseconds : Int)
  | unmodelled
  deriving DecidableEq, Repr

def asciiDigit? (c : Char) : Option Nat :=
  if '0' ≤ c ∧ c ≤ '9' then some (c.toNat - 48) else none

def natOfDigits : List Char → Option Nat
  | [] => none
  | cs => cs.foldl (fun acc c => match acc, asciiDigit? c with
                                 | some a, some d => some (a * 10 + d)
                                 | _, _ => none) (some 0)

def hexDigit? (c : Char) : Option Nat :=
  if '0' ≤ c ∧ c ≤ '9' then some (c.toNat - 48)
  else if 'a' ≤ c ∧ c ≤ 'f' then some (c.toNat - 87)
  else if 'A' ≤ c ∧ c ≤ 'F' then some (c.toNat - 55)
  else none

def natOfHex (cs : List Char) : Option Nat :=
  cs.foldl (fun acc c => match acc, hexDigit? c with
                         | some a, some d => some (a * 16 + d)
                         | _, _ => none) (some 0)

def isLeap (y : Nat) : Bool := (y % 4 == 0 && y % 100 != 0) || y % 400 == 0

def daysInMonth (y m : Nat) : Nat :=
  if m == 2 then (if isLeap y then 29 else 28)
  else if m == 4 || m == 6 || m == 9 || m == 11 then 30 else 31

/-- `int(val)` for ASCII spellings -/
def pyInt (v : Str) : Outcome PyValue :=
  match v with
  | '-' :: ds => (match natOfDigits ds with | some n => .ok (.int (-(n : Int))) | none => .ok .unmodelled)
  | '+' :: ds => (match natOfDigits ds with | some n => .ok (.int n) | none => .ok .unmodelled)
  | ds => (match natOfDigits ds with | some n => .ok (.int n) | none => .ok .unmodelled)

/-- `date.fromisoformat("YYYY-MM-DD")` : ValueError for a day the month does not have, and for year 0000 (MINYEAR = 1) -/
def pyDate (v : Str) : Outcome PyValue :=
  match v with
  | [y1, y2, y3, y4, '-', m1, m2, '-', d1, d2] =>
      (match natOfDigits [y1, y2, y3, y4], natOfDigits [m1, m2], natOfDigits [d1, d2] with
       | some y, some m, some d =>
           if 1 ≤ y ∧ 1 ≤ m ∧ m ≤ 12 ∧ 1 ≤ d ∧ d ≤ daysInMonth y m then .ok (.date y m d) else .foreign "ValueError"
       | _, _, _ => .ok .unmodelled)
  | _ => .ok .unmodelled

/-- fraction digits → microseconds (truncated to six digits) -/
def microsOf (fs : List Char) : Option Nat :=
  natOfDigits ((fs ++ ['0', '0', '0', '0', '0', '0']).take 6)

/-- `hh:mm[:ss[.f…]]` ; returns (h, mi, s, us, rest) -/
def parseClock : List Char → Option (Nat × Nat × Nat × Nat × List Char)
  | h1 :: h2 :: ':' :: m1 :: m2 :: ':' :: s1 :: s2 :: '.' :: r =>
      let fs := r.takeWhile (fun c => (asciiDigit? c).isSome)
      (match natOfDigits [h1, h2], natOfDigits [m1, m2], natOfDigits [s1, s2], microsOf fs with
       | some h, some m, some s, some us => if fs.isEmpty then none else some (h, m, s, us, r.drop fs.length)
       | _, _, _, _ => none)
  | h1 :: h2 :: ':' :: m1 :: m2 :: ':' :: s1 :: s2 :: r =>
      (match natOfDigits [h1, h2], natOfDigits [m1, m2], natOfDigits [s1, s2] with
       | some h, some m, some s => some (h, m, s, 0, r)
       | _, _, _ => none)
  | h1 :: h2 :: ':' :: m1 :: m2 :: r =>
      (match natOfDigits [h1, h2], natOfDigits [m1, m2] with
       | some h, some m => some (h, m, 0, 0, r)
       | _, _ => none)
  | _ => none

/-- `time.fromisoformat` on the TIME shapes (`hh:mm::ss` is a ValueError) -/
def pyTime (v : Str) : Outcome PyValue :=
  match parseClock v with
  | some (h, m, s, us, []) => if h < 24 ∧ m < 60 ∧ s < 60 then .ok (.time h m s us) else .foreign "ValueError"
  | some _ => .foreign "ValueError"
  | none => .foreign "ValueError"

/-- `dateutil.parser.isoparse` on the DATETIME shapes -/
def pyDateTime (v : Str) : Outcome PyValue :=
  match v with
  | y1 :: y2 :: y3 :: y4 :: '-' :: m1 :: m2 :: '-' :: d1 :: d2 :: _sep :: rest =>
      (match natOfDigits [y1, y2, y3, y4], natOfDigits [m1, m2], natOfDigits [d1, d2], parseClock rest with
       | some y, some mo, some d, some (h, mi, s, us, tz) =>
           if ¬ (1 ≤ y ∧ 1 ≤ mo ∧ mo ≤ 12 ∧ 1 ≤ d ∧ d ≤ daysInMonth y mo) then .foreign "ValueError"
           else
             (match tz with
              | [] => .ok (.datetime y mo d h mi s us none)
              | [z] => if z == 'Z' || z == 'z' then .ok (.datetime y mo d h mi s us (some 0)) else .foreign "ValueError"
              | sg :: o1 :: o2 :: ':' :: o3 :: [o4] =>
                  (match natOfDigits [o1, o2], natOfDigits [o3, o4] with
                   | some oh, some om =>
                       let mins : Int := (oh * 60 + om : Nat)
                       if sg == '+' then .ok (.datetime y mo d h mi s us (some mins))
                       else if sg == '-' then .ok (.datetime y mo d h mi s us (some (-mins)))
                       else .foreign "ValueError"
                   | _, _ => .ok .unmodelled)
              | _ => .foreign "ValueError")
       | _, _, _, _ => .foreign "ValueError")
  | _ => .ok .unmodelled

/-- `UUID(val)` -/
def pyGuid (v : Str) : Outcome PyValue :=
  match natOfHex (v.filter (· != '-')) with
  | some n => .ok (.guid n)
  | none => .ok .unmodelled

/-- one `\d+L` component of a duration value: (number, rest) -/
def durComponent (l : Char) (cs : List Char) : Option Nat × List Char :=
  let ds := cs.takeWhile (fun c => (asciiDigit? c).isSome)
  match ds, cs.drop ds.length with
  | [], _ => (none, cs)
  | _, c :: r => if c == l then (natOfDigits ds, r) else (none, cs)
  | _, [] => (none, cs)

/-- seconds `\d+(\.\d+)?S` as microseconds (fraction truncated… Python rounds: only ≤ 6 fraction digits are modelled) -/
def durSecondsMicros (cs : List Char) : Option (Option Nat × List Char) :=
  let ds := cs.takeWhile (fun c => (asciiDigit? c).isSome)
  match ds, cs.drop ds.length with
  | [], _ => some (none, cs)
  | _, 'S' :: r => (natOfDigits ds).map (fun n => (some (n * 1000000), r))
  | _, '.' :: r =>
      let fs := r.takeWhile (fun c => (asciiDigit? c).isSome)
      (match r.drop fs.length with
       | 'S' :: r' =>
           if fs.length > 6 ∨ fs.isEmpty then none
           else (match natOfDigits ds, microsOf fs with
                 | some n, some us => some (some (n * 1000000 + us), r')
                 | _, _ => none)
       | _ => some (none, cs))
  | _, _ => some (none, cs)

/-- `Duration.py_val` (ast.py:129): 365.25-day years, 30.44-day months, exact in microseconds -/
def pyDuration (v : Str) : Outcome PyValue :=
  let (neg, r) := match v with
    | '-' :: t => (true, t)
    | '+' :: t => (false, t)
    | t => (false, t)
  match r with
  | 'P' :: r =>
      let (y, r) := durComponent 'Y' r
      let (mo, r) := durComponent 'M' r
      let (d, r) := durComponent 'D' r
      let res : Option (Nat × Nat × Option Nat × List Char) :=
        match r with
        | 'T' :: t =>
            let (h, t) := durComponent 'H' t
            let (mi, t) := durComponent 'M' t
            (match durSecondsMicros t with
             | some (s, t') => some (h.getD 0, mi.getD 0, s, t')
             | none => none)
        | t => some (0, 0, some 0, t)
      (match res with
       | some (h, mi, s, []) =>
           -- days*86400 + years*31557600 + months*2630016 seconds
           let secs : Nat := d.getD 0 * 86400 + y.getD 0 * 31557600 + mo.getD 0 * 2630016 + h * 3600 + mi * 60
           let us : Nat := secs * 1000000 + s.getD 0
           .ok (.duration (if neg then -(us : Int) else us))
       | some _ => .foreign "ValueError"
       | none => .ok .unmodelled)
  | _ => .foreign "ValueError"

/-- `node.py_val` for a literal node -/
def pyVal (k : LitKind) (v : Str) : Outcome PyValue :=
  match k with
  | .null => .ok .none
  | .int => pyInt v
  | .float => .ok .unmodelled
  | .bool => .ok (.bool (v.map asciiLower == "true".toList))
  | .str => .ok (.str v)
  | .geo => .notImplemented        -- Geography has no py_val override: `_Literal.py_val` raises NotImplementedError
  | .date => pyDate v
  | .time => pyTime v
  | .datetime => pyDateTime v
  | .duration => pyDuration v
  | .guid => pyGuid v

end OQ
