/-
  Model/Sql.lean — string-exact model of the three raw SQL visitors
    odata_query/sql/base.py   (AstToSqlVisitor,        `Dialect.std`)
    odata_query/sql/sqlite.py (AstToSqliteSqlVisitor,  `Dialect.sqlite`)
    odata_query/sql/athena.py (AstToAthenaSqlVisitor,  `Dialect.athena`)

  The visitors build their text by f-string concatenation.  The model builds the same text as a list
  of `Piece`s (a token in canonical spelling, verbatim quoted text, verbatim raw text, blanks) so that
  the theorems can talk about tokens, while `renderPieces` gives the exact characters that the Python
  returns (this is what the correspondence check compares).
-/
import ODataVerif.Model.Basic
import ODataVerif.Model.Ast
import ODataVerif.Model.Lexer
import ODataVerif.Model.Parser
import ODataVerif.Model.Typing
import ODataVerif.Spec.SqlLex
namespace OQ
open Spec (SqlTok)

inductive Dialect | std | sqlite | athena
  deriving DecidableEq, Repr

inductive Piece
  | tok (t : SqlTok)     -- canonical spelling (string literals with quotes doubled)
  | sq (s : Str)         -- `'` ++ s ++ `'`  verbatim: text the code puts between quotes WITHOUT escaping
  | dq (s : Str)         -- `"` ++ s ++ `"`  verbatim
  | raw (s : Str)        -- verbatim (numeric literal text copied from the filter)
  | ws (s : Str)         -- blanks
  deriving DecidableEq, Repr

def dblQuote (q : Char) : Str → Str
  | [] => []
  | c :: t => if c == q then q :: q :: dblQuote q t else c :: dblQuote q t

def spellTokSql : SqlTok → Str
  | .str s => '\'' :: dblQuote '\'' s ++ ['\'']
  | .qid s => '"' :: dblQuote '"' s ++ ['"']
  | .num s => s
  | .word s => s
  | .op s => s
  | .lp => ['('] | .rp => [')'] | .comma => [','] | .dot => ['.']

def Piece.spell : Piece → Str
  | .tok t => spellTokSql t
  | .sq s => '\'' :: s ++ ['\'']
  | .dq s => '"' :: s ++ ['"']
  | .raw s => s
  | .ws s => s

def renderPieces : List Piece → Str
  | [] => []
  | p :: ps => p.spell ++ renderPieces ps

/-! ### small helpers -/
def w (s : String) : Piece := .tok (.word s.toList)
def o (s : String) : Piece := .tok (.op s.toList)
def sp : Piece := .ws [' ']
def lp : Piece := .tok .lp
def rp : Piece := .tok .rp
def comma : Piece := .tok .comma

/-- `res = f"({res})"` -/
def parenP (ps : List Piece) : List Piece := lp :: ps ++ [rp]

/-- `name(args…)` with `", "` between the arguments -/
def joinComma : List (List Piece) → List Piece
  | [] => []
  | [a] => a
  | a :: rest => a ++ comma :: sp :: joinComma rest

def callP (name : String) (args : List (List Piece)) : List Piece :=
  w name :: lp :: joinComma args ++ [rp]

/-- `str.lower()` restricted to what can matter for a handler lookup: ASCII letters, and U+212A (KELVIN
    SIGN, whose lower case is the ASCII `k`). No other character lower-cases to ASCII. -/
def pyLowerC (c : Char) : Char := if c.toNat == 0x212A then 'k' else asciiLower c
def pyLower (s : Str) : Str := s.map pyLowerC
/-- `str.upper()` on ASCII; U+017F (long s) ↦ `S`, U+0131 (dotless i) ↦ `I` -/
def pyUpperC (c : Char) : Char :=
  if c.toNat == 0x17F then 'S' else if c.toNat == 0x131 then 'I' else asciiUpper c
def pyUpper (s : Str) : Str := s.map pyUpperC

def joinWith (sep : Str) : List Str → Str
  | [] => []
  | [a] => a
  | a :: rest => a ++ sep ++ joinWith sep rest

/-- `node.func.full_name().replace(".", "__")`  (base.py visit_Call) -/
def funcKey (f : Ident) : Str :=
  (joinWith ['.'] (f.ns ++ [f.name])).flatMap (fun c => if c == '.' then ['_', '_'] else [c])

/-- the `sqlfunc_*` methods reachable on the three classes (identical name sets; Generated.sqlHandlers) -/
def sqlHandlers : List String :=
  ["ceiling", "concat", "contains", "date", "day", "endswith", "floor", "hassubset", "hour", "indexof",
   "length", "minute", "month", "now", "round", "startswith", "substring", "tolower", "toupper", "trim", "year"]

/-! ### precedence of the rendered text (base.py `_precedence`, `_FUNCTION_PRECEDENCE`) -/
def funcPrecTable : List (String × Nat) :=
  [("contains", 4), ("startswith", 4), ("endswith", 4), ("hassubset", 4), ("indexof", 5), ("concat", 5)]

def funcPrec (name : Str) : Nat :=
  match funcPrecTable.find? (fun e => e.1 == String.ofList name) with
  | some e => e.2
  | none => 8

def sqlPrec : Expr → Nat
  | .boolop .or_ _ _ => 1
  | .boolop .and_ _ _ => 2
  | .unary .not_ _ => 3
  | .unary .neg _ => 7
  | .compare _ _ _ => 4
  | .binop .add _ _ | .binop .sub _ _ => 5
  | .binop _ _ _ => 6
  | .call f _ => if f.ns.isEmpty then funcPrec (pyLower f.name) else 8
  | _ => 8

/-- the tail of `_visit_operand` -/
def wrapOperand (e : Expr) (parent : Nat) (orEqual : Bool) (ps : List Piece) : List Piece :=
  if sqlPrec e < parent || (orEqual && sqlPrec e == parent) then parenP ps else ps

/-! ### literals -/

/-- `clean_athena_identifier`: `.lower()` then every character outside `[a-zA-Z0-9_]` becomes `_`.
    (U+0130 lower-cases to two characters, `i` + U+0307.) -/
def athenaClean (s : Str) : Str :=
  s.flatMap (fun c =>
    if c.toNat == 0x130 then ['i', '_']
    else
      let c' := pyLowerC c
      if Spec.isWordCh c' then [c'] else ['_'])

def identPieces (d : Dialect) (alias : Option Str) (name : Str) : List Piece :=
  let nm := if d = .athena then athenaClean name else name
  match alias with
  | some a => if a.isEmpty then [.dq nm] else [.dq a, .tok .dot, .dq nm]
  | none => [.dq nm]

/-- one `(\d+L)?` group of `ast.DURATION_PATTERN` (no `re.I`; `\d` is Unicode): digits without the letter -/
def durGroupU (isDigit : Char → Bool) (l : Char) (cs : Str) : Option Str × Str :=
  let ds := cs.takeWhile isDigit
  match ds, cs.drop ds.length with
  | [], _ => (none, cs)
  | _, c :: r => if c == l then (some ds, r) else (none, cs)
  | _, [] => (none, cs)

/-- `(\d+(?:\.\d+)?S)?` -/
def durSecondsU (isDigit : Char → Bool) (cs : Str) : Option Str × Str :=
  let ds := cs.takeWhile isDigit
  match ds, cs.drop ds.length with
  | [], _ => (none, cs)
  | _, 'S' :: r => (some ds, r)
  | _, '.' :: r =>
      let fs := r.takeWhile isDigit
      (match fs, r.drop fs.length with
       | [], _ => (none, cs)
       | _, 'S' :: r' => (some (ds ++ '.' :: fs), r')
       | _, _ => (none, cs))
  | _, _ => (none, cs)

structure DurParts where
  sign : Option Char
  years : Option Str
  months : Option Str
  days : Option Str
  hours : Option Str
  minutes : Option Str
  seconds : Option Str
  deriving DecidableEq, Repr

/-- `Duration.unpack` (ast.py): `DURATION_PATTERN.fullmatch`; `none` = `ValueError` -/
def durUnpack (isDigit : Char → Bool) (v : Str) : Option DurParts :=
  let (sg, r) := match v with
    | '+' :: t => (some '+', t)
    | '-' :: t => (some '-', t)
    | t => (none, t)
  match r with
  | 'P' :: r =>
      let (y, r) := durGroupU isDigit 'Y' r
      let (mo, r) := durGroupU isDigit 'M' r
      let (d, r) := durGroupU isDigit 'D' r
      match r with
      | [] => some ⟨sg, y, mo, d, none, none, none⟩
      | 'T' :: t =>
          let (h, t) := durGroupU isDigit 'H' t
          let (mi, t) := durGroupU isDigit 'M' t
          let (s, t) := durSecondsU isDigit t
          if t.isEmpty then some ⟨sg, y, mo, d, h, mi, s⟩ else none
      | _ => none
  | _ => none

def intervalP (n : Str) (unit : String) : List Piece := [w "INTERVAL", sp, .sq n, sp, w unit]

def joinPlus : List (List Piece) → List Piece
  | [] => []
  | [a] => a
  | a :: rest => a ++ sp :: o "+" :: sp :: joinPlus rest

/-- `visit_Duration` (base.py) -/
def durationPieces (isDigit : Char → Bool) (v : Str) : Outcome (List Piece) :=
  match durUnpack isDigit v with
  | none => .foreign "ValueError"
  | some p =>
      let opt (x : Option Str) (u : String) : List (List Piece) :=
        match x with
        | some n => if n.isEmpty then [] else [intervalP n u]
        | none => []
      let ivs := opt p.years "YEAR" ++ opt p.months "MONTH" ++ opt p.days "DAY" ++ opt p.hours "HOUR"
                 ++ opt p.minutes "MINUTE" ++ opt p.seconds "SECOND"
      let sg : List Piece := match p.sign with
        | some c => [.tok (.op [c])]
        | none => []
      match ivs with
      | [] => .lib .value
      | [one] => .ok (sg ++ one)
      | _ => .ok (sg ++ parenP (joinPlus ivs))

/-- `str.replace("T", " ")` -/
def replaceT (s : Str) : Str := s.map (fun c => if c == 'T' then ' ' else c)

def litPieces (isDigit : Char → Bool) (d : Dialect) (k : LitKind) (v : Str) : Outcome (List Piece) :=
  match k with
  | .null => .ok [w "NULL"]
  | .int => .ok [.raw v]
  | .float => .ok [.raw v]
  | .bool =>
      if d = .sqlite then .ok [.tok (.num (if pyLower v == "true".toList then ['1'] else ['0']))]
      else .ok [.tok (.word (pyUpper v))]
  | .str => .ok [.tok (.str v)]
  | .geo => .lib (.type_ "SQL translation".toList)
  | .date => if d = .sqlite then .ok [w "DATE", lp, .sq v, rp] else .ok [w "DATE", sp, .sq v]
  | .time => if d = .sqlite then .ok [w "TIME", lp, .sq v, rp] else .ok [w "TIME", sp, .sq v]
  | .datetime =>
      match d with
      | .std => .ok [w "TIMESTAMP", sp, .sq (replaceT v)]
      | .sqlite => .ok [w "DATETIME", lp, .sq v, rp]
      | .athena => .ok [w "FROM_ISO8601_TIMESTAMP", lp, .sq v, rp]
  | .duration => durationPieces isDigit v
  | .guid => .ok [.sq v]

/-! ### LIKE patterns (base.py `_to_pattern`) -/
/-- `raw.replace("\\", "\\\\").replace("%", "\\%").replace("_", "\\_")` -/
def likeEscape : Str → Str
  | [] => []
  | c :: t => if c == '\\' || c == '%' || c == '_' then '\\' :: c :: likeEscape t else c :: likeEscape t

def arithSym : ArithOp → String
  | .add => "+" | .sub => "-" | .mul => "*" | .div => "/" | .mod => "%"
def cmpSym : CmpOp → List Piece
  | .eq => [o "="] | .ne => [o "!="] | .lt => [o "<"] | .le => [o "<="] | .gt => [o ">"] | .ge => [o ">="]
  | .in_ => [w "IN"]

def isNullLit : Expr → Bool
  | .lit .null _ => true
  | _ => false
def isBoolOp : Expr → Option BoolOp
  | .boolop o _ _ => some o
  | _ => none

def tyIsStr (t : Option Ty) : Bool := t == some (.lit .str)
def tyIsList (t : Option Ty) : Bool := t == some .list

/-- the overload decision shared by contains / startswith / endswith / indexof:
    `any(String) or all(None)` → string version; `any(List)` → list version; otherwise a type error -/
inductive Overload | str | list | bad deriving DecidableEq, Repr
def overloadOf (tys : List (Option Ty)) : Overload :=
  if tys.any tyIsStr || tys.all (· == none) then .str
  else if tys.any tyIsList then .list
  else .bad

section
variable (isDigit : Char → Bool) (d : Dialect) (alias : Option Str)

mutual
/-- `visitor.visit(node)` for the dialect `d` with `table_alias = alias` -/
def sqlVisit : Expr → Outcome (List Piece)
  | .ident i => .ok (identPieces d alias i.name)
  | .attr _ _ => .lib (.type_ "SQL translation".toList)
  | .named _ _ => .lib (.type_ "SQL translation".toList)
  | .coll _ _ _ => .lib (.type_ "SQL translation".toList)
  | .lit k v => litPieces isDigit d k v
  | .list xs => do
      let items ← sqlVisitList xs
      pure (parenP (joinComma items))
  | .binop op l r => do
      let p := sqlPrec (.binop op l r)
      let ls ← sqlVisit l
      let rs ← sqlVisit r
      pure (wrapOperand l p false ls ++ sp :: o (arithSym op) :: sp :: wrapOperand r p true rs)
  | .compare op l r => do
      let ls ← sqlVisit l
      let rs ← sqlVisit r
      let cmp : List Piece :=
        if isNullLit r && op == .eq then [w "IS"]
        else if isNullLit r && op == .ne then [w "IS", sp, w "NOT"]
        else cmpSym op
      pure (wrapOperand l 4 true ls ++ sp :: cmp ++ sp :: wrapOperand r 4 true rs)
  | .boolop op l r => do
      let ls ← sqlVisit l
      let rs ← sqlVisit r
      let ls' := match isBoolOp l with
        | some lo => if lo != op then parenP ls else ls
        | none => ls
      let rs' := if (isBoolOp r).isSome then parenP rs else rs
      pure (ls' ++ sp :: w (if op == .and_ then "AND" else "OR") :: sp :: rs')
  | .unary op e => do
      let es ← sqlVisit e
      let opP : Piece := if op == .not_ then w "NOT" else o "-"
      pure (opP :: sp :: wrapOperand e (sqlPrec (.unary op e)) false es)
  | .call f args =>
      let key := String.ofList (pyLower (funcKey f))
      if !sqlHandlers.contains key then .lib (.unsupportedFunction (funcKey f))
      else sqlFunc key args

def sqlVisitList : Exprs → Outcome (List (List Piece))
  | .nil => .ok []
  | .cons h t => do
      let hs ← sqlVisit h
      let ts ← sqlVisitList t
      pure (hs :: ts)

/-- `_to_pattern(arg, prefix, suffix)`; `argPs` is the text `self.visit(arg)` already produced -/
def sqlPattern (arg : Expr) (argPs : List Piece) (pre suf : Str) : List Piece :=
  match arg with
  | .lit .str raw =>
      let esc := likeEscape raw
      let lit : Piece := .tok (.str (pre ++ esc ++ suf))
      if esc != raw then [lit, sp, w "ESCAPE", sp, .tok (.str ['\\'])] else [lit]
  | _ =>
      let res := wrapOperand arg 5 true argPs
      let res := if pre.isEmpty then res else .tok (.str pre) :: sp :: o "||" :: sp :: res
      if suf.isEmpty then res else res ++ [sp, o "||", sp, .tok (.str suf)]

/-- the `sqlfunc_*` handler selected by `key`, called as `handler(*args)` -/
def sqlFunc (key : String) (args : Exprs) : Outcome (List Piece) :=
  let fixed1 (k : List Piece → Expr → Outcome (List Piece)) : Outcome (List Piece) :=
    match args with
    | .cons a .nil => do
        let as ← sqlVisit a
        k as a
    | _ => .foreign "TypeError"
  let extract (part : String) (fmt : String) : Outcome (List Piece) :=
    fixed1 (fun as _ =>
      if d = .sqlite then
        .ok (w "CAST" :: lp :: (callP "STRFTIME" [[.tok (.str fmt.toList)], as] ++ [sp, w "AS", sp, w "INTEGER", rp]))
      else .ok ([w "EXTRACT", sp, lp, w part, sp, w "FROM", sp] ++ as ++ [rp]))
  let likeFn (name : String) (pre suf : Str) : Outcome (List Piece) := do
    let items ← sqlVisitList args
    match args, items with
    | .cons a0 (.cons a1 _), i0 :: i1 :: _ =>
        match overloadOf (args.toList.map inferType) with
        | .str => let _ := a0; pure (i0 ++ sp :: w "LIKE" :: sp :: sqlPattern a1 i1 pre suf)
        | .list => .lib (.unsupportedFunction (name ++ "<List>").toList)
        | .bad => .lib (.argumentType name.toList)
    | _, _ => .foreign "IndexError"
  match key with
  | "concat" =>
      match args with
      | .cons a0 (.cons a1 _) => do
          let l ← sqlVisit a0
          let r ← sqlVisit a1
          pure (wrapOperand a0 5 false l ++ sp :: o "||" :: sp :: wrapOperand a1 5 true r)
      | _ => .foreign "IndexError"
  | "contains" => likeFn "contains" ['%'] ['%']
  | "endswith" => likeFn "endswith" ['%'] []
  | "startswith" => likeFn "startswith" [] ['%']
  | "indexof" => do
      let items ← sqlVisitList args
      match overloadOf (args.toList.map inferType) with
      | .str =>
          (match items with
           | i0 :: i1 :: _ =>
               if d = .sqlite then pure (callP "INSTR" [i0, i1] ++ [sp, o "-", sp, .tok (.num ['1'])])
               else pure ([w "POSITION", lp] ++ i1 ++ [sp, w "IN", sp] ++ i0 ++ [rp, sp, o "-", sp, .tok (.num ['1'])])
           | _ => .foreign "IndexError")
      | .list => .lib (.unsupportedFunction "indexof<List>".toList)
      | .bad => .lib (.argumentType "indexof".toList)
  | "length" =>
      fixed1 (fun as a =>
        if d = .sqlite then .ok (callP "LENGTH" [as])
        else
          let t := inferType a
          if tyIsStr t || t == none then .ok (callP (if d = .athena then "LENGTH" else "CHAR_LENGTH") [as])
          else if tyIsList t then .ok (callP "CARDINALITY" [as])
          else .lib (.argumentType "length".toList))
  | "substring" => do
      let items ← sqlVisitList args
      match args, items with
      | .cons a0 _, i0 :: rest =>
          let t := inferType a0
          let one : List Piece := [sp, o "+", sp, .tok (.num ['1'])]
          let strCase : Option (List Piece) :=
            if tyIsStr t || t == none then
              match rest with
              | [i1] =>
                  if d = .std then some ([w "SUBSTRING", lp] ++ i0 ++ [sp, w "FROM", sp] ++ i1 ++ one ++ [rp])
                  else some (callP "SUBSTR" [i0, i1 ++ one])
              | [i1, i2] =>
                  if d = .std then
                    some ([w "SUBSTRING", lp] ++ i0 ++ [sp, w "FROM", sp] ++ i1 ++ one ++ [sp, w "FOR", sp] ++ i2 ++ [rp])
                  else some (callP "SUBSTR" [i0, i1 ++ one, i2])
              | _ => none
            else none
          match strCase with
          | some ps => pure ps
          | none =>
              if tyIsList t then
                if d = .athena then
                  match rest with
                  | [i1] => pure (callP "SLICE" [i0, i1])
                  | [i1, i2] => pure (callP "SLICE" [i0, i1, i2])
                  | _ => .lib (.argumentType "substring".toList)
                else .lib (.unsupportedFunction "substring<List>".toList)
              else .lib (.argumentType "substring".toList)
      | _, _ => .foreign "IndexError"
  | "tolower" => fixed1 (fun as _ => .ok (callP "LOWER" [as]))
  | "toupper" => fixed1 (fun as _ => .ok (callP "UPPER" [as]))
  | "trim" => fixed1 (fun as _ => .ok (callP "TRIM" [as]))
  | "year" => extract "YEAR" "%Y"
  | "month" => extract "MONTH" "%m"
  | "day" => extract "DAY" "%d"
  | "hour" => extract "HOUR" "%H"
  | "minute" => extract "MINUTE" "%M"
  | "date" =>
      fixed1 (fun as _ =>
        if d = .sqlite then .ok (callP "DATE" [as])
        else .ok ([w "CAST", sp, lp] ++ as ++ [sp, w "AS", sp, w "DATE", rp]))
  | "now" =>
      match args with
      | .nil => if d = .sqlite then .ok (callP "DATETIME" [[.tok (.str "now".toList)]]) else .ok [w "CURRENT_TIMESTAMP"]
      | _ => .foreign "TypeError"
  | "round" =>
      fixed1 (fun as _ =>
        match d with
        | .std => .ok ([w "CAST", sp, lp] ++ as ++ [sp, o "+", sp, .tok (.num "0.5".toList), sp, w "AS", sp, w "INTEGER", rp])
        | .sqlite => .ok (callP "TRUNC" [as ++ [sp, o "+", sp, .tok (.num "0.5".toList)]])
        | .athena => .ok (callP "ROUND" [as]))
  | "floor" =>
      fixed1 (fun as _ =>
        if d = .std then
          let ind : Piece := .ws "\n    ".toList
          .ok ([w "CASE", sp] ++ as ++
               [ind, w "WHEN", sp, o ">", sp, .tok (.num ['0']), sp, w "CAST", sp, lp] ++ as ++ [sp, w "AS", sp, w "INTEGER", rp] ++
               [ind, w "WHEN", sp, o "<", sp, .tok (.num ['0']), sp, w "CAST", sp, lp, .tok (.num ['0']), sp, o "-", sp, lp, w "ABS", lp] ++ as ++
               [rp, sp, o "+", sp, .tok (.num "0.5".toList), rp, sp, w "AS", sp, w "INTEGER", rp, rp] ++
               [ind, w "ELSE", sp] ++ as ++ [.ws ['\n'], w "END"])
        else .ok (callP "FLOOR" [as]))
  | "ceiling" =>
      fixed1 (fun as _ =>
        if d = .std then
          let ind : Piece := .ws "\n    ".toList
          .ok ([w "CASE", sp] ++ as ++ [sp, o "-", sp, w "CAST", sp, lp] ++ as ++ [sp, w "AS", sp, w "INTEGER", rp] ++
               [ind, w "WHEN", sp, o ">", sp, .tok (.num ['0']), sp] ++ as ++ [o "+", .tok (.num ['1'])] ++
               [ind, w "WHEN", sp, o "<", sp, .tok (.num ['0']), sp] ++ as ++ [o "-", .tok (.num ['1'])] ++
               [ind, w "ELSE", sp] ++ as ++ [.ws ['\n'], w "END"])
        else .ok (callP "CEILING" [as]))
  | "hassubset" =>
      if d = .athena then do
        let items ← sqlVisitList args
        match items with
        | i0 :: i1 :: _ =>
            pure (callP "CARDINALITY" [callP "ARRAY_INTERSECT" [i0, i1]] ++ [sp, o "=", sp] ++ callP "CARDINALITY" [i1])
        | _ => .foreign "IndexError"
      else .lib (.unsupportedFunction "hassubset".toList)
  | _ => .lib (.unsupportedFunction key.toList)
end

/-- the text the visitor returns -/
def sqlText (e : Expr) : Outcome Str := (sqlVisit isDigit d alias e).bind (fun ps => .ok (renderPieces ps))

end
end OQ
