/-
  Model/Sql.lean — string-exact model of the three raw SQL visitors
    odata_query/sql/base.py   (AstToSqlVisitor,        `Dialect.std`)
    odata_query/sql/sqlite.py (AstToSqliteSqlVisitor,  `Dialect.sqlite`)
    odata_query/sql/athena.py (AstToAthenaSqlVisitor,  `Dialect.athena`)

  The visitors build their text by f-string concatenation.  The model builds the same text as a list
  of `Piece`s (a token in canonical spelling, verbatim quoted text, verbatim raw text, blanks) so that
  the theorems can talk about tokens, while `renderPieces` gives the exact characters that the Python
  returns (this is what the correspondence check compares).
-/
import ODataVerif.Model.Basic
import ODataVerif.Model.Ast
import ODataVerif.Model.Lexer
import ODataVerif.Model.Parser
import ODataVerif.Model.Typing
import ODataVerif.Spec.SqlLex
namespace OQ
open Spec (SqlTok)

inductive Dialect | std | sqlite | athena
  deriving DecidableEq, Repr

inductive Piece
  | tok (t : SqlTok)     -- canonical spelling (string literals with quotes doubled)
  | sq (s : Str)         -- `'` ++ s ++ `'`  verbatim: text the code puts between quotes WITHOUT escaping
  | dq (s : Str)         -- `"` ++ s ++ `"`  verbatim
  | raw (s : Str)        -- verbatim (numeric literal text copied from the filter)
  | ws (s : Str)         -- blanks
  deriving DecidableEq, Repr

def dblQuote (q : Char) : Str → Str
  | [] => []
  | c :: t => if c == q then q :: q :: dblQuote q t else c :: dblQuote q t

def spellTokSql : SqlTok → Str
  | .str s => '\'' :: dblQuote '\'' s ++ ['\'']
  | .qid s => '"' :: dblQuote '"' s ++ ['"']
  | .num s => s
  | .word s => s
  | .op s => s
  | .lp => ['('] | .rp => [')'] | .comma => [','] | .dot => ['.']

def Piece.spell : Piece → Str
  | .tok t => spellTokSql t
  | .sq s => '\'' :: s ++ ['\'']
  | .dq s => '"' :: s ++ ['"']
  | .raw s => s
  | .ws s => s

def renderPieces : List Piece → Str
  | [] => []
  | p :: ps => p.spell ++ renderPieces ps

/-! ### small helpers -/
def w (s : String) : Piece := .tok (.word s.toList)
def o (s : String) : Piece := .tok (.op s.toList)
def sp : Piece := .ws [' ']
def lp : Piece := .tok .lp
def rp : Piece := .tok .rp
def comma : Piece := .tok .comma

/-- `res = f"({res})"` -/
def parenP (ps : List Piece) : List Piece := lp :: ps ++ [rp]

/-- `name(args…)` with `", "` between the arguments -/
def joinComma : List (List Piece) → List Piece
  | [] => []
  | [a] => a
  | a :: rest => a ++ comma :: sp :: joinComma rest

def callP (name : String) (args : List (List Piece)) : List Piece :=
  w name :: lp :: joinComma args ++ [rp]

/-- `str.lower()` restricted to what can matter for a handler lookup: ASCII letters, and U+212A (KELVIN
    SIGN, whose lower case is the ASCII `k`). No other character lower-cases to ASCII. -/
def pyLowerC (c : Char) : Char := if c.toNat == 0x212A then 'k' else asciiLower c
def pyLower (s : Str) : Str := s.map pyLowerC
/-- `str.upper()` on ASCII; U+017F (long s) ↦ `S`, U+0131 (dotless i) ↦ `I` -/
def pyUpperC (c : Char) : Char :=
  if c.toNat == 0x17F then 'S' else if c.toNat == 0x131 then 'I' else asciiUpper c
def pyUpper (s : Str) : Str := s.map pyUpperC

def joinWith (sep : Str) : List Str → Str
  | [] => []
  | [a] => a
  | a :: rest => a ++ sep ++ joinWith sep rest

/-- `node.func.full_name().replace(".", "__")`  (base.py visit_Call) -/
def funcKey (f : Ident) : Str :=
  (joinWith ['.'] (f.ns ++ [f.name])).flatMap (fun c => if c == '.' then ['_', '_'] else [c])

/-- the `sqlfunc_*` methods reachable on the three classes (identical name sets; Generated.sqlHandlers) -/
def sqlHandlers : List String :=
  ["ceiling", "concat", "contains", "date", "day", "endswith", "floor", "hassubset", "hour", "indexof",
   "length", "minute", "month", "now", "round", "startswith", "substring", "tolower", "toupper", "trim", "year"]

/-! ### precedence of the rendered text (base.py `_precedence`, `_FUNCTION_PRECEDENCE`) -/
def funcPrecTable : List (String × Nat) :=
  [("contains", 4), ("startswith", 4), ("endswith", 4), ("hassubset", 4), ("indexof", 5), ("concat", 5)]

def funcPrec (name : Str) : Nat :=
  match funcPrecTable.find? (fun e => e.1 == String.ofList name) with
  | some e => e.2
  | none => 8

def sqlPrec : Expr → Nat
  | .boolop .or_ _ _ => 1
  | .boolop .and_ _ _ => 2
  | .unary .not_ _ => 3
  | .unary .neg _ => 7
  | .compare _ _ _ => 4
  | .binop .add _ _ | .binop .sub _ _ => 5
  | .binop _ _ _ => 6
  | .call f _ => if f.ns.isEmpty then funcPrec (pyLower f.name) else 8
  | _ => 8

/-- the tail of `_visit_operand` -/
def wrapOperand (e : Expr) (parent : Nat) (orEqual : Bool) (ps : List Piece) : List Piece :=
  if sqlPrec e < parent || (orEqual && sqlPrec e == parent) then parenP ps else ps

/-! ### literals -/

/-- `clean_athena_identifier`: `.lower()` then every character outside `[a-zA-Z0-9_]` becomes `_`.
    (U+0130 lower-cases to two characters, `i` + U+0307.) -/
def athenaClean (s : Str) : Str :=
  s.flatMap (fun c =>
    if c.toNat == 0x130 then ['i', '_']
    else
      let c' := pyLowerC c
      if Spec.isWordCh c' then [c'] else ['_'])

def identPieces (d : Dialect) (alias : Option Str) (name : Str) : List Piece :=
  let nm := if d = .athena then athenaClean name else name
  match alias with
  | some a => if a.isEmpty then [.dq nm] else [.dq a, .tok .dot, .dq nm]
  | none => [.dq nm]

/-- one `(\d+L)?` group of `ast.DURATION_PATTERN` (no `re.I`; `\d` is Unicode): digits without the letter -/
def durGroupU (isDigit : Char → Bool) (l : Char) (cs : Str) : Option Str × Str :=
  let ds := cs.takeWhile isDigit
  match ds, cs.drop ds.length with
  | [], _ => (none, cs)
  | _, c :: r => if c == l then (some ds, r) else (none, cs)
  | _, [] => (none, cs)

/-- `(\d+(?:\.\d+)?S)?` -/
def durSecondsU (isDigit : Char → Bool) (cs : Str) : Option Str × Str :=
  let ds := cs.takeWhile isDigit
  match ds, cs.drop ds.length with
  | [], _ => (none, cs)
  | _, 'S' :: r => (some ds, r)
  | _, '.' :: r =>
      let fs := r.takeWhile isDigit
      (match fs, r.drop fs.length with
       | [], _ => (none, cs)
       | _, 'S' :: r' => (some (ds ++ '.' :: fs), r')
       | _, _ => (none, cs))
  | _, _ => (none, cs)

structure DurParts where
  sign : Option Char
  years : Option Str
  months : Option Str
  days : Option Str
  hours : Option Str
  minutes : Option Str
  seconds : Option Str
  deriving DecidableEq, Repr

/-- `Duration.unpack` (ast.py): `DURATION_PATTERN.fullmatch`; `none` = `ValueError` -/
def durUnpack (isDigit : Char → Bool) (v : Str) : Option DurParts :=
  let (sg, r) := match v with
    | '+' :: t => (some '+', t)
    | '-' :: t => (some '-', t)
    | t => (none, t)
  match r with
  | 'P' :: r =>
      let (y, r) := durGroupU isDigit 'Y' r
      let (mo, r) := durGroupU isDigit 'M' r
      let (d, r) := durGroupU isDigit 'D' r
      match r with
      | [] => some ⟨sg, y, mo, d, none, none, none⟩
      | 'T' :: t =>
          let (h, t) := durGroupU isDigit 'H' t
          let (mi, t) := durGroupU isDigit 'M' t
          let (s, t) := durSecondsU isDigit t
          if t.isEmpty then some ⟨sg, y, mo, d, h, mi, s⟩ else none
      | _ => none
  | _ => none

def intervalP (n : Str) (unit : String) : List Piece := [w "INTERVAL", sp, .sq n, sp, w unit]

def joinPlus : List (List Piece) → List Piece
  | [] => []
  | [a] => a
  | a :: rest => a ++ sp :: o "+" :: sp :: joinPlus rest

/-- `visit_Duration` (base.py) -/
def durationPieces (isDigit : Char → Bool) (v : Str) : Outcome (List Piece) :=
  match durUnpack isDigit v with
  | none => .foreign "ValueError"
  | some p =>
      let opt (x : Option Str) (u : String) : List (List Piece) :=
        match x with
        | some n => if n.isEmpty then [] else [intervalP n u]
        | none => []
      let ivs := opt p.years "YEAR" ++ opt p.months "MONTH" ++ opt p.days "DAY" ++ opt p.hours "HOUR"
                 ++ opt p.minutes "MINUTE" ++ opt p.seconds "SECOND"
      let sg : List Piece := match p.sign with
        | some c => [.tok (.op [c])]
        | none => []
      match ivs with
      | [] => .lib .value
      | [one] => .ok (sg ++ one)
      | _ => .ok (sg ++ parenP (joinPlus ivs))

/-- `str.replace("T", " ")` -/
def replaceT (s : Str) : Str := s.map (fun c => if c == 'T' then ' ' else c)

def litPieces (isDigit : Char → Bool) (d : Dialect) (k : LitKind) (v : Str) : Outcome (List Piece) :=
  match k with
  | .null => .ok [w "NULL"]
  | .int => .ok [.raw v]
  | .float => .ok [.raw v]
  | .bool =>
      if d = .sqlite then .ok [.tok (.num (if pyLower v == "true".toList then ['1'] else ['0']))]
      else .ok [.tok (.word (pyUpper v))]
  | .str => .ok [.tok (.str v)]
  | .geo => .lib (.type_ "SQL translation".toList)
  | .date => if d = .sqlite then .ok [w "DATE", lp, .sq v, rp] else .ok [w "DATE", sp, .sq v]
  | .time => if d = .sqlite then .ok [w "TIME", lp, .sq v, rp] else .ok [w "TIME", sp, .sq v]
  | .datetime =>
      match d with
      | .std => .ok [w "TIMESTAMP", sp, .sq (replaceT v)]
      | .sqlite => .ok [w "DATETIME", lp, .sq v, rp]
      | .athena => .ok [w "FROM_ISO8601_TIMESTAMP", lp, .sq v, rp]
  | .duration => durationPieces isDigit v
  | .guid => .ok [.sq v]

/-! ### LIKE patterns (base.py `_to_pattern`) -/
/-- `raw.replace("\\", "\\\\").replace("%", "\\%").replace("_", "\\_")` -/
def likeEscape : Str → Str
  | [] => []
  | c :: t => if c == '\\' || c == '%' || c == '_' then '\\' :: c :: likeEscape t else c :: likeEscape t

def arithSym : ArithOp → String
  | .add => "+" | .sub => "-" | .mul => "*" | .div => "/" | .mod => "%"
def cmpSym : CmpOp → List Piece
  | .eq => [o "="] | .ne => [o "!="] | .lt => [o "<"] | .le => [o "<="] | .gt => [o ">"] | .ge => [o ">="]
  | .in_ => [w "IN"]

def isNullLit : Expr → Bool
  | .lit .null _ => true
  | _ => false
def isBoolOp : Expr → Option BoolOp
  | .boolop o _ _ => some o
  | _ => none

def tyIsStr (t : Option Ty) : Bool := t == some (.lit .str)
def tyIsList (t : Option Ty) : Bool := t == some .list

/-- the overload decision shared by contains / startswith / endswith / indexof:
    `any(String) or all(None)` → string version; `any(List)` → list version; otherwise a type error -/
inductive Overload | str | list | bad deriving DecidableEq, Repr
def overloadOf (tys : List (Option Ty)) : Overload :=
  if tys.any tyIsStr || tys.all (· == none) then .str
  else if tys.any tyIsList then .list
  else .bad

/-- the comparator text of `visit_Compare`: `eq/ne null` become `IS [NOT]` -/
def cmpPieces (op : CmpOp) (r : Expr) : List Piece :=
  if isNullLit r && op == .eq then [w "IS"]
  else if isNullLit r && op == .ne then [w "IS", sp, w "NOT"]
  else cmpSym op

/-- `visit_BoolOp`: a boolean sub-expression on the left is wrapped unless it has the same operator … -/
def boolWrapL (op : BoolOp) (l : Expr) (ls : List Piece) : List Piece :=
  match isBoolOp l with
  | some lo => if lo != op then parenP ls else ls
  | none => ls
/-- … one on the right always -/
def boolWrapR (r : Expr) (rs : List Piece) : List Piece :=
  if (isBoolOp r).isSome then parenP rs else rs

/-- `_to_pattern(arg, prefix, suffix)`; `argPs` is the text `self.visit(arg)` produces -/
def sqlPattern (arg : Expr) (argPs : List Piece) (pre suf : Str) : List Piece :=
  match arg with
  | .lit .str raw =>
      let esc := likeEscape raw
      let lit : Piece := .tok (.str (pre ++ esc ++ suf))
      if esc != raw then [lit, sp, w "ESCAPE", sp, .tok (.str ['\\'])] else [lit]
  | _ =>
      let res := wrapOperand arg 5 true argPs
      let res := if pre.isEmpty then res else .tok (.str pre) :: sp :: o "||" :: sp :: res
      if suf.isEmpty then res else res ++ [sp, o "||", sp, .tok (.str suf)]

/-! ### function templates

Every `sqlfunc_*` handler first renders all its arguments (`self.visit(arg)`), then decides — from the
argument count and the inferred argument types only — which f-string to fill in.  The model keeps that
shape: `selectTpl` picks a template (a list of `TItem`s), `instantiate` fills in the rendered arguments. -/
inductive TItem
  | p (x : Piece)                                -- literal text of the f-string
  | arg (i : Nat)                                -- `{args_sql[i]}`
  | argW (i : Nat) (parent : Nat) (orEq : Bool)  -- `self._visit_operand(args[i], parent, or_equal)`
  | pat (i : Nat) (pre suf : Str)                -- `self._to_pattern(args[i], pre, suf)`
  deriving DecidableEq, Repr

def dummyExpr : Expr := .lit .null []

def instItem (args : List Expr) (items : List (List Piece)) : TItem → List Piece
  | .p x => [x]
  | .arg i => items.getD i []
  | .argW i pr oe => wrapOperand (args.getD i dummyExpr) pr oe (items.getD i [])
  | .pat i pre suf => sqlPattern (args.getD i dummyExpr) (items.getD i []) pre suf

def instantiate (tpl : List TItem) (args : List Expr) (items : List (List Piece)) : List Piece :=
  tpl.flatMap (instItem args items)

def tw (s : String) : TItem := .p (w s)
def to_ (s : String) : TItem := .p (o s)
def tsp : TItem := .p sp
def tlp : TItem := .p lp
def trp : TItem := .p rp
def tnum (s : String) : TItem := .p (.tok (.num s.toList))
def tstr (s : String) : TItem := .p (.tok (.str s.toList))

/-- `NAME(a, b, …)` -/
def tcall (name : String) (args : List (List TItem)) : List TItem :=
  let rec join : List (List TItem) → List TItem
    | [] => []
    | [a] => a
    | a :: rest => a ++ .p comma :: tsp :: join rest
  tw name :: tlp :: join args ++ [trp]

/-- how a handler's Python signature constrains the number of arguments -/
inductive Sig | fixed (n : Nat) | atLeast (n : Nat)
  deriving DecidableEq, Repr

/-- the `sqlfunc_*` methods and their signatures (`(self, arg)`, `(self)`, `(self, *args)` + highest index used) -/
def sqlSigs : List (String × Sig) :=
  [("ceiling", .fixed 1), ("concat", .atLeast 2), ("contains", .atLeast 2), ("date", .fixed 1), ("day", .fixed 1),
   ("endswith", .atLeast 2), ("floor", .fixed 1), ("hassubset", .atLeast 0), ("hour", .fixed 1), ("indexof", .atLeast 2),
   ("length", .fixed 1), ("minute", .fixed 1), ("month", .fixed 1), ("now", .fixed 0), ("round", .fixed 1),
   ("startswith", .atLeast 2), ("substring", .atLeast 1), ("tolower", .fixed 1), ("toupper", .fixed 1), ("trim", .fixed 1),
   ("year", .fixed 1)]

/-- what happens before any argument is rendered: a Python `TypeError` when the call does not fit the
    signature (`IndexError` when a `*args` handler indexes past the end); `hassubset` raises at once
    outside Athena -/
def preCheck (d : Dialect) (key : String) (n : Nat) : Option (Outcome (List Piece)) :=
  match sqlSigs.find? (fun e => e.1 == key) with
  | none => some (.lib (.unsupportedFunction key.toList))
  | some (_, .fixed k) => if n == k then none else some (.foreign "TypeError")
  | some (_, .atLeast k) =>
      if key == "hassubset" && d != .athena then some (.lib (.unsupportedFunction "hassubset".toList))
      else if key == "hassubset" && n < 2 then some (.foreign "IndexError")
      else if n < k then some (.foreign "IndexError") else none

def extractTpl (d : Dialect) (part fmt : String) : List TItem :=
  if d = .sqlite then [tw "CAST", tlp] ++ tcall "STRFTIME" [[tstr fmt], [.arg 0]] ++ [tsp, tw "AS", tsp, tw "INTEGER", trp]
  else [tw "EXTRACT", tsp, tlp, tw part, tsp, tw "FROM", tsp, .arg 0, trp]

def likeTpl (name : String) (pre suf : Str) (tys : List (Option Ty)) : Outcome (List TItem) :=
  match overloadOf tys with
  | .str => .ok [.arg 0, tsp, tw "LIKE", tsp, .pat 1 pre suf]
  | .list => .lib (.unsupportedFunction (name ++ "<List>").toList)
  | .bad => .lib (.argumentType name.toList)

/-- the template a handler fills in, chosen from the dialect, the argument count and the inferred types -/
def selectTpl (d : Dialect) (key : String) (tys : List (Option Ty)) : Outcome (List TItem) :=
  let n := tys.length
  let t0 := tys.getD 0 none
  let plus1 : List TItem := [tsp, to_ "+", tsp, tnum "1"]
  match key with
  | "concat" => .ok [.argW 0 5 false, tsp, to_ "||", tsp, .argW 1 5 true]
  | "contains" => likeTpl "contains" ['%'] ['%'] tys
  | "endswith" => likeTpl "endswith" ['%'] [] tys
  | "startswith" => likeTpl "startswith" [] ['%'] tys
  | "indexof" =>
      (match overloadOf tys with
       | .str =>
           if d = .sqlite then .ok (tcall "INSTR" [[.arg 0], [.arg 1]] ++ [tsp, to_ "-", tsp, tnum "1"])
           else .ok ([tw "POSITION", tlp, .arg 1, tsp, tw "IN", tsp, .arg 0, trp, tsp, to_ "-", tsp, tnum "1"])
       | .list => .lib (.unsupportedFunction "indexof<List>".toList)
       | .bad => .lib (.argumentType "indexof".toList))
  | "length" =>
      if d = .sqlite then .ok (tcall "LENGTH" [[.arg 0]])
      else if tyIsStr t0 || t0 == none then .ok (tcall (if d = .athena then "LENGTH" else "CHAR_LENGTH") [[.arg 0]])
      else if tyIsList t0 then .ok (tcall "CARDINALITY" [[.arg 0]])
      else .lib (.argumentType "length".toList)
  | "substring" =>
      if (tyIsStr t0 || t0 == none) && n == 2 then
        if d = .std then .ok ([tw "SUBSTRING", tlp, .arg 0, tsp, tw "FROM", tsp, .arg 1] ++ plus1 ++ [trp])
        else .ok (tcall "SUBSTR" [[.arg 0], .arg 1 :: plus1])
      else if (tyIsStr t0 || t0 == none) && n == 3 then
        if d = .std then
          .ok ([tw "SUBSTRING", tlp, .arg 0, tsp, tw "FROM", tsp, .arg 1] ++ plus1 ++ [tsp, tw "FOR", tsp, .arg 2, trp])
        else .ok (tcall "SUBSTR" [[.arg 0], .arg 1 :: plus1, [.arg 2]])
      else if tyIsList t0 then
        if d = .athena then
          if n == 2 then .ok (tcall "SLICE" [[.arg 0], [.arg 1]])
          else if n == 3 then .ok (tcall "SLICE" [[.arg 0], [.arg 1], [.arg 2]])
          else .lib (.argumentType "substring".toList)
        else .lib (.unsupportedFunction "substring<List>".toList)
      else .lib (.argumentType "substring".toList)
  | "tolower" => .ok (tcall "LOWER" [[.arg 0]])
  | "toupper" => .ok (tcall "UPPER" [[.arg 0]])
  | "trim" => .ok (tcall "TRIM" [[.arg 0]])
  | "year" => .ok (extractTpl d "YEAR" "%Y")
  | "month" => .ok (extractTpl d "MONTH" "%m")
  | "day" => .ok (extractTpl d "DAY" "%d")
  | "hour" => .ok (extractTpl d "HOUR" "%H")
  | "minute" => .ok (extractTpl d "MINUTE" "%M")
  | "date" =>
      if d = .sqlite then .ok (tcall "DATE" [[.arg 0]])
      else .ok [tw "CAST", tsp, tlp, .arg 0, tsp, tw "AS", tsp, tw "DATE", trp]
  | "now" => if d = .sqlite then .ok (tcall "DATETIME" [[tstr "now"]]) else .ok [tw "CURRENT_TIMESTAMP"]
  | "round" =>
      (match d with
       | .std => .ok [tw "CAST", tsp, tlp, .arg 0, tsp, to_ "+", tsp, tnum "0.5", tsp, tw "AS", tsp, tw "INTEGER", trp]
       | .sqlite => .ok (tcall "TRUNC" [[.arg 0, tsp, to_ "+", tsp, tnum "0.5"]])
       | .athena => .ok (tcall "ROUND" [[.arg 0]]))
  | "floor" =>
      if d = .std then
        let ind : TItem := .p (.ws "\n    ".toList)
        .ok ([tw "CASE", tsp, .arg 0,
              ind, tw "WHEN", tsp, to_ ">", tsp, tnum "0", tsp, tw "CAST", tsp, tlp, .arg 0, tsp, tw "AS", tsp, tw "INTEGER", trp,
              ind, tw "WHEN", tsp, to_ "<", tsp, tnum "0", tsp, tw "CAST", tsp, tlp, tnum "0", tsp, to_ "-", tsp, tlp, tw "ABS", tlp,
              .arg 0, trp, tsp, to_ "+", tsp, tnum "0.5", trp, tsp, tw "AS", tsp, tw "INTEGER", trp, trp,
              ind, tw "ELSE", tsp, .arg 0, .p (.ws ['\n']), tw "END"])
      else .ok (tcall "FLOOR" [[.arg 0]])
  | "ceiling" =>
      if d = .std then
        let ind : TItem := .p (.ws "\n    ".toList)
        .ok ([tw "CASE", tsp, .arg 0, tsp, to_ "-", tsp, tw "CAST", tsp, tlp, .arg 0, tsp, tw "AS", tsp, tw "INTEGER", trp,
              ind, tw "WHEN", tsp, to_ ">", tsp, tnum "0", tsp, .arg 0, to_ "+", tnum "1",
              ind, tw "WHEN", tsp, to_ "<", tsp, tnum "0", tsp, .arg 0, to_ "-", tnum "1",
              ind, tw "ELSE", tsp, .arg 0, .p (.ws ['\n']), tw "END"])
      else .ok (tcall "CEILING" [[.arg 0]])
  | "hassubset" =>
      .ok (tcall "CARDINALITY" [tcall "ARRAY_INTERSECT" [[.arg 0], [.arg 1]]] ++ [tsp, to_ "=", tsp] ++ tcall "CARDINALITY" [[.arg 1]])
  | _ => .lib (.unsupportedFunction key.toList)

section
variable (isDigit : Char → Bool) (d : Dialect) (alias : Option Str)

mutual
/-- `visitor.visit(node)` for the dialect `d` with `table_alias = alias` -/
def sqlVisit : Expr → Outcome (List Piece)
  | .ident i => .ok (identPieces d alias i.name)
  | .attr _ _ => .lib (.type_ "SQL translation".toList)
  | .named _ _ => .lib (.type_ "SQL translation".toList)
  | .coll _ _ _ => .lib (.type_ "SQL translation".toList)
  | .lit k v => litPieces isDigit d k v
  | .list xs => do
      let items ← sqlVisitList xs
      pure (parenP (joinComma items))
  | .binop op l r => do
      let ls ← sqlVisit l
      let rs ← sqlVisit r
      pure (wrapOperand l (sqlPrec (.binop op l r)) false ls ++ sp :: o (arithSym op) :: sp ::
            wrapOperand r (sqlPrec (.binop op l r)) true rs)
  | .compare op l r => do
      let ls ← sqlVisit l
      let rs ← sqlVisit r
      -- `null eq x` / `null ne x` are rendered as `x IS [NOT] NULL`: `visit_Compare` swaps the operands first (fix d7f5487; `NULL = x` is never true)
      if isNullLit l && (op == .eq || op == .ne) then
        pure (wrapOperand r 4 true rs ++ sp :: cmpPieces op l ++ sp :: wrapOperand l 4 true ls)
      else
        pure (wrapOperand l 4 true ls ++ sp :: cmpPieces op r ++ sp :: wrapOperand r 4 true rs)
  | .boolop op l r => do
      let ls ← sqlVisit l
      let rs ← sqlVisit r
      pure (boolWrapL op l ls ++ sp :: w (if op == .and_ then "AND" else "OR") :: sp :: boolWrapR r rs)
  | .unary op e => do
      let es ← sqlVisit e
      pure ((if op == .not_ then w "NOT" else o "-") :: sp :: wrapOperand e (sqlPrec (.unary op e)) false es)
  | .call f args =>
      let key := String.ofList (pyLower (funcKey f))
      if !sqlHandlers.contains key then .lib (.unsupportedFunction (funcKey f))
      else
        match preCheck d key args.length with
        | some err => err
        | none => do
            let items ← sqlVisitList args
            let tpl ← selectTpl d key (args.toList.map inferType)
            pure (instantiate tpl args.toList items)

def sqlVisitList : Exprs → Outcome (List (List Piece))
  | .nil => .ok []
  | .cons h t => do
      let hs ← sqlVisit h
      let ts ← sqlVisitList t
      pure (hs :: ts)
end

/-- the text the visitor returns -/
def sqlText (e : Expr) : Outcome Str := (sqlVisit isDigit d alias e).bind (fun ps => .ok (renderPieces ps))

end
end OQ
