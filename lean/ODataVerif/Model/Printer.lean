/-
  Model/Printer.lean — string-exact model of `AstToODataVisitor` (odata_query/roundtrip.py): its own
  precedence table and the parenthesisation rule `_visit_and_paren_if_precedence_lower`.
-/
import ODataVerif.Model.Basic
import ODataVerif.Model.Ast
import ODataVerif.Model.Parser
namespace OQ

/-- `roundtrip.PRECEDENCE` (roundtrip.py:18-36), by class name -/
def printerPrecedence : List (String × Nat) :=
  [("Attribute", 10), ("Call", 10), ("Not", 9), ("USub", 9), ("Mult", 8), ("Div", 8), ("Mod", 8),
   ("Add", 7), ("Sub", 7), ("Gt", 6), ("GtE", 6), ("Lt", 6), ("LtE", 6), ("Eq", 5), ("NotEq", 5),
   ("And", 4), ("Or", 3)]

/-- `PRECEDENCE.get(cls, 100)` -/
def precOfClass (c : String) : Nat :=
  match printerPrecedence.find? (fun e => e.1 == c) with
  | some e => e.2
  | none => 100

/-- class whose precedence decides for a node: `type(node.op)`, `type(node.comparator)` or `type(node)` -/
def nodeOpClass : Expr → String
  | .binop o _ _ => o.className
  | .boolop o _ _ => o.className
  | .unary o _ => o.className
  | .compare o _ _ => o.className
  | .ident _ => "Identifier"
  | .attr _ _ => "Attribute"
  | .lit k _ => k.className
  | .list _ => "List"
  | .named _ _ => "NamedParam"
  | .call _ _ => "Call"
  | .coll _ _ _ => "CollectionLambda"

def rtParenNeeded (child : Expr) (parentClass : String) (orEqual : Bool) : Bool :=
  let np := precOfClass (nodeOpClass child)
  let cp := precOfClass parentClass
  decide (np < cp) || (orEqual && np == cp && decide (cp < 100))

def strReplaceQuote : Str → Str
  | [] => []
  | '\'' :: t => '\'' :: '\'' :: strReplaceQuote t
  | c :: t => c :: strReplaceQuote t

def arithWord : ArithOp → String
  | .add => "add" | .sub => "sub" | .mul => "mul" | .div => "div" | .mod => "mod"
def cmpWord : CmpOp → String
  | .eq => "eq" | .ne => "ne" | .lt => "lt" | .le => "le" | .gt => "gt" | .ge => "ge" | .in_ => "in"
def boolWord : BoolOp → String
  | .and_ => "and" | .or_ => "or"

/-- `visit_Identifier` (roundtrip.py:45) -/
def rtIdent (i : Ident) : Str :=
  if i.ns = [] then i.name else joinDots i.ns ++ '.' :: i.name

/-- the tail of `_visit_and_paren_if_precedence_lower`: wrap the visited text when the rule says so -/
def wrapIf (b : Bool) (s : Str) : Str := if b then '(' :: s ++ [')'] else s

mutual
/-- `AstToODataVisitor().visit(e)` -/
def rtRender : Expr → Str
  | .ident i => rtIdent i
  | .attr o n => rtRender o ++ '/' :: n
  | .lit .null _ => "null".toList
  | .lit .str v => '\'' :: strReplaceQuote v ++ ['\'']
  | .lit .geo v => "geography'".toList ++ v ++ ['\'']
  | .lit .duration v => "duration'".toList ++ v ++ ['\'']
  | .lit _ v => v
  | .list (.cons a .nil) => '(' :: rtRender a ++ ",)".toList
  | .list xs => '(' :: rtJoin xs ++ [')']
  | .binop o l r =>
      wrapIf (rtParenNeeded l o.className false) (rtRender l) ++ ' ' :: (arithWord o).toList ++ ' ' :: wrapIf (rtParenNeeded r o.className true) (rtRender r)
  | .compare o l r =>
      wrapIf (rtParenNeeded l o.className false) (rtRender l) ++ ' ' :: (cmpWord o).toList ++ ' ' :: wrapIf (rtParenNeeded r o.className true) (rtRender r)
  | .boolop o l r =>
      wrapIf (rtParenNeeded l o.className false) (rtRender l) ++ ' ' :: (boolWord o).toList ++ ' ' :: wrapIf (rtParenNeeded r o.className true) (rtRender r)
  | .unary .not_ e => "not ".toList ++ wrapIf (rtParenNeeded e "Not" false) (rtRender e)
  | .unary .neg e => "- ".toList ++ wrapIf (rtParenNeeded e "USub" false) (rtRender e)
  | .named n e => rtIdent n ++ '=' :: rtRender e
  | .call f args => rtIdent f ++ '(' :: rtJoin args ++ [')']
  | .coll ow op lam =>
      rtRender ow ++ '/' :: (if op = .any then "any" else "all").toList ++ '(' :: rtLam lam ++ [')']
/-- `", ".join(self.visit(v) for v in xs)` -/
def rtJoin : Exprs → Str
  | .nil => []
  | .cons a .nil => rtRender a
  | .cons a rest => rtRender a ++ ',' :: ' ' :: rtJoin rest
def rtLam : OptLam → Str
  | .none => []
  | .some v b => rtIdent v ++ ':' :: ' ' :: rtRender b
end

end OQ
