/-
  Model/Typing.lean — odata_query/typing.py: `infer_type`, `infer_return_type`, `typecheck`.
-/
import ODataVerif.Model.Basic
import ODataVerif.Model.Ast
import ODataVerif.Model.Parser
namespace OQ

/-- what `infer_type` returns when it returns a class: a literal class, or `ast.List` -/
inductive Ty
  | lit (k : LitKind)
  | list
  deriving DecidableEq, Repr

def Ty.className : Ty → String
  | .lit k => k.className
  | .list => "List"

/-- how `infer_return_type` (typing.py:58-118) answers for a function name -/
inductive RetRule
  | fixed (t : Ty)
  | arg0or1          -- `infer_type(args[0]) or infer_type(args[1])`   (concat)
  | arg0             -- `infer_type(args[0])`                          (substring)
  | unknown          -- falls off the end: `None`
  deriving DecidableEq, Repr

/-- the `if func in (…)` chain of `infer_return_type` as a table (typing.py:68-116) -/
def returnRuleTable : List (String × RetRule) :=
  [("contains", .fixed (.lit .bool)), ("endswith", .fixed (.lit .bool)), ("startswith", .fixed (.lit .bool)),
   ("hassubset", .fixed (.lit .bool)), ("hassubsequence", .fixed (.lit .bool)), ("geo.intersects", .fixed (.lit .bool)),
   ("indexof", .fixed (.lit .int)), ("length", .fixed (.lit .int)), ("year", .fixed (.lit .int)),
   ("month", .fixed (.lit .int)), ("day", .fixed (.lit .int)), ("hour", .fixed (.lit .int)),
   ("minute", .fixed (.lit .int)), ("second", .fixed (.lit .int)), ("totaloffsetminutes", .fixed (.lit .int)),
   ("fractionalseconds", .fixed (.lit .float)), ("totalseconds", .fixed (.lit .float)),
   ("ceiling", .fixed (.lit .float)), ("floor", .fixed (.lit .float)), ("round", .fixed (.lit .float)),
   ("geo.distance", .fixed (.lit .float)), ("geo.length", .fixed (.lit .float)),
   ("tolower", .fixed (.lit .str)), ("toupper", .fixed (.lit .str)), ("trim", .fixed (.lit .str)),
   ("date", .fixed (.lit .date)),
   ("maxdatetime", .fixed (.lit .datetime)), ("mindatetime", .fixed (.lit .datetime)), ("now", .fixed (.lit .datetime)),
   ("concat", .arg0or1), ("substring", .arg0)]

def inferReturnRule (func : String) : RetRule :=
  match returnRuleTable.find? (fun r => r.1 == func) with
  | some r => r.2
  | none => .unknown

mutual
/-- `infer_type` (typing.py:36). `args[i]` past the end of the argument list is outside the model
    (the parser guarantees the arity of `concat` / `substring`); it yields `none` here. -/
def inferType : Expr → Option Ty
  | .lit k _ => some (.lit k)
  | .list _ => some .list
  | .compare _ _ _ => some (.lit .bool)
  | .boolop _ _ _ => some (.lit .bool)
  | .call f args =>
      match inferReturnRule (String.ofList f.fullName) with
      | .fixed t => some t
      | .arg0or1 => inferFirst2 args
      | .arg0 => inferFirst args
      | .unknown => none
  | _ => none
def inferFirst : Exprs → Option Ty
  | .nil => none
  | .cons a _ => inferType a
def inferFirst2 : Exprs → Option Ty
  | .nil => none
  | .cons a .nil => inferType a
  | .cons a (.cons b _) =>
      match inferType a with
      | some t => some t
      | none => inferType b
end

/-- `typecheck(node, expected, field_name)` (typing.py:10): raises only when a type is known and not
    allowed.  `allowed` lists the *literal / list* classes among the expected classes (the callers
    also pass `ast.Identifier`, which `infer_type` never returns). -/
def typecheck (e : Expr) (allowed : List Ty) (fieldName : Str) : Outcome Unit :=
  match inferType e with
  | none => .ok ()
  | some t => if allowed.contains t then .ok () else .lib (.argumentType fieldName)

end OQ
