/-
  Model/Instances.lean — what SLY keeps on a lexer / parser *instance* between calls
  (sly/lex.py `Lexer.tokenize`, sly/yacc.py `Parser.parse` / `restart`), and how a call uses it.
  C20 is about this state: `tokenize` is a generator whose position lives in its own frame and is only
  *published* on the instance around token actions; `parse` overwrites every field it reads before
  reading it.
-/
import ODataVerif.Model.Basic
import ODataVerif.Model.Ast
import ODataVerif.Model.Lexer
import ODataVerif.Model.Parser
namespace OQ

/-- `self.text self.index self.lineno` of a `sly.lex.Lexer` -/
structure LexerInst where
  text : Str
  index : Nat
  lineno : Nat
  deriving DecidableEq, Repr

/-- the frame of one running `tokenize(text)` generator: its local `text`, `index`; `dead` once it
    returned or raised -/
structure TokFrame where
  text : Str
  index : Nat
  dead : Bool
  deriving DecidableEq, Repr

inductive TokStep
  | tok (t : Tok)
  | stop                      -- StopIteration (end of text)
  | error (index : Nat)       -- TokenizingException(token.index)
  deriving DecidableEq, Repr

/-- one `next()` on a tokenizer of the shared lexer instance `inst` (lex.py:351-414): match at the
    frame's position; publish the new position on the instance; run the token action (none of this
    grammar's actions touches `self.index`); read the position back from the instance. -/
def tokNext (env : CharEnv) (fr : TokFrame) (inst : LexerInst) : TokStep × TokFrame × LexerInst :=
  if fr.dead then (.stop, fr, inst)
  else
    match fr.text.drop fr.index with
    | [] => (.stop, { fr with dead := true }, { text := fr.text, index := fr.index, lineno := 1 })   -- `finally:` publishes
    | cs =>
        match lexOne env cs with
        | none =>
            -- error hook: `self.index = index` … `raise`; `finally:` publishes again
            (.error fr.index, { fr with dead := true }, { text := fr.text, index := fr.index, lineno := 1 })
        | some (t, rest) =>
            let newIndex := fr.index + (cs.length - rest.length)
            let inst1 : LexerInst := { text := fr.text, index := newIndex, lineno := 1 }   -- self.index = index
            -- tok = _token_funcs[tok.type](self, tok)
            let back := inst1.index                                                           -- index = self.index
            (.tok t, { fr with index := back }, inst1)

/-- `lexer.tokenize(text)`: creating the generator runs nothing yet -/
def tokStart (text : Str) : TokFrame := { text := text, index := 0, dead := false }

/-- run a tokenizer alone to the end (fuel: the text length + 1 steps suffice) -/
def tokRun (env : CharEnv) : Nat → TokFrame → LexerInst → List TokStep
  | 0, _, _ => []
  | n + 1, fr, inst =>
      match tokNext env fr inst with
      | (.tok t, fr', inst') => .tok t :: tokRun env n fr' inst'
      | (s, _, _) => [s]

/-- a schedule interleaving two tokenizers A (false) and B (true) on ONE lexer instance -/
def tokInterleave (env : CharEnv) : List Bool → TokFrame → TokFrame → LexerInst → List TokStep × List TokStep
  | [], _, _, _ => ([], [])
  | false :: sch, a, b, inst =>
      let (s, a', inst') := tokNext env a inst
      let (ra, rb) := tokInterleave env sch a' b inst'
      (s :: ra, rb)
  | true :: sch, a, b, inst =>
      let (s, b', inst') := tokNext env b inst
      let (ra, rb) := tokInterleave env sch a b' inst'
      (ra, s :: rb)

/-- the fields of a `sly.yacc.Parser` instance that `parse` uses -/
structure ParserInst where
  statestack : List Nat
  symstack : List String
  state : Nat
  errorok : Bool
  deriving DecidableEq, Repr

/-- `self.statestack = []; self.symstack = []; self.restart()` (yacc.py parse / restart) -/
def ParserInst.reset (p : ParserInst) : ParserInst :=
  { p with statestack := [0], symstack := ["$end"], state := 0 }

/-- the LR driver started on an instance: it reads `state`, `statestack`, `symstack`.  From the reset
    configuration it computes the parse; from any other configuration its behaviour is unspecified
    here (`foreign "dirty"`), so history independence is a theorem about `reset`, not a definition. -/
def lrRun (p : ParserInst) (lexErr : Option Nat) (toks : List Tok) : Outcome Expr :=
  if p.state = 0 ∧ p.statestack = [0] ∧ p.symstack = ["$end"] then parseToks lexErr toks
  else .foreign "dirty-parser-state"

/-- what a finished or aborted run leaves behind on the instance (some function of the input; the
    error path also clears `errorok`) -/
def leftover (p : ParserInst) (toks : List Tok) (r : Outcome Expr) : ParserInst :=
  { statestack := List.replicate toks.length 7, symstack := toks.map (fun _ => "sym"), state := toks.length,
    errorok := if r.isOk then p.errorok else false }

/-- `parser.parse(tokens)` on an instance with arbitrary history -/
def parseOn (p : ParserInst) (lexErr : Option Nat) (toks : List Tok) : Outcome Expr × ParserInst :=
  let p1 := p.reset
  let r := lrRun p1 lexErr toks
  (r, leftover p1 toks r)

def freshParser : ParserInst := { statestack := [], symstack := [], state := 0, errorok := false }

/-- a history of parse calls on one instance -/
def runHistory (p : ParserInst) : List (Option Nat × List Tok) → ParserInst
  | [] => p
  | (le, ts) :: rest => runHistory (parseOn p le ts).2 rest

end OQ
