/-
  Model/Basic.lean — shared vocabulary of the executable model.

  * `Tree`     uniform view of a Python dataclass AST (one constructor per Python value shape that
               can sit in a dataclass field of odata_query.ast): this is what travels on the wire
               and what the generic visitor / transformer / rewriters are modelled over.
  * `Outcome`  exceptions are values (DESIGN §3.4).
  Core Lean only (no Mathlib): this file is linked into the `driver` executable.
-/
namespace OQ

abbrev Str := List Char

mutual
/-- A Python value that can occur inside an `odata_query.ast` dataclass instance. -/
inductive Tree
  | node (kind : String) (fields : TreeList)   -- dataclass instance `Kind(f1, f2, …)` (fields in declaration order)
  | list (items : TreeList)                    -- Python `list`
  | tuple (items : List Str)                   -- Python `tuple` of `str` (Identifier.namespace)
  | str (s : Str)                              -- Python `str`
  | none                                       -- Python `None`
  deriving DecidableEq, Repr
inductive TreeList
  | nil
  | cons (h : Tree) (t : TreeList)
  deriving DecidableEq, Repr
end

namespace TreeList
def toList : TreeList → List Tree
  | nil => []
  | cons h t => h :: t.toList
def ofList : List Tree → TreeList
  | [] => nil
  | h :: t => cons h (ofList t)
@[simp] theorem toList_ofList (l : List Tree) : (ofList l).toList = l := by
  induction l with
  | nil => rfl
  | cons h t ih => simp [ofList, toList, ih]
@[simp] theorem ofList_toList : (l : TreeList) → ofList l.toList = l
  | nil => rfl
  | cons h t => by simp [ofList, toList, ofList_toList t]
def length : TreeList → Nat
  | nil => 0
  | cons _ t => t.length + 1
def append : TreeList → TreeList → TreeList
  | nil, r => r
  | cons h t, r => cons h (append t r)
end TreeList

/-- The library's own exception classes (odata_query/exceptions.py), with the payload fields the
    properties talk about. -/
inductive LibExc
  | tokenizing (index : Nat)                      -- TokenizingException; index of the offending character
  | parsing (tokIndex : Option Nat)               -- ParsingException; `none` = end of input (eof=True)
  | unknownFunction (name : Str)
  | argumentCount (name : Str) (lo hi given : Nat)
  | unsupportedFunction (name : Str)
  | argumentType (fn : Str)
  | type_ (op : Str)
  | value
  | invalidField (name : Str)
  deriving DecidableEq, Repr

/-- Result of running a piece of Python: a value, one of the library's exceptions, the documented
    `NotImplementedError`, or a *foreign* exception (AttributeError, TypeError, …) — the model can
    produce the latter wherever the Python can, so "never raises a foreign exception" is not
    vacuous. -/
inductive Outcome (α : Type)
  | ok (a : α)
  | lib (e : LibExc)
  | notImplemented
  | foreign (cls : String)
  deriving DecidableEq, Repr

namespace Outcome
@[inline] def bind {α β} (x : Outcome α) (f : α → Outcome β) : Outcome β :=
  match x with
  | ok a => f a
  | lib e => lib e
  | notImplemented => notImplemented
  | foreign c => foreign c
instance : Monad Outcome where
  pure := ok
  bind := bind
def isOk {α} : Outcome α → Bool
  | ok _ => true
  | _ => false
def isForeign {α} : Outcome α → Bool
  | foreign _ => true
  | _ => false
@[simp] theorem bind_ok {α β} (a : α) (f : α → Outcome β) : (ok a >>= f) = f a := rfl
@[simp] theorem bind_lib {α β} (e : LibExc) (f : α → Outcome β) : ((lib e : Outcome α) >>= f) = lib e := rfl
@[simp] theorem bind_foreign {α β} (c : String) (f : α → Outcome β) : ((foreign c : Outcome α) >>= f) = foreign c := rfl
@[simp] theorem bind_notImplemented {α β} (f : α → Outcome β) : ((notImplemented : Outcome α) >>= f) = notImplemented := rfl
@[simp] theorem pure_eq {α} (a : α) : (pure a : Outcome α) = ok a := rfl
end Outcome

/-- What a string-producing visitor method returns: a `str`, or `None` when dispatch fell through to
    `NodeVisitor.generic_visit` (DESIGN §3.5). -/
inductive PyVal
  | str (s : Str)
  | none
  deriving DecidableEq, Repr

/-- f-string interpolation `f"{v}"`. -/
def PyVal.fmt : PyVal → Str
  | .str s => s
  | .none => "None".toList

end OQ
