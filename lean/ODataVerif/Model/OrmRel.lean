/-
  Model/OrmRel.lean — how the two ORM visitors translate navigation and collection lambdas (C04), as query PLANS over
  a relational schema (Spec/RelSem.lean `Schema`):

  Django (django_q.py `visit_CollectionLambda`, django/utils.py `reverse_relationship`, utils.py
  `expression_relative_to_identifier` = rewrite.IdentifierStripper):
      owner path  a/b/coll  →  keyword "a__b__coll"  →  walk the relations from the root model collecting each relation's
      REMOTE name, reversed: the path from the related model back to the outer row (`path_to_outerref`);
      sub-query = RelatedModel.objects.filter(<path_to_outerref> = OuterRef("pk"));
      lambda body: variable stripped (IdentifierStripper), translated by a NEW visitor rooted at the related model;
      any → EXISTS(sub-query.filter(body))          all → NOT EXISTS(sub-query.filter(NOT body))
  SQLAlchemy ORM (orm.py `visit_Attribute`, `visit_CollectionLambda`, shorthand.py join loop):
      a to-one path records one LEFT OUTER JOIN per relationship traversed (`join_relationships`);
      any → owner.any(body)      all → NOT owner.any(NOT body)      body translated by a new visitor rooted at the collection's
      model, with the variable stripped; a body that itself navigates is refused.
  Scalar leaves are kept as typed conditions over path-qualified columns: their translation is the subject of C02 / C03.
-/
import ODataVerif.Model.Ast
import ODataVerif.Model.Rewrite
import ODataVerif.Spec.RelSem
import ODataVerif.Spec.RelElab
namespace OQ
open Spec

/-- the relation of the schema that leads back: same link, opposite direction -/
def inverseOf (sch : Schema) (r : RelDef) : Option RelDef :=
  sch.find? (fun r' =>
    r'.src == r.dst && r'.dst == r.src &&
    (match r.kind, r'.kind with
     | .toOne fk key, .toMany cfk key' => fk == cfk && key == key'
     | .toMany cfk key', .toOne fk key => fk == cfk && key == key'
     | .m2m l s d, .m2m l' s' d' => l == l' && s == d' && d == s'
     | _, _ => false))

/-- `reverse_relationship(path, root_model)`: the remote names, reversed, and the model reached; `none` = a step is not a
    relation of the model it is applied to (Django raises FieldDoesNotExist) -/
def reverseRelationship (sch : Schema) : Str → List Str → Option (List Str × Str)
  | tbl, [] => some ([], tbl)
  | tbl, step :: rest =>
      match sch.rel tbl step with
      | some r =>
          (match inverseOf sch r, reverseRelationship sch r.dst rest with
           | some inv, some (back, final) => some (back ++ [inv.name], final)
           | _, _ => none)
      | none => none

/-- `IdentifierStripper(v).visit(body)` on the typed view (the uniform-tree model is Model/Rewrite.lean `strip`) -/
def stripVar (v : Ident) (body : Expr) : Option Expr := Expr.ofTree (strip v.toTree body.toTree)

inductive Plan
  | leaf (b : BoolE)                                         -- scalar condition over the current root's (path-qualified) columns
  | and (l r : Plan)
  | or (l r : Plan)
  | not (e : Plan)
  | exists_ (child : Str) (back : List Str) (body : Option Plan)      -- EXISTS(child rows c with c.<back> = outer.pk [AND body(c)])
  | notExistsNot (child : Str) (back : List Str) (body : Plan)        -- NOT EXISTS(… AND NOT body(c))
  deriving Repr

inductive PlanErr
  | typeLambda            -- TypeException("lambda_expression", …): the owner is not a path
  | noField               -- a path step is not a relation of the model (FieldDoesNotExist / InvalidField)
  | unsupported           -- outside the relational grammar modelled here
  deriving DecidableEq, Repr

/-- Django: `AstToDjangoQVisitor(root).visit(e)` for relational filters.  `fuel` bounds lambda nesting (each lambda creates a
    new visitor); structural recursion is not available because the body is first rewritten by `stripVar`. -/
def djPlan (sch : Schema) (kindOf : Str → Option ColK) : Nat → Str → Expr → Except PlanErr Plan
  | 0, _, _ => .error .unsupported
  | fuel + 1, root, e =>
      match e with
      | .boolop .and_ l r => do
          let a ← djPlan sch kindOf fuel root l
          let b ← djPlan sch kindOf fuel root r
          pure (.and a b)
      | .boolop .or_ l r => do
          let a ← djPlan sch kindOf fuel root l
          let b ← djPlan sch kindOf fuel root r
          pure (.or a b)
      | .unary .not_ x => do
          let a ← djPlan sch kindOf fuel root x
          pure (.not a)
      | .coll ow op lam =>
          match pathSegs ow with
          | none => .error .typeLambda
          | some segs =>
              match reverseRelationship sch root segs with
              | none => .error .noField
              | some (back, child) =>
                  match lam with
                  | .none => if op == .any then pure (.exists_ child back none) else .error .unsupported
                  | .some v body =>
                      match stripVar v body with
                      | none => .error .unsupported
                      | some body' => do
                          let b ← djPlan sch kindOf fuel child body'
                          if op == .any then pure (.exists_ child back (some b)) else pure (.notExistsNot child back b)
      | leafE =>
          match relLeaf kindOf none leafE with
          | some b => pure (.leaf b)
          | none => .error .unsupported

/-! ### SQLAlchemy ORM -/
structure SaPlan where
  joins : List (List Str)       -- the to-one paths whose relationships are joined (each prefix is recorded when traversed)
  clause : Plan                 -- `exists_` / `notExistsNot` here stand for `rel.any(body)` / `~rel.any(~body)`; `back` is unused ([])

/-- all to-one prefixes a scalar leaf navigates (`visit_Attribute` appends the relationship of every owner it passes) -/
def leafJoins (b : BoolE) : List (List Str) :=
  (colsOfB b).flatMap (fun key =>
    let segs := splitSlash key
    (List.range (segs.length - 1)).map (fun i => segs.take (i + 1)))

def saPlanAux (sch : Schema) (kindOf : Str → Option ColK) : Nat → Str → Expr → Except PlanErr (List (List Str) × Plan)
  | 0, _, _ => .error .unsupported
  | fuel + 1, root, e =>
      match e with
      | .boolop .and_ l r => do
          let (ja, a) ← saPlanAux sch kindOf fuel root l
          let (jb, b) ← saPlanAux sch kindOf fuel root r
          pure (ja ++ jb, .and a b)
      | .boolop .or_ l r => do
          let (ja, a) ← saPlanAux sch kindOf fuel root l
          let (jb, b) ← saPlanAux sch kindOf fuel root r
          pure (ja ++ jb, .or a b)
      | .unary .not_ x => do
          let (ja, a) ← saPlanAux sch kindOf fuel root x
          pure (ja, .not a)
      | .coll ow op lam =>
          match pathSegs ow with
          | none => .error .typeLambda
          | some segs =>
              match segs.reverse with
              | [] => .error .typeLambda
              | coll :: revPath =>
                  let path := revPath.reverse
                  match navTo sch [] root none path with
                  | none => .error .noField
                  | some (tbl, _) =>
                      match sch.rel tbl coll with
                      | none => .error .noField
                      | some rel =>
                          let js := (List.range path.length).map (fun i => path.take (i + 1))
                          match lam with
                          | .none => if op == .any then pure (js, .exists_ rel.dst (path ++ [coll]) none) else .error .unsupported
                          | .some v body =>
                              match stripVar v body with
                              | none => .error .unsupported
                              | some body' => do
                                  let (jb, b) ← saPlanAux sch kindOf fuel rel.dst body'
                                  -- a body that navigates needs joins the EXISTS cannot carry: refused (TypeException)
                                  if !jb.isEmpty then .error .typeLambda
                                  else if op == .any then pure (js, .exists_ rel.dst (path ++ [coll]) (some b))
                                  else pure (js, .notExistsNot rel.dst (path ++ [coll]) b)
      | leafE =>
          match relLeaf kindOf none leafE with
          | some b => pure (leafJoins b, .leaf b)
          | none => .error .unsupported

def saPlan (sch : Schema) (kindOf : Str → Option ColK) (fuel : Nat) (root : Str) (e : Expr) : Except PlanErr SaPlan :=
  (saPlanAux sch kindOf fuel root e).map (fun p => ⟨p.1, p.2⟩)

end OQ
