/-
  Model/Orm.lean — models of the ORM visitors on well-typed scalar filters:
    odata_query/django/django_q.py        AstToDjangoQVisitor            (`djBuild`)
    odata_query/sqlalchemy/common.py      _CommonVisitors + orm.py / core.py  (`saBuild`)

  Both visitors build ORM expression objects; the model builds an `OTree` with the same structure:
  a column reference, a BOUND PARAMETER holding a literal's Python value (`Value(v)` / `literal(v)`), an inline
  SQL constant (`true()`, `false()`, `null()`), or an operator / lookup / function node over sub-trees.
  What Django's and SQLAlchemy's compilers make of such a tree is the environment model (Spec/OrmSql.lean).
  Inputs outside the typed fragment (a list as an arithmetic operand, …) are `unmodelled`.
-/
import ODataVerif.Model.Ast
import ODataVerif.Model.Typing
import ODataVerif.Model.PyVal
import ODataVerif.Model.Sql
namespace OQ

mutual
inductive OTree
  | col (path : List Str)                 -- F("a__b")  /  Model.a  (a path through relationships)
  | param (k : LitKind) (v : Str)         -- bound parameter with the literal's value
  | pint (z : Int)                        -- bound parameter the library adds itself (`+ 1`, `- 1`)
  | const (s : String)                    -- inline SQL constant: TRUE FALSE NULL
  | node (op : String) (args : OTrees)    -- lookup / operator / function
inductive OTrees
  | nil
  | cons (h : OTree) (t : OTrees)
end

def OTrees.ofList : List OTree → OTrees
  | [] => .nil
  | h :: t => .cons h (ofList t)
def OTrees.toList : OTrees → List OTree
  | .nil => []
  | .cons h t => h :: t.toList

def on1 (op : String) (a : OTree) : OTree := .node op (.cons a .nil)
def on2 (op : String) (a b : OTree) : OTree := .node op (.cons a (.cons b .nil))
def on3 (op : String) (a b c : OTree) : OTree := .node op (.cons a (.cons b (.cons c .nil)))

/-- what kind of Python object a visit returned (decides the `isinstance` tests of the Django visitor) -/
inductive OKind | field | value | list | cond | expr
  deriving DecidableEq, Repr

/-- `node.py_val` must not raise for the literal to become a parameter (Date / Time / DateTime turn a
    ValueError into the library's ValueException; the other kinds let it escape) -/
def litParam (k : LitKind) (v : Str) : Outcome OTree :=
  match k with
  | .date | .time | .datetime =>
      (match pyVal k v with
       | .foreign _ => .lib .value
       | _ => .ok (.param k v))
  | .geo => .foreign "unmodelled"
  | .duration | .guid | .int =>
      (match pyVal k v with
       | .foreign c => .foreign c
       | _ => .ok (.param k v))
  | _ => .ok (.param k v)

def arithName : ArithOp → String
  | .add => "+" | .sub => "-" | .mul => "*" | .div => "/" | .mod => "%"
def cmpLookup : CmpOp → String
  | .eq => "exact" | .ne => "ne" | .lt => "lt" | .le => "lte" | .gt => "gt" | .ge => "gte" | .in_ => "in"
def cmpClass : CmpOp → String
  | .eq => "Eq" | .ne => "NotEq" | .lt => "Lt" | .le => "LtE" | .gt => "Gt" | .ge => "GtE" | .in_ => "In"

/-- the `djangofunc_*` / `func_*` handler names (identical sets; Generated.Orm) -/
def ormHandlers : List String :=
  ["ceiling", "concat", "contains", "date", "day", "endswith", "floor", "hour", "indexof", "length", "matchespattern",
   "minute", "month", "now", "round", "second", "startswith", "substring", "time", "tolower", "toupper", "trim", "year"]
def djangoGeoHandlers : List String := ["geo__distance", "geo__intersects", "geo__length"]

def isStrOrUnknown (t : Option Ty) : Bool := t == some (.lit .str) || t == none

/-- `typing.typecheck(field, (ast.Identifier, ast.String), "field")` + `typecheck(substr, ast.String, "substring")` -/
def substrTypecheck (a b : Expr) : Outcome Unit :=
  match inferType a with
  | some t => if t == .lit .str then
      (match inferType b with
       | some t' => if t' == .lit .str then .ok () else .lib (.argumentType "substring".toList)
       | none => .ok ())
    else .lib (.argumentType "field".toList)
  | none =>
      match inferType b with
      | some t' => if t' == .lit .str then .ok () else .lib (.argumentType "substring".toList)
      | none => .ok ()

/-- is some argument a named parameter (`f(x=1)`)? -/
def hasNamedArg : Exprs → Bool
  | .nil => false
  | .cons (.named _ _) _ => true
  | .cons _ t => hasNamedArg t

/-- the numbers of positional arguments `inspect.signature(djangofunc_<key>).bind(*args)` accepts (django_q.py `visit_Call` binds the arguments against the
    handler's signature first and reports a mismatch as ArgumentTypeException; Generated.Orm `djangoHandlerArities`, Tie.Orm) -/
def djArityOk (key : String) (n : Nat) : Bool :=
  match key with
  | "now" => n == 0
  | "concat" => true
  | "substring" => n == 2 || n == 3
  | "contains" | "startswith" | "endswith" | "indexof" | "matchespattern" => n == 2
  | _ => n == 1

/-! ### Django -/
mutual
/-- `AstToDjangoQVisitor.visit` below the top level: the tree and the kind of Python object -/
def djVisit : Expr → Outcome (OTree × OKind)
  | .ident i => .ok (.col [i.name], .field)
  | .attr o n => do
      let (t, _) ← djVisit o
      match t with
      | .col p => pure (.col (p ++ [n]), .field)
      | _ => .foreign "AttributeError"
  | .lit .null _ => .ok (.param .null [], .value)
  | .lit k v => do
      let p ← litParam k v
      pure (p, .value)
  | .list xs => do
      let items ← djVisitList xs
      pure (.node "list" (OTrees.ofList items), .list)
  | .binop op l r => do
      let (a, ka) ← djVisit l
      let (b, kb) ← djVisit r
      if ka == .list || kb == .list || ka == .cond || kb == .cond then .foreign "unmodelled"
      else pure (on2 (arithName op) a b, .expr)
  | .compare op l r =>
      if isNullLit l && (op == .eq || op == .ne) then
        -- `null eq x` is read as `x eq null`
        (do
          let (a, _) ← djVisit r
          if op == .eq then pure (on1 "isnull" a, .cond) else pure (on1 "notnull" a, .cond))
      else if isNullLit r then
        (do
          let (a, _) ← djVisit l
          if op == .eq then pure (on1 "isnull" a, .cond)
          else if op == .ne then pure (on1 "notnull" a, .cond)
          else .lib (.type_ (cmpClass op).toList))
      else do
        let (a, _) ← djVisit l
        let (b, _) ← djVisit r
        pure (on2 (cmpLookup op) a b, .cond)
  | .boolop op l r => do
      let (a, ka) ← djVisit l
      let (b, kb) ← djVisit r
      if ka == .field || ka == .value || kb == .field || kb == .value then
        .lib (.type_ (if op == .and_ then "And" else "Or").toList)
      else if ka != .cond || kb != .cond then .foreign "unmodelled"
      else pure (on2 (if op == .and_ then "and" else "or") a b, .cond)
  | .unary op e => do
      let (a, ka) ← djVisit e
      -- `val = self._ensure_q(val)` : a bare field / literal is refused
      if ka == .field || ka == .value then .lib (.type_ "filter".toList)
      else if op == .neg then .lib (.type_ "USub".toList)   -- no visit_USub: `None(val)` raises TypeError -> TypeException
      else if ka != .cond then .foreign "unmodelled"
      else pure (on1 "not" a, .cond)
  | .named _ _ => .foreign "unmodelled"
  | .coll _ _ _ => .foreign "unmodelled"
  | .call f args =>
      let key := String.ofList (pyLower (funcKey f))
      if !(ormHandlers.contains key || djangoGeoHandlers.contains key) then .lib (.unsupportedFunction (funcKey f))
      else if djangoGeoHandlers.contains key then .foreign "unmodelled"
      else if hasNamedArg args then .foreign "unmodelled"
      else if !djArityOk key args.length then .lib (.argumentType (funcKey f))
      else djFunc key args
def djVisitList : Exprs → Outcome (List OTree)
  | .nil => .ok []
  | .cons h t => do
      let (a, _) ← djVisit h
      let rest ← djVisitList t
      pure (a :: rest)
/-- the `djangofunc_*` handlers -/
def djFunc (key : String) (args : Exprs) : Outcome (OTree × OKind) :=
  let un (name : String) : Outcome (OTree × OKind) :=
    match args with
    | .cons a .nil => do
        let (t, _) ← djVisit a
        pure (on1 name t, .expr)
    | _ => .foreign "TypeError"
  let like (name : String) : Outcome (OTree × OKind) :=
    match args with
    | .cons a (.cons b .nil) => do
        substrTypecheck a b
        let (x, _) ← djVisit a
        let (y, _) ← djVisit b
        pure (on2 name x y, .cond)
    | _ => .foreign "TypeError"
  match key with
  | "contains" => like "contains"
  | "startswith" => like "startswith"
  | "endswith" => like "endswith"
  | "length" => un "Length"
  | "concat" => do
      let items ← djVisitList args
      match items with
      | [a, b] => pure (on2 "Concat" a b, .expr)
      | _ => .foreign "unmodelled"
  | "indexof" =>
      match args with
      | .cons a (.cons b .nil) => do
          let (x, _) ← djVisit a
          let (y, _) ← djVisit b
          pure (on2 "-" (on2 "StrIndex" x y) (.pint 1), .expr)
      | _ => .foreign "TypeError"
  | "substring" =>
      match args with
      | .cons a (.cons b .nil) => do
          let (x, _) ← djVisit a
          let (i, _) ← djVisit b
          pure (on2 "Substr" x (on2 "+" i (.pint 1)), .expr)
      | .cons a (.cons b (.cons c .nil)) => do
          let (x, _) ← djVisit a
          let (i, _) ← djVisit b
          let (n, _) ← djVisit c
          pure (on3 "Substr" x (on2 "+" i (.pint 1)) n, .expr)
      | _ => .foreign "TypeError"
  | "matchespattern" =>
      match args with
      | .cons a (.cons b .nil) => do
          let (x, _) ← djVisit a
          let (y, _) ← djVisit b
          pure (on2 "regex" x y, .cond)
      | _ => .foreign "TypeError"
  | "tolower" => un "Lower"
  | "toupper" => un "Upper"
  | "trim" => un "Trim"
  | "date" => un "TruncDate"
  | "time" => un "TruncTime"
  | "day" => un "ExtractDay"
  | "hour" => un "ExtractHour"
  | "minute" => un "ExtractMinute"
  | "month" => un "ExtractMonth"
  | "second" => un "ExtractSecond"
  | "year" => un "ExtractYear"
  | "ceiling" => un "Ceil"
  | "floor" => un "Floor"
  | "round" => un "Round"
  | "now" =>
      match args with
      | .nil => .ok (.node "Now" .nil, .expr)
      | _ => .foreign "TypeError"
  | _ => .lib (.unsupportedFunction key.toList)
end

/-- `AstToDjangoQVisitor().visit(ast)` at the top level: the result is turned into a `Q` (`_ensure_q`) -/
def djBuild (e : Expr) : Outcome OTree :=
  match djVisit e with
  | .ok (t, k) =>
      if k == .field || k == .value then .lib (.type_ "filter".toList)
      else if k != .cond then .foreign "unmodelled"
      else .ok t
  | .lib x => .lib x
  | .notImplemented => .notImplemented
  | .foreign c => .foreign c

/-- `isinstance(substr, ast.String) and any(c in substr.val for c in "%_/")`  (common.py `_substr_function`) -/
def litNeedsEscape : Expr → Bool
  | .lit .str v => v.any (fun c => c == '%' || c == '_' || c == '/')
  | _ => false

/-! ### SQLAlchemy (the visitors shared by ORM and Core, on a single table / model) -/
section
variable (fields : List Str)        -- the column names of the root model / table
variable (core : Bool)              -- Core: paths and lambdas raise NotImplementedError

mutual
def saVisit : Expr → Outcome (OTree × OKind)
  | .ident i => if fields.contains i.name then .ok (.col [i.name], .field) else .lib (.invalidField i.name)
  | .attr _ _ => if core then .notImplemented else .foreign "unmodelled"
  | .coll _ _ _ => if core then .notImplemented else .foreign "unmodelled"
  | .lit .null _ => .ok (.const "NULL", .value)
  | .lit .bool v => .ok (.const (if pyLower v == "true".toList then "TRUE" else "FALSE"), .value)
  | .lit .guid v => .ok (.param .guid v, .value)           -- `literal(node.val)`: the text, not a UUID
  | .lit k v => do
      let p ← litParam k v
      pure (p, .value)
  | .list xs => do
      let items ← saVisitList xs
      pure (.node "list" (OTrees.ofList items), .list)
  | .binop op l r => do
      let (a, ka) ← saVisit l
      let (b, kb) ← saVisit r
      if ka == .list || kb == .list then .foreign "unmodelled"
      else pure (on2 (arithName op) a b, .expr)
  | .compare op l r => do
      let (a0, ka0) ← saVisit l
      let (b0, kb0) ← saVisit r
      -- `null eq x` / `null ne x` are visited as `x eq null` / `x ne null` (fix 6358e99: SQLAlchemy renders IS [NOT] NULL only when NULL is the right operand)
      let swap := isNullLit l && (op == .eq || op == .ne)
      let a := if swap then b0 else a0
      let ka := if swap then kb0 else ka0
      let b := if swap then a0 else b0
      let kb := if swap then ka0 else kb0
      if op == .in_ then
        (if ka == .list then .foreign "AttributeError" else pure (on2 "in" a b, .cond))
      else if ka == .list || kb == .list then .foreign "unmodelled"
      else
        -- `x lt null`, `x gt true`: SQLAlchemy's ArgumentError is reported as the library's TypeException
        let ordering := op == .lt || op == .le || op == .gt || op == .ge
        let isConst (t : OTree) : Bool := match t with
          | .const _ => true
          | _ => false
        if ordering && (isConst a || isConst b) then .lib (.type_ (cmpClass op).toList)
        else pure (on2 (cmpLookup op) a b, .cond)
  | .boolop op l r => do
      let (a, _) ← saVisit l
      let (b, _) ← saVisit r
      pure (on2 (if op == .and_ then "and" else "or") a b, .cond)
  | .unary op e => do
      let (a, _) ← saVisit e
      if op == .not_ then pure (on1 "not" a, .cond)
      else .lib (.type_ "USub".toList)            -- no visit_USub: `None(val)` raises TypeError -> TypeException
  | .named _ _ => .foreign "unmodelled"
  | .call f args =>
      let key := String.ofList (pyLower (funcKey f))
      if !ormHandlers.contains key then .lib (.unsupportedFunction (funcKey f))
      else saFunc key args
def saVisitList : Exprs → Outcome (List OTree)
  | .nil => .ok []
  | .cons h t => do
      let (a, _) ← saVisit h
      let rest ← saVisitList t
      pure (a :: rest)
def saFunc (key : String) (args : Exprs) : Outcome (OTree × OKind) :=
  let un (name : String) : Outcome (OTree × OKind) :=
    match args with
    | .cons a .nil => do
        let (t, _) ← saVisit a
        pure (on1 name t, .expr)
    | _ => .foreign "TypeError"
  let like (name : String) : Outcome (OTree × OKind) :=
    match args with
    | .cons a (.cons b .nil) => do
        substrTypecheck a b
        let (x, _) ← saVisit a
        let (y, _) ← saVisit b
        -- a literal substring with a LIKE wildcard is passed with `autoescape=True`
        pure (on2 (if litNeedsEscape b then name ++ "_autoescape" else name) x y, .cond)
    | _ => .foreign "TypeError"
  match key with
  | "contains" => like "contains"
  | "startswith" => like "startswith"
  | "endswith" => like "endswith"
  | "length" => un "char_length"
  | "concat" => do
      let items ← saVisitList args
      pure (.node "concat" (OTrees.ofList items), .expr)
  | "indexof" =>
      match args with
      | .cons a (.cons b .nil) => do
          let (x, _) ← saVisit a
          let (y, _) ← saVisit b
          pure (on2 "-" (on2 "strpos" x y) (.pint 1), .expr)
      | _ => .foreign "TypeError"
  | "substring" =>
      match args with
      | .cons a (.cons b .nil) => do
          let (x, _) ← saVisit a
          let (i, _) ← saVisit b
          pure (on2 "substr" x (on2 "+" i (.pint 1)), .expr)
      | .cons a (.cons b (.cons c .nil)) => do
          let (x, _) ← saVisit a
          let (i, _) ← saVisit b
          let (n, _) ← saVisit c
          pure (on3 "substr" x (on2 "+" i (.pint 1)) n, .expr)
      | _ => .foreign "TypeError"
  | "matchespattern" =>
      match args with
      | .cons a (.cons b .nil) => do
          let (x, _) ← saVisit a
          let (y, _) ← saVisit b
          pure (on2 "regexp_match" x y, .cond)
      | _ => .foreign "TypeError"
  | "tolower" => un "lower"
  | "toupper" => un "upper"
  | "trim" =>
      match args with
      | .cons a .nil => do
          let (t, _) ← saVisit a
          pure (on1 "ltrim" (on1 "rtrim" t), .expr)
      | _ => .foreign "TypeError"
  | "date" => un "cast_date"
  | "time" => un "cast_time"
  | "day" => un "extract_day"
  | "hour" => un "extract_hour"
  | "minute" => un "extract_minute"
  | "month" => un "extract_month"
  | "second" => un "extract_second"
  | "year" => un "extract_year"
  | "ceiling" => un "ceil"
  | "floor" => un "floor"
  | "round" => un "round"
  | "now" =>
      match args with
      | .nil => .ok (.node "now" .nil, .expr)
      | _ => .foreign "TypeError"
  | _ => .lib (.unsupportedFunction key.toList)
end

def saBuild (e : Expr) : Outcome OTree := (saVisit fields core e).bind (fun p => .ok p.1)
end

/-! ### what reaches the database as a bound parameter -/
mutual
/-- the literal values carried as bound parameters, in tree order -/
def OTree.params : OTree → List (LitKind × Str)
  | .param k v => [(k, v)]
  | .node _ args => args.params
  | _ => []
def OTrees.params : OTrees → List (LitKind × Str)
  | .nil => []
  | .cons h t => h.params ++ t.params
end

mutual
/-- the tree with every parameter's value erased: what the compiled SQL text can depend on -/
def OTree.skeleton : OTree → OTree
  | .param k _ => .param k []
  | .node op args => .node op args.skeleton
  | t => t
def OTrees.skeleton : OTrees → OTrees
  | .nil => .nil
  | .cons h t => .cons h.skeleton t.skeleton
end

end OQ
