/- Model/ExceptionTree.lean — class hierarchy of odata_query/exceptions.py (name ↦ proper ancestors, nearest first), pinned; tied to /repo by Tie/ExceptionTree.lean -/
namespace OQ.ExceptionTree
def exceptionTree : List (String × List String) :=
  [("ArgumentCountException", ["FunctionCallException", "ODataException", "Exception", "BaseException"]),
   ("ArgumentTypeException", ["FunctionCallException", "ODataException", "Exception", "BaseException"]),
   ("FunctionCallException", ["ODataException", "Exception", "BaseException"]),
   ("InvalidFieldException", ["ODataException", "Exception", "BaseException"]),
   ("ODataException", ["Exception", "BaseException"]),
   ("ODataSyntaxError", ["ODataException", "Exception", "BaseException"]),
   ("ParsingException", ["ODataSyntaxError", "ODataException", "Exception", "BaseException"]),
   ("TokenizingException", ["ODataSyntaxError", "ODataException", "Exception", "BaseException"]),
   ("TypeException", ["ODataException", "Exception", "BaseException"]),
   ("UnknownFunctionException", ["FunctionCallException", "ODataException", "Exception", "BaseException"]),
   ("UnsupportedFunctionException", ["FunctionCallException", "ODataException", "Exception", "BaseException"]),
   ("ValueException", ["ODataException", "Exception", "BaseException"])]
end OQ.ExceptionTree

