/-
  Model/Visitor.lean — odata_query/visitor.py over the uniform `Tree`:
  `NodeVisitor.visit` / `generic_visit` (visitor.py:33-60) and `NodeTransformer.generic_visit`
  (visitor.py:67-85).  `isinstance(value, list)` / `isinstance(value, ast._Node)` are the two
  constructor tests `.list` / `.node`; every other field value (str, tuple, None) is skipped.
-/
import ODataVerif.Model.Basic
namespace OQ

def Tree.kind? : Tree → Option String
  | .node k _ => some k
  | _ => Option.none

/-- `"visit_" + node.__class__.__name__` (visitor.py:42) -/
def handlerName (t : Tree) : String :=
  match t with
  | .node k _ => "visit_" ++ k
  | _ => "visit_?"

mutual
/-- the sequence of `visit` calls made by a visitor without overrides, starting with `visit(t)` -/
def visitTrace : Tree → List Tree
  | .node k fs => .node k fs :: fieldsTrace fs
  | _ => []
/-- `generic_visit`'s loop over the dataclass fields -/
def fieldsTrace : TreeList → List Tree
  | .nil => []
  | .cons (.list items) rest => itemsTrace items ++ fieldsTrace rest
  | .cons (.node k fs) rest => visitTrace (.node k fs) ++ fieldsTrace rest
  | .cons _ rest => fieldsTrace rest
/-- the inner loop over a list-valued field: only `_Node` items are visited -/
def itemsTrace : TreeList → List Tree
  | .nil => []
  | .cons (.node k fs) rest => visitTrace (.node k fs) ++ itemsTrace rest
  | .cons _ rest => itemsTrace rest
end

/-- An override installed on a transformer for the nodes of one kind. `recurse = true` is the usual
    `def visit_K(self, n): return g(self.generic_visit(n))`, `false` is `return g(n)`. -/
structure Override where
  kind : String
  g : Tree → Tree
  recurse : Bool

mutual
/-- `NodeTransformer.visit` with at most one overridden handler -/
def tvisit (ov : Option Override) : Tree → Tree
  | .node k fs =>
      match ov with
      | some o =>
          if o.kind == k then
            (if o.recurse then o.g (.node k (tfields ov fs)) else o.g (.node k fs))
          else .node k (tfields ov fs)
      | none => .node k (tfields ov fs)
  | t => t
/-- `NodeTransformer.generic_visit`: rebuild from visited fields -/
def tfields (ov : Option Override) : TreeList → TreeList
  | .nil => .nil
  | .cons (.list items) rest => .cons (.list (titems ov items)) (tfields ov rest)
  | .cons (.node k fs) rest => .cons (tvisit ov (.node k fs)) (tfields ov rest)
  | .cons x rest => .cons x (tfields ov rest)
def titems (ov : Option Override) : TreeList → TreeList
  | .nil => .nil
  | .cons (.node k fs) rest => .cons (tvisit ov (.node k fs)) (titems ov rest)
  | .cons x rest => .cons x (titems ov rest)
end

end OQ
