/-
  Model/Lexer.lean — character-level model of `ODataLexer` (odata_query/grammar.py:65-334) as run by
  `sly.lex.Lexer.tokenize`: at each position the rules are tried in declaration order and the first
  one that matches wins (ordered alternation of the master regex, `re.I`), then the one-character
  literals, then the error hook (TokenizingException).

  Every rule's regex is a hand-written total scanner `List Char → Option (… × rest)` that reproduces
  the regex *including its accidents* (DESIGN §3.3).  Character classes `\s \d \w` and the non-ASCII
  letters that match under `re.I` come from `CharTables` (brute-forced from CPython).
-/
import ODataVerif.Model.Basic
import ODataVerif.Model.Ast
import ODataVerif.Model.CharTables
namespace OQ

/-! ### character classes -/

def inRanges (rs : List (Nat × Nat)) (n : Nat) : Bool :=
  rs.any (fun r => r.1 ≤ n && n ≤ r.2)

/-- The character classes the scanners are parametrised over (DESIGN §3.2). -/
structure CharEnv where
  isSpace : Char → Bool          -- `\s`
  isDigit : Char → Bool          -- `\d`
  isWord : Char → Bool           -- `\w`
  ciExtra : Char → Char → Bool   -- `ciExtra p c`: non-ASCII `c` matches the ASCII lower-case letter `p` under re.I

def pyCharEnv : CharEnv where
  isSpace c := inRanges CharTables.spaceRanges c.toNat
  isDigit c := inRanges CharTables.digitRanges c.toNat
  isWord c := inRanges CharTables.wordRanges c.toNat
  ciExtra p c := CharTables.ciExtras.any (fun e => e.1 == p.toNat && e.2.contains c.toNat)

def isAsciiLower (c : Char) : Bool := 'a' ≤ c && c ≤ 'z'
def isAsciiUpper (c : Char) : Bool := 'A' ≤ c && c ≤ 'Z'
def asciiUpper (c : Char) : Char := if isAsciiLower c then Char.ofNat (c.toNat - 32) else c
def asciiLower (c : Char) : Char := if isAsciiUpper c then Char.ofNat (c.toNat + 32) else c

/-- Tokens, with the value the token action attaches. -/
inductive Tok
  | lit (k : LitKind) (v : Str)
  | ident (i : Ident)
  | arith (o : ArithOp)
  | cmp (o : CmpOp)            -- includes `in`
  | bool (o : BoolOp)
  | not_ | uminus | any | all | ws
  | lp | rp | comma | slash | colon | eqs
  deriving DecidableEq, Repr

section
variable (env : CharEnv)

/-- does the pattern character `p` (from a rule's regex, lower-case if a letter) match `c` under re.I? -/
def ciChar (p c : Char) : Bool :=
  if isAsciiLower p then c == p || c == asciiUpper p || env.ciExtra p c else c == p

/-- match a literal pattern string case-insensitively; returns (matched, rest) -/
def kw : List Char → List Char → Option (List Char × List Char)
  | [], cs => some ([], cs)
  | _ :: _, [] => none
  | p :: ps, c :: cs =>
      if ciChar env p c then
        match kw ps cs with
        | some (m, r) => some (c :: m, r)
        | none => none
      else none

/-- longest prefix satisfying `p` (a greedy `X*`) -/
def span (p : Char → Bool) : List Char → List Char × List Char
  | [] => ([], [])
  | c :: cs => if p c then let (a, b) := span p cs; (c :: a, b) else ([], c :: cs)

/-- `X+` -/
def span1 (p : Char → Bool) (cs : List Char) : Option (List Char × List Char) :=
  match span p cs with
  | ([], _) => none
  | (a, b) => some (a, b)

/-- exactly `n` characters satisfying `p` -/
def takeN (p : Char → Bool) : Nat → List Char → Option (List Char × List Char)
  | 0, cs => some ([], cs)
  | _ + 1, [] => none
  | n + 1, c :: cs =>
      if p c then
        match takeN p n cs with
        | some (m, r) => some (c :: m, r)
        | none => none
      else none

/-- at most `n` characters satisfying `p`, greedy -/
def takeUpTo (p : Char → Bool) : Nat → List Char → List Char × List Char
  | 0, cs => ([], cs)
  | _ + 1, [] => ([], [])
  | n + 1, c :: cs => if p c then let (a, b) := takeUpTo p n cs; (c :: a, b) else ([], c :: cs)

def inCharRange (lo hi : Char) (c : Char) : Bool := lo ≤ c && c ≤ hi

/-! ### the rules, in declaration order -/

/-- `(?:\d+L)?` for a duration designator `L` : the group matches digits followed by the letter, or
    nothing. -/
def durGroup (l : Char) (cs : List Char) : List Char × List Char :=
  match span1 env.isDigit cs with
  | some (ds, c :: r) => if ciChar env l c then (ds ++ [c], r) else ([], cs)
  | _ => ([], cs)

/-- `(?:\d+(?:\.\d+)?S)?` -/
def durSeconds (cs : List Char) : List Char × List Char :=
  match span1 env.isDigit cs with
  | some (ds, '.' :: r) =>
      (match span1 env.isDigit r with
       | some (fs, c :: r') => if ciChar env 's' c then (ds ++ '.' :: fs ++ [c], r') else ([], cs)
       | _ => ([], cs))
  | some (ds, c :: r) => if ciChar env 's' c then (ds ++ [c], r) else ([], cs)
  | _ => ([], cs)

/-- `str.upper()` on the characters a DURATION match can contain after the prefix -/
def durUpper (c : Char) : Char :=
  if isAsciiLower c then asciiUpper c else if c.toNat == 383 then 'S' else c

/-- DURATION (grammar.py:122). Returns the *value* (upper-cased, prefix and quotes stripped). -/
def scanDuration (cs : List Char) : Option (Str × List Char) := do
  let (_, r) ← kw env "duration'".toList cs
  let (sg, r) := match r with
    | '+' :: t => (['+'], t)
    | '-' :: t => (['-'], t)
    | _ => ([], r)
  let (p, r) ← kw env ['p'] r
  let (y, r) := durGroup env 'y' r
  let (mo, r) := durGroup env 'm' r
  let (d, r) := durGroup env 'd' r
  let (tp, r) := match r with
    | c :: t =>
        if ciChar env 't' c then
          let (h, t) := durGroup env 'h' t
          let (mi, t) := durGroup env 'm' t
          let (s, t) := durSeconds env t
          (c :: h ++ mi ++ s, t)
        else ([], r)
    | [] => ([], r)
  match r with
  | '\'' :: r' => some ((sg ++ p ++ y ++ mo ++ d ++ tp).map durUpper, r')
  | _ => none

/-- body of `'(?:[^']|'')*'` after the opening quote: greedy, and when no closing quote is left the
    regex backtracks to the last doubled quote and closes on its first half (grammar.py:135). Returns
    the raw content and the rest after the closing quote. -/
def strBody : List Char → Option (List Char × List Char)
  | [] => none
  | '\'' :: '\'' :: t =>
      match strBody t with
      | some (b, r) => some ('\'' :: '\'' :: b, r)
      | none => some ([], '\'' :: t)
  | '\'' :: t => some ([], t)
  | c :: t =>
      match strBody t with
      | some (b, r) => some (c :: b, r)
      | none => none

/-- `val.replace("''", "'")` -/
def unescape : List Char → List Char
  | '\'' :: '\'' :: t => '\'' :: unescape t
  | c :: t => c :: unescape t
  | [] => []

def scanString : List Char → Option (Str × List Char)
  | '\'' :: t => do
      let (b, r) ← strBody t
      pure (unescape b, r)
  | _ => none

/-- GEOGRAPHY (grammar.py:149): value is the raw content (quotes not un-doubled). -/
def scanGeography (cs : List Char) : Option (Str × List Char) := do
  let (_, r) ← kw env "geography'".toList cs
  strBody r

def isHex (c : Char) : Bool :=
  env.isDigit c || inCharRange 'a' 'f' c || inCharRange 'A' 'F' c

/-- GUID (grammar.py:156) -/
def scanGuid (cs : List Char) : Option (Str × List Char) := do
  let (a, r) ← takeN (isHex env) 8 cs
  let r ← match r with | '-' :: t => some t | _ => none
  let (b, r) ← takeN (isHex env) 4 r
  let r ← match r with | '-' :: t => some t | _ => none
  let (c, r) ← takeN (isHex env) 4 r
  let r ← match r with | '-' :: t => some t | _ => none
  let (d, r) ← takeN (isHex env) 4 r
  let r ← match r with | '-' :: t => some t | _ => none
  let (e, r) ← takeN (isHex env) 12 r
  pure (a ++ '-' :: b ++ '-' :: c ++ '-' :: d ++ '-' :: e, r)

/-- `_DATE = \d{4}-(?:0\d|1[0-2])-(?:[0-2]\d|3[01])` (grammar.py:19) -/
def scanDatePart : List Char → Option (Str × List Char)
  | y1 :: y2 :: y3 :: y4 :: '-' :: m1 :: m2 :: '-' :: d1 :: d2 :: r =>
      if env.isDigit y1 && env.isDigit y2 && env.isDigit y3 && env.isDigit y4
         && ((m1 == '0' && env.isDigit m2) || (m1 == '1' && inCharRange '0' '2' m2))
         && ((inCharRange '0' '2' d1 && env.isDigit d2) || (d1 == '3' && inCharRange '0' '1' d2))
      then some ([y1, y2, y3, y4, '-', m1, m2, '-', d1, d2], r) else none
  | _ => none

/-- `(?:[01]\d|2[0-3]):[0-5]\d` -/
def scanHourMinute : List Char → Option (Str × List Char)
  | h1 :: h2 :: ':' :: m1 :: m2 :: r =>
      if ((inCharRange '0' '1' h1 && env.isDigit h2) || (h1 == '2' && inCharRange '0' '3' h2))
         && inCharRange '0' '5' m1 && env.isDigit m2
      then some ([h1, h2, ':', m1, m2], r) else none
  | _ => none

/-- `(?:\.\d{1,12})?` -/
def scanFraction : List Char → Str × List Char
  | '.' :: r =>
      (match takeUpTo env.isDigit 12 r with
       | ([], _) => ([], '.' :: r)
       | (ds, r') => ('.' :: ds, r'))
  | r => ([], r)

/-- the seconds group of `_TIME`: `(:?:[0-5]\d(?:\.\d{1,12})?)` — note the stray `:?` (grammar.py:20) -/
def scanSeconds : List Char → Option (Str × List Char)
  | ':' :: ':' :: s1 :: s2 :: r =>
      if inCharRange '0' '5' s1 && env.isDigit s2 then
        let (f, r') := scanFraction env r
        some (':' :: ':' :: s1 :: s2 :: f, r')
      else none
  | ':' :: s1 :: s2 :: r =>
      if inCharRange '0' '5' s1 && env.isDigit s2 then
        let (f, r') := scanFraction env r
        some (':' :: s1 :: s2 :: f, r')
      else none
  | _ => none

/-- `(Z|[+-](?:[01]\d|2[0-3]):[0-5]\d)?` -/
def scanOffset : List Char → Str × List Char
  | c :: r =>
      if ciChar env 'z' c then ([c], r)
      else if c == '+' || c == '-' then
        match scanHourMinute env r with
        | some (hm, r') => (c :: hm, r')
        | none => ([], c :: r)
      else ([], c :: r)
  | [] => ([], [])

/-- DATETIME (grammar.py:162): `_DATE T hh:mm (seconds)? (offset)?` — the `?` after `_TIME` binds to
    the seconds group only. -/
def scanDateTime (cs : List Char) : Option (Str × List Char) := do
  let (d, r) ← scanDatePart env cs
  match r with
  | t :: r =>
      if ciChar env 't' t then do
        let (hm, r) ← scanHourMinute env r
        let (s, r) := match scanSeconds env r with
          | some (s, r') => (s, r')
          | none => ([], r)
        let (o, r) := scanOffset env r
        -- the token action upper-cases the text (`T` separator, `Z` suffix)
        pure ((d ++ t :: hm ++ s ++ o).map asciiUpper, r)
      else none
  | [] => none

/-- TIME (grammar.py:174): seconds are mandatory here. -/
def scanTime (cs : List Char) : Option (Str × List Char) := do
  let (hm, r) ← scanHourMinute env cs
  let (s, r) ← scanSeconds env r
  pure (hm ++ s, r)

/-- `[+-]?\d+` -/
def scanInteger (cs : List Char) : Option (Str × List Char) :=
  match cs with
  | '+' :: t => (span1 env.isDigit t).map (fun (d, r) => ('+' :: d, r))
  | '-' :: t => (span1 env.isDigit t).map (fun (d, r) => ('-' :: d, r))
  | _ => span1 env.isDigit cs

/-- `e[-+]?\d+` -/
def scanExponent : List Char → Option (Str × List Char)
  | e :: r =>
      if ciChar env 'e' e then
        match r with
        | '+' :: t => (span1 env.isDigit t).map (fun (d, r') => (e :: '+' :: d, r'))
        | '-' :: t => (span1 env.isDigit t).map (fun (d, r') => (e :: '-' :: d, r'))
        | _ => (span1 env.isDigit r).map (fun (d, r') => (e :: d, r'))
      else none
  | [] => none

/-- DECIMAL (grammar.py:180): integer then `.d+e±d+ | .d+ | e±d+` -/
def scanDecimal (cs : List Char) : Option (Str × List Char) := do
  let (i, r) ← scanInteger env cs
  match r with
  | '.' :: t =>
      (match span1 env.isDigit t with
       | some (f, r') =>
           (match scanExponent env r' with
            | some (e, r'') => some (i ++ '.' :: f ++ e, r'')
            | none => some (i ++ '.' :: f, r'))
       | none => none)
  | _ =>
      (match scanExponent env r with
       | some (e, r') => some (i ++ e, r')
       | none => none)

/-- negative look-ahead `(?!\.?\w)` closing the keyword literals (grammar.py BOOLEAN/NULL/ANY/ALL). -/
def notIdentCont : List Char → Bool
  | '.' :: c :: _ => !env.isWord c
  | c :: _ => !env.isWord c
  | [] => true

/-- a keyword literal `kw(?!\.?\w)` -/
def scanWord (w : List Char) (cs : List Char) : Option (Str × List Char) :=
  match kw env w cs with
  | some (m, r) => if notIdentCont env r then some (m, r) else none
  | none => none

/-- the BOOLEAN token action (grammar.py): `re.I` also matches non-ASCII case twins (U+017F long s for `s`), so a match that is
    not `true` / `false` in some ASCII letter case (`t.value.lower() not in ("true", "false")`) is handed to the identifier rule -/
def boolOrIdent (v : Str) : Tok :=
  if v.map asciiLower == "true".toList || v.map asciiLower == "false".toList then .lit .bool v else .ident ⟨v, []⟩

/-- `\s+kw\s+` -/
def scanOp (w : List Char) (cs : List Char) : Option (List Char) := do
  let (_, r) ← span1 env.isSpace cs
  let (_, r) ← kw env w r
  let (_, r) ← span1 env.isSpace r
  pure r

/-- `not\s+` -/
def scanNot (cs : List Char) : Option (List Char) := do
  let (_, r) ← kw env "not".toList cs
  let (_, r) ← span1 env.isSpace r
  pure r

/-- `[_a-z]` under re.I -/
def isIdentStart (c : Char) : Bool :=
  c == '_' || isAsciiLower c || isAsciiUpper c
    || "abcdefghijklmnopqrstuvwxyz".toList.any (fun p => env.ciExtra p c)

/-- `(?:\.?\w){0,n}` -/
def identTail : Nat → List Char → List Char × List Char
  | 0, cs => ([], cs)
  | n + 1, '.' :: c :: t =>
      if env.isWord c then let (a, b) := identTail n t; ('.' :: c :: a, b) else ([], '.' :: c :: t)
  | n + 1, c :: t =>
      if env.isWord c then let (a, b) := identTail n t; (c :: a, b) else ([], c :: t)
  | _ + 1, [] => ([], [])

/-- `str.split(".")` -/
def splitDots : List Char → List (List Char)
  | [] => [[]]
  | '.' :: t => [] :: splitDots t
  | c :: t =>
      match splitDots t with
      | h :: r => (c :: h) :: r
      | [] => [[c]]

/-- `*ns, identifier = value.split(".")` -/
def identOfText (s : List Char) : Ident :=
  let parts := splitDots s
  ⟨parts.getLast?.getD [], parts.dropLast⟩

/-- ODATA_IDENTIFIER (grammar.py:327) -/
def scanIdent : List Char → Option (Ident × List Char)
  | c :: t =>
      if isIdentStart env c then
        let (a, r) := identTail env 127 t
        some (identOfText (c :: a), r)
      else none
  | [] => none

/-- One step of `tokenize`: the first rule that matches, else a literal, else `none` (error hook). -/
def lexOne (cs : List Char) : Option (Tok × List Char) :=
  if let some (v, r) := scanDuration env cs then some (.lit .duration v, r)
  else if let some (v, r) := scanString cs then some (.lit .str v, r)
  else if let some (v, r) := scanGeography env cs then some (.lit .geo v, r)
  else if let some (v, r) := scanGuid env cs then some (.lit .guid v, r)
  else if let some (v, r) := scanDateTime env cs then some (.lit .datetime v, r)
  else if let some (v, r) := scanDatePart env cs then some (.lit .date v, r)
  else if let some (v, r) := scanTime env cs then some (.lit .time v, r)
  else if let some (v, r) := scanDecimal env cs then some (.lit .float v, r)
  else if let some (v, r) := scanInteger env cs then some (.lit .int v, r)
  else if let some (v, r) := scanWord env "true".toList cs then some (boolOrIdent v, r)
  else if let some (v, r) := scanWord env "false".toList cs then some (boolOrIdent v, r)
  else if let some (_, r) := scanWord env "null".toList cs then some (.lit .null [], r)
  else if let some r := scanOp env "add".toList cs then some (.arith .add, r)
  else if let some r := scanOp env "sub".toList cs then some (.arith .sub, r)
  else if let some r := scanOp env "mul".toList cs then some (.arith .mul, r)
  else if let some r := scanOp env "div".toList cs then some (.arith .div, r)
  else if let some r := scanOp env "mod".toList cs then some (.arith .mod, r)
  else if let '-' :: r := cs then some (.uminus, r)
  else if let some r := scanOp env "and".toList cs then some (.bool .and_, r)
  else if let some r := scanOp env "or".toList cs then some (.bool .or_, r)
  else if let some r := scanNot env cs then some (.not_, r)
  else if let some r := scanOp env "eq".toList cs then some (.cmp .eq, r)
  else if let some r := scanOp env "ne".toList cs then some (.cmp .ne, r)
  else if let some r := scanOp env "lt".toList cs then some (.cmp .lt, r)
  else if let some r := scanOp env "le".toList cs then some (.cmp .le, r)
  else if let some r := scanOp env "gt".toList cs then some (.cmp .gt, r)
  else if let some r := scanOp env "ge".toList cs then some (.cmp .ge, r)
  else if let some r := scanOp env "in".toList cs then some (.cmp .in_, r)
  else if let some (_, r) := scanWord env "any".toList cs then some (.any, r)
  else if let some (_, r) := scanWord env "all".toList cs then some (.all, r)
  else if let some (i, r) := scanIdent env cs then some (.ident i, r)
  else if let some (_, r) := span1 env.isSpace cs then some (.ws, r)
  else match cs with
    | '(' :: r => some (.lp, r)
    | ')' :: r => some (.rp, r)
    | ',' :: r => some (.comma, r)
    | '/' :: r => some (.slash, r)
    | ':' :: r => some (.colon, r)
    | '=' :: r => some (.eqs, r)
    | _ => none

/-- Result of tokenising a whole text: the tokens produced before the first error, and the
    character index of the error if there is one (`TokenizingException.token.index`). -/
structure LexResult where
  toks : List Tok
  err : Option Nat
  deriving DecidableEq, Repr

/-- `tokenize`, with fuel (each step consumes ≥ 1 character; `lexAll_fuel` shows `length + 1` is
    enough).  `pos` is the current character index. -/
def lexFuel : Nat → Nat → List Char → LexResult
  | 0, pos, _ => ⟨[], some pos⟩     -- unreachable with enough fuel
  | _ + 1, _, [] => ⟨[], none⟩
  | f + 1, pos, cs =>
      match lexOne env cs with
      | none => ⟨[], some pos⟩
      | some (t, r) =>
          let res := lexFuel f (pos + (cs.length - r.length)) r
          ⟨t :: res.toks, res.err⟩

def lexAll (cs : List Char) : LexResult := lexFuel env (cs.length + 1) 0 cs

end

end OQ
