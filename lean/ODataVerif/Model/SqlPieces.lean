/-
  Model/SqlPieces.lean — what a list of `Piece`s *means* as SQL tokens, and the decidable side conditions
  under which the characters `renderPieces` produces are read back as exactly those tokens.
-/
import ODataVerif.Model.Sql
namespace OQ
open Spec (SqlTok isDig isLetter isWordCh isBlank)

/-- a numeric literal as copied from the filter: an optional sign is its own SQL token -/
def numToks : Str → List SqlTok
  | '-' :: t => [.op ['-'], .num t]
  | '+' :: t => [.op ['+'], .num t]
  | t => [.num t]

def Piece.toks : Piece → List SqlTok
  | .tok t => [t]
  | .sq s => [.str s]
  | .dq s => [.qid s]
  | .raw s => numToks s
  | .ws _ => []

/-- the SQL tokens a piece list stands for -/
def pieceToks : List Piece → List SqlTok
  | [] => []
  | p :: ps => p.toks ++ pieceToks ps

/-- digits [ . digits ] [ (e|E) [+|-] digits ] -/
def allDig (s : Str) : Bool := !s.isEmpty && s.all isDig
def isNumBody (s : Str) : Bool :=
  let ip := s.takeWhile isDig
  let r := s.drop ip.length
  !ip.isEmpty &&
  (match r with
   | [] => true
   | '.' :: r1 =>
       let fp := r1.takeWhile isDig
       !fp.isEmpty &&
       (match r1.drop fp.length with
        | [] => true
        | c :: r2 =>
            (c == 'e' || c == 'E') &&
            (match r2 with
             | '+' :: r3 | '-' :: r3 => allDig r3
             | _ => allDig r2))
   | c :: r2 =>
       (c == 'e' || c == 'E') &&
       (match r2 with
        | '+' :: r3 | '-' :: r3 => allDig r3
        | _ => allDig r2))

def isNumText : Str → Bool
  | '-' :: t | '+' :: t => isNumBody t
  | t => isNumBody t

def sqlOps : List String := ["=", "!=", "<>", "<", "<=", ">", ">=", "+", "-", "*", "/", "%", "||"]

/-- the piece is spelled so that an SQL lexer reads it back as `Piece.toks` -/
def Piece.ok : Piece → Bool
  | .tok (.str _) => true
  | .tok (.qid s) => !s.contains '"'
  | .tok (.num s) => isNumBody s
  | .tok (.word s) => (match s with
                       | c :: _ => isLetter c && s.all isWordCh
                       | [] => false)
  | .tok (.op s) => sqlOps.contains (String.ofList s)
  | .tok _ => true
  | .sq s => !s.contains '\''
  | .dq s => !s.contains '"'
  | .raw s => isNumText s
  | .ws s => !s.isEmpty && s.all isBlank

/-! ### `litOk`: what the lexer guarantees about the texts inside an AST (C06), as a decidable predicate

Numbers are ASCII `[+-]?digits[.digits][e[+-]digits]`, Booleans are `true`/`false` in any case, date / time /
datetime / GUID texts and the components of a duration contain no quote, field names contain no `"`. -/
def boolText (v : Str) : Bool := pyUpper v == "TRUE".toList || pyUpper v == "FALSE".toList

def durPartsOk (p : DurParts) : Bool :=
  let okp (x : Option Str) : Bool := match x with
    | some s => !s.contains '\''
    | none => true
  okp p.years && okp p.months && okp p.days && okp p.hours && okp p.minutes && okp p.seconds

def litTextOk (isDigit : Char → Bool) (k : LitKind) (v : Str) : Bool :=
  match k with
  | .null | .str | .geo => true
  | .int | .float => isNumText v
  | .bool => boolText v
  | .date | .time | .datetime | .guid => !v.contains '\''
  | .duration => (match durUnpack isDigit v with
                  | some p => durPartsOk p
                  | none => true)

def nameOk (d : Dialect) (n : Str) : Bool := !(if d = .athena then athenaClean n else n).contains '"'
def aliasOk : Option Str → Bool
  | some a => !a.contains '"'
  | none => true

section
variable (isDigit : Char → Bool) (d : Dialect)
mutual
def litOk : Expr → Bool
  | .ident i => nameOk d i.name
  | .attr o _ => litOk o
  | .lit k v => litTextOk isDigit k v
  | .list xs => litOkList xs
  | .binop _ l r => litOk l && litOk r
  | .compare _ l r => litOk l && litOk r
  | .boolop _ l r => litOk l && litOk r
  | .unary _ e => litOk e
  | .named _ e => litOk e
  | .call _ args => litOkList args
  | .coll o _ _ => litOk o
def litOkList : Exprs → Bool
  | .nil => true
  | .cons h t => litOk h && litOkList t
end
end

end OQ
