/- Lemmas/CaseRules.lean — the literal rules of the lexer commute with a letter-case change; `asciiLower` and
   `asciiUpper` are such changes for `pyCharEnv` (for Props/C19Text.lean). -/
import ODataVerif.Lemmas.CaseMap
import ODataVerif.Lemmas.LexChain
namespace OQ.CaseMap
open Spec LexRender
set_option linter.unusedSimpArgs false
set_option linter.unusedVariables false
variable {env : CharEnv} {φ : Char → Char}

/-- what a letter-case change of the text does to the token of a literal rule: duration and datetime values are
    case-normalised by the token action, the other values are the text -/
def mapLitTok (φ : Char → Char) : Tok → Tok
  | .lit .duration v => .lit .duration v
  | .lit .datetime v => .lit .datetime v
  | .lit k v => .lit k (v.map φ)
  | .ident i => .ident ⟨i.name.map φ, i.ns.map (·.map φ)⟩
  | t => t

def mapRes (φ : Char → Char) (x : Option (Tok × List Char)) : Option (Tok × List Char) :=
  x.map fun p => (mapLitTok φ p.1, p.2.map φ)

theorem boolOrIdent_map (h : CaseMap env φ) (v : Str) : boolOrIdent (v.map φ) = mapLitTok φ (boolOrIdent v) := by
  have e : (v.map φ).map asciiLower = v.map asciiLower := by
    simp [List.map_map, Function.comp_def, h.low]
  unfold boolOrIdent
  rw [e]
  split <;> rfl

theorem litRules_map (h : CaseMap env φ) : ∀ f ∈ litRules env, ∀ s, f (s.map φ) = mapRes φ (f s) := by
  intro f hf s
  simp only [litRules, List.mem_cons, List.not_mem_nil, or_false] at hf
  rcases hf with rfl | rfl | rfl | rfl | rfl | rfl | rfl | rfl | rfl | rfl | rfl | rfl
  · simp only [rLit, scanDuration_map h]; cases scanDuration env s <;> rfl
  · simp only [rLit, scanString_map h]; cases scanString s <;> rfl
  · simp only [rLit, scanGeography_map h]; cases scanGeography env s <;> rfl
  · simp only [rLit, scanGuid_map h]; cases scanGuid env s <;> rfl
  · simp only [rLit, scanDateTime_map h]; cases scanDateTime env s <;> rfl
  · simp only [rLit, scanDatePart_map h]; cases scanDatePart env s <;> rfl
  · simp only [rLit, scanTime_map h]; cases scanTime env s <;> rfl
  · simp only [rLit, scanDecimal_map h]; cases scanDecimal env s <;> rfl
  · simp only [rLit, scanInteger_map h]; cases scanInteger env s <;> rfl
  · simp only [rBool, scanWord_map h "true".toList (by decide)]
    cases scanWord env "true".toList s with
    | none => rfl
    | some x => simp [mapRes, boolOrIdent_map h]
  · simp only [rBool, scanWord_map h "false".toList (by decide)]
    cases scanWord env "false".toList s with
    | none => rfl
    | some x => simp [mapRes, boolOrIdent_map h]
  · simp only [rNull, scanWord_map h "null".toList (by decide)]; cases scanWord env "null".toList s <;> rfl

theorem firstSome_map (fs : List Rule) (hfs : ∀ f ∈ fs, ∀ s, f (s.map φ) = mapRes φ (f s)) (s : List Char) :
    firstSome fs (s.map φ) = mapRes φ (firstSome fs s) := by
  induction fs with
  | nil => rfl
  | cons f fs ih =>
    simp only [firstSome, hfs f List.mem_cons_self]
    cases f s with
    | none => simpa [mapRes] using ih (fun g hg => hfs g (List.mem_cons_of_mem _ hg))
    | some x => rfl


/-! ### the two ASCII case changes are `CaseMap`s of `pyCharEnv` -/

def upperChars : List Char := "ABCDEFGHIJKLMNOPQRSTUVWXYZ".toList
def lowerChars : List Char := "abcdefghijklmnopqrstuvwxyz".toList

theorem upper_mem {c : Char} (h : isAsciiUpper c = true) : c ∈ upperChars := by
  simp only [isAsciiUpper, Bool.and_eq_true, decide_eq_true_eq, le_char_iff] at h
  have key : ∀ n, n < 91 → 65 ≤ n → Char.ofNat n ∈ upperChars := by decide
  have := key c.toNat (by have : 'Z'.toNat = 90 := rfl; omega) (by have : 'A'.toNat = 65 := rfl; omega)
  rwa [Char.ofNat_toNat] at this

theorem lower_mem {c : Char} (h : isAsciiLower c = true) : c ∈ lowerChars := by
  simp only [isAsciiLower, Bool.and_eq_true, decide_eq_true_eq, le_char_iff] at h
  have key : ∀ n, n < 123 → 97 ≤ n → Char.ofNat n ∈ lowerChars := by decide
  have := key c.toNat (by have : 'z'.toNat = 122 := rfl; omega) (by have : 'a'.toNat = 97 := rfl; omega)
  rwa [Char.ofNat_toNat] at this

theorem lower_of_table {P : Char → Prop} (ht : ∀ c ∈ upperChars, P c) (hn : ∀ c, isAsciiUpper c = false → P c) :
    ∀ c, P c := by
  intro c
  cases hc : isAsciiUpper c with
  | true => exact ht c (upper_mem hc)
  | false => exact hn c hc

theorem upper_of_table {P : Char → Prop} (ht : ∀ c ∈ lowerChars, P c) (hn : ∀ c, isAsciiLower c = false → P c) :
    ∀ c, P c := by
  intro c
  cases hc : isAsciiLower c with
  | true => exact ht c (lower_mem hc)
  | false => exact hn c hc

theorem asciiLower_id {c : Char} (h : isAsciiUpper c = false) : asciiLower c = c := by simp [asciiLower, h]
theorem asciiUpper_id {c : Char} (h : isAsciiLower c = false) : asciiUpper c = c := by
  unfold asciiUpper; rw [h]; rfl

theorem caseMap_lower : CaseMap E asciiLower where
  space := lower_of_table (by decide +kernel) (fun c h => by rw [asciiLower_id h])
  digit := lower_of_table (by decide +kernel) (fun c h => by rw [asciiLower_id h])
  word := lower_of_table (by decide +kernel) (fun c h => by rw [asciiLower_id h])
  ci := fun p hp => lower_of_table (P := fun c => ciChar E p (asciiLower c) = ciChar E p c)
    (fun c hc => (by decide +kernel : ∀ c ∈ upperChars, ∀ p ∈ patChars, ciChar E p (asciiLower c) = ciChar E p c) c hc p hp)
    (fun c h => by rw [asciiLower_id h])
  hex := lower_of_table (by decide +kernel) (fun c h => by rw [asciiLower_id h])
  r02 := lower_of_table (by decide +kernel) (fun c h => by rw [asciiLower_id h])
  r01 := lower_of_table (by decide +kernel) (fun c h => by rw [asciiLower_id h])
  r03 := lower_of_table (by decide +kernel) (fun c h => by rw [asciiLower_id h])
  r05 := lower_of_table (by decide +kernel) (fun c h => by rw [asciiLower_id h])
  eqc := fun x hx => lower_of_table (P := fun c => asciiLower c = x ↔ c = x)
    (fun c hc => (by decide +kernel : ∀ c ∈ upperChars, ∀ x ∈ ['0', '1', '2', '3', '+', '-', '.', '\'', ':'],
      (asciiLower c = x ↔ c = x)) c hc x hx)
    (fun c h => by rw [asciiLower_id h])
  durUp := lower_of_table (by decide +kernel) (fun c h => by rw [asciiLower_id h])
  up := lower_of_table (by decide +kernel) (fun c h => by rw [asciiLower_id h])
  low := lower_of_table (by decide +kernel) (fun c h => by simp only [asciiLower_id h])

theorem caseMap_upper : CaseMap E asciiUpper where
  space := upper_of_table (by decide +kernel) (fun c h => by rw [asciiUpper_id h])
  digit := upper_of_table (by decide +kernel) (fun c h => by rw [asciiUpper_id h])
  word := upper_of_table (by decide +kernel) (fun c h => by rw [asciiUpper_id h])
  ci := fun p hp => upper_of_table (P := fun c => ciChar E p (asciiUpper c) = ciChar E p c)
    (fun c hc => (by decide +kernel : ∀ c ∈ lowerChars, ∀ p ∈ patChars, ciChar E p (asciiUpper c) = ciChar E p c) c hc p hp)
    (fun c h => by rw [asciiUpper_id h])
  hex := upper_of_table (by decide +kernel) (fun c h => by rw [asciiUpper_id h])
  r02 := upper_of_table (by decide +kernel) (fun c h => by rw [asciiUpper_id h])
  r01 := upper_of_table (by decide +kernel) (fun c h => by rw [asciiUpper_id h])
  r03 := upper_of_table (by decide +kernel) (fun c h => by rw [asciiUpper_id h])
  r05 := upper_of_table (by decide +kernel) (fun c h => by rw [asciiUpper_id h])
  eqc := fun x hx => upper_of_table (P := fun c => asciiUpper c = x ↔ c = x)
    (fun c hc => (by decide +kernel : ∀ c ∈ lowerChars, ∀ x ∈ ['0', '1', '2', '3', '+', '-', '.', '\'', ':'],
      (asciiUpper c = x ↔ c = x)) c hc x hx)
    (fun c h => by rw [asciiUpper_id h])
  durUp := upper_of_table (by decide +kernel) (fun c h => by rw [asciiUpper_id h])
  up := upper_of_table (by decide +kernel) (fun c h => by simp only [asciiUpper_id h])
  low := upper_of_table (by decide +kernel) (fun c h => by rw [asciiUpper_id h])

end OQ.CaseMap
