/-
  Lemmas/SqlTotal.lean — the raw SQL visitors never leak an internal error on a tree the parser can produce:
  helper lemmas for Props/C12.lean.
-/
import ODataVerif.Model.Sql
import ODataVerif.Spec.RefPrinter
import ODataVerif.Lemmas.SqlAlias
namespace OQ.SqlTotal
open Spec SqlAlias

/-- a value or one of the library's exceptions — not a foreign error, not NotImplementedError -/
def clean {α} : Outcome α → Bool
  | .ok _ | .lib _ => true
  | _ => false

theorem clean_bind {α β} (x : Outcome α) (f : α → Outcome β) (hx : clean x = true)
    (hf : ∀ a, clean (f a) = true) : clean (x >>= f) = true := by
  cases x with
  | ok a => exact hf a
  | lib e => rfl
  | notImplemented => cases hx
  | foreign c => cases hx

theorem likeTpl_clean (name pre suf tys) : clean (likeTpl name pre suf tys) = true := by
  unfold likeTpl; split <;> rfl

/-- choosing the template never fails with anything but a library exception -/
theorem selectTpl_clean (d key tys) : clean (selectTpl d key tys) = true := by
  unfold selectTpl
  cases d <;> (dsimp only; split) <;>
    first
    | exact likeTpl_clean _ _ _ _
    | rfl
    | (repeat' split) <;> rfl

/-- every duration literal of the tree unpacks (what the lexer's DURATION rule guarantees) -/
def durLitOk (isD : Char → Bool) (k : LitKind) (v : Str) : Bool :=
  match k with
  | .duration => (durUnpack isD v).isSome
  | _ => true

mutual
def durOk (isD : Char → Bool) : Expr → Bool
  | .ident _ => true
  | .attr o _ => durOk isD o
  | .lit k v => durLitOk isD k v
  | .list xs => durOkList isD xs
  | .binop _ l r => durOk isD l && durOk isD r
  | .compare _ l r => durOk isD l && durOk isD r
  | .boolop _ l r => durOk isD l && durOk isD r
  | .unary _ e => durOk isD e
  | .named _ e => durOk isD e
  | .call _ args => durOkList isD args
  | .coll o _ l => durOk isD o && durOkLam isD l
def durOkList (isD : Char → Bool) : Exprs → Bool
  | .nil => true
  | .cons h t => durOk isD h && durOkList isD t
def durOkLam (isD : Char → Bool) : OptLam → Bool
  | .none => true
  | .some _ b => durOk isD b
end

theorem litPieces_clean (isD d k v) (h : durLitOk isD k v = true) : clean (litPieces isD d k v) = true := by
  unfold litPieces
  cases k <;> dsimp only
  case duration =>
    rw [durationPieces_eq]
    simp only [durLitOk] at h
    cases hu : durUnpack isD v with
    | none => simp [hu] at h
    | some p =>
      dsimp only
      split <;> rfl
  all_goals first
    | rfl
    | (cases d <;> (try simp only [reduceIte, reduceCtorEq]) <;> (try split) <;> rfl)

/-! ### arity: what the parser accepted fits the handler's signature -/

/-- `preCheck` does not end in a foreign error -/
def preClean (d : Dialect) (key : String) (n : Nat) : Bool :=
  match preCheck d key n with
  | some o => clean o
  | none => true

def dialects : List Dialect := [.std, .sqlite, .athena]

/-- finite check: for every function of the OData table, every admissible argument count and every dialect,
    the handler selected for its lower-cased name accepts that many arguments -/
def arityTable : Bool :=
  builtins.all (fun e =>
    dialects.all (fun d =>
      (List.range (e.2.2 + 1)).all (fun n =>
        decide (n < e.2.1) || preClean d (String.ofList (pyLower (funcKey ⟨e.1.toList, []⟩))) n)))

theorem arityTable_holds : arityTable = true := by decide +kernel

theorem preClean_of_callOk (d : Dialect) (f : Ident) (n : Nat) (hns : f.ns = []) (h : callOk f n = true) :
    preClean d (String.ofList (pyLower (funcKey f))) n = true := by
  unfold callOk at h
  simp only [hns, true_or, ↓reduceIte] at h
  have hsp : spellIdent f = f.name := by simp [spellIdent, hns, spellIdent.joinDotsS]
  rw [hsp] at h
  unfold arity at h
  cases he : List.find? (fun e => e.fst.toList == f.name) builtins with
  | none => simp [he] at h
  | some e =>
    simp only [he] at h
    have hmem := List.mem_of_find?_eq_some he
    have hname := List.find?_some he
    simp only [beq_iff_eq] at hname
    have hrange : e.2.1 ≤ n ∧ n ≤ e.2.2 := by simpa using h
    have ht := arityTable_holds
    unfold arityTable at ht
    rw [List.all_eq_true] at ht
    have h1 := ht e hmem
    rw [List.all_eq_true] at h1
    have hd : d ∈ dialects := by cases d <;> simp [dialects]
    have h2 := h1 d hd
    rw [List.all_eq_true] at h2
    have h3 := h2 n (by simp; omega)
    have hf : f = ⟨e.1.toList, []⟩ := by cases f; simp_all
    have hlt : decide (n < e.2.1) = false := by simp; omega
    simpa [hf, hlt] using h3

/-- a namespaced call never reaches a handler: every handler name is letters only, the key contains `__` -/
theorem key_underscore (f : Ident) (h : f.ns ≠ []) : '_' ∈ pyLower (funcKey f) := by
  unfold funcKey pyLower
  rw [List.mem_map]
  refine ⟨'_', ?_, by decide⟩
  rw [List.mem_flatMap]
  refine ⟨'.', ?_, by simp⟩
  cases hn : f.ns with
  | nil => exact absurd hn h
  | cons a r =>
    have : ∀ (x : Str) (rest : List Str), rest ≠ [] → '.' ∈ joinWith ['.'] (x :: rest) := by
      intro x rest hr
      cases rest with
      | nil => exact absurd rfl hr
      | cons y ys => simp [joinWith]
    exact this a (r ++ [f.name]) (by simp)

theorem handlers_no_underscore : ∀ h ∈ sqlHandlers, '_' ∉ h.toList := by decide

theorem not_handler_of_ns (f : Ident) (h : f.ns ≠ []) :
    sqlHandlers.contains (String.ofList (pyLower (funcKey f))) = false := by
  apply Bool.eq_false_iff.mpr
  intro hc
  rw [List.contains_iff_mem] at hc
  have := handlers_no_underscore _ hc
  simp only [String.toList_ofList] at this
  exact this (key_underscore f h)

end OQ.SqlTotal
