/-
  Lemmas/AcceptedLex3.lean — "trim" lemmas for the quoted rules (string, geography, duration) and the keyword literals.
-/
import ODataVerif.Lemmas.AcceptedLex2
namespace OQ.AcceptedLex
open OQ.LexRender OQ.Spec OQ.CaseMap
set_option linter.unusedSimpArgs false
set_option linter.unusedVariables false

/-! ### keywords -/
theorem kw_ps : ∀ (w cs m r : Str), kw E w cs = some (m, r) → cs = m ++ r ∧ ∀ y, kw E w (m ++ y) = some (m, y)
  | [], cs, m, r, h => by simp [kw] at h; obtain ⟨rfl, rfl⟩ := h; exact ⟨rfl, fun y => rfl⟩
  | p :: w, [], m, r, h => by simp [kw] at h
  | p :: w, c :: cs, m, r, h => by
    simp only [kw] at h
    split at h
    · rename_i hc
      cases hk : kw E w cs with
      | none => simp [hk] at h
      | some x =>
        obtain ⟨m', r'⟩ := x
        simp [hk] at h
        obtain ⟨rfl, rfl⟩ := h
        obtain ⟨rfl, hf⟩ := kw_ps w cs m' r' hk
        exact ⟨rfl, fun y => by simp [kw, hc, hf y]⟩
    · simp at h

theorem notIdentCont_nil : notIdentCont E [] = true := rfl

theorem scanWord_trim {w cs v r : Str} (h : scanWord E w cs = some (v, r)) :
    cs = v ++ r ∧ kw E w cs = some (v, r) ∧ scanWord E w v = some (v, []) := by
  unfold scanWord at h
  split at h
  · rename_i m r' hk
    split at h <;> simp only [Option.some.injEq, Prod.mk.injEq, reduceCtorEq] at h
    obtain ⟨rfl, rfl⟩ := h
    obtain ⟨hd, hf⟩ := kw_ps _ _ _ _ hk
    have := hf []
    rw [List.append_nil] at this
    exact ⟨hd, hk, by simp [scanWord, this, notIdentCont_nil]⟩
  · simp at h

/-! ### string bodies -/
/-- a string body: characters other than the quote, and doubled quotes -/
inductive Body : Str → Prop
  | nil : Body []
  | qq {b : Str} : Body b → Body ('\'' :: '\'' :: b)
  | ch {c : Char} {b : Str} : c ≠ '\'' → Body b → Body (c :: b)

theorem strBody_body : ∀ (t b r : Str), strBody t = some (b, r) → t = b ++ '\'' :: r ∧ Body b
  | [], b, r, h => by simp [strBody] at h
  | [c], b, r, h => by
    by_cases hc : c = '\''
    · subst hc
      rw [strBody_q [] (by simp)] at h
      simp at h; obtain ⟨rfl, rfl⟩ := h
      exact ⟨rfl, .nil⟩
    · rw [strBody_c _ _ hc] at h
      simp [strBody] at h
  | c :: c2 :: t, b, r, h => by
    by_cases hc : c = '\''
    · subst hc
      by_cases hc2 : c2 = '\''
      · subst hc2
        rw [strBody_qq] at h
        cases hs : strBody t with
        | none =>
          rw [hs] at h; simp at h; obtain ⟨rfl, rfl⟩ := h
          exact ⟨rfl, .nil⟩
        | some x =>
          obtain ⟨b', r'⟩ := x
          rw [hs] at h; simp at h; obtain ⟨rfl, rfl⟩ := h
          obtain ⟨rfl, hb⟩ := strBody_body t b' r' hs
          exact ⟨rfl, .qq hb⟩
      · rw [strBody_q _ (by intro t' e; simp at e; exact hc2 e.1)] at h
        simp at h; obtain ⟨rfl, rfl⟩ := h
        exact ⟨rfl, .nil⟩
    · rw [strBody_c _ _ hc] at h
      cases hs : strBody (c2 :: t) with
      | none => rw [hs] at h; simp at h
      | some x =>
        obtain ⟨b', r'⟩ := x
        rw [hs] at h; simp at h; obtain ⟨rfl, rfl⟩ := h
        obtain ⟨e, hb⟩ := strBody_body (c2 :: t) b' r' hs
        exact ⟨by rw [e]; rfl, .ch hc hb⟩

theorem body_fwd {b : Str} (h : Body b) : strBody (b ++ ['\'']) = some (b, []) := by
  induction h with
  | nil => exact strBody_q [] (by simp)
  | qq hb ih => simp only [List.cons_append]; rw [strBody_qq, ih]
  | ch hc hb ih => simp only [List.cons_append]; rw [strBody_c _ _ hc, ih]

theorem body_quote {b : Str} (h : Body b) : quoteStr (unescape b) = b := by
  induction h with
  | nil => rfl
  | qq hb ih => simp only [unescape, quoteStr, ih]
  | @ch c b hc hb ih =>
    have h1 : unescape (c :: b) = c :: unescape b := unescape_c c b (fun t' e => absurd e hc)
    rw [h1, quoteStr.eq_def]
    split
    · rename_i heq; cases heq
    · rename_i heq; simp at heq; exact absurd heq.1 hc
    · rename_i heq; simp at heq; obtain ⟨rfl, rfl⟩ := heq; rw [ih]

theorem scanString_trim {cs v r : Str} (h : scanString cs = some (v, r)) :
    cs = ('\'' :: quoteStr v ++ ['\'']) ++ r ∧ scanString ('\'' :: quoteStr v ++ ['\'']) = some (v, []) := by
  unfold scanString at h
  split at h
  · rename_i t
    simp only [Option.bind_eq_bind, Option.bind_eq_some_iff] at h
    obtain ⟨⟨b, r'⟩, hb, h⟩ := h
    simp only [Option.pure_def, Option.some.injEq, Prod.mk.injEq] at h
    obtain ⟨rfl, rfl⟩ := h
    obtain ⟨rfl, hB⟩ := strBody_body _ _ _ hb
    rw [body_quote hB]
    refine ⟨by simp, ?_⟩
    simp only [List.cons_append, scanString, Option.bind_eq_bind, body_fwd hB, Option.bind_some, Option.pure_def]
  · simp at h

theorem kw_geo (x : Str) : kw E "geography'".toList ("geography'".toList ++ x) = some ("geography'".toList, x) :=
  LitLex.kw_self _ _ (by decide +kernel)

theorem scanGeography_trim {cs v r : Str} (h : scanGeography E cs = some (v, r)) :
    scanGeography E ("geography'".toList ++ v ++ ['\'']) = some (v, []) := by
  unfold scanGeography at h
  simp only [Option.bind_eq_bind, Option.bind_eq_some_iff] at h
  obtain ⟨⟨m, r0⟩, hk, hb⟩ := h
  obtain ⟨-, hB⟩ := strBody_body _ _ _ hb
  rw [List.append_assoc]
  simp only [scanGeography, Option.bind_eq_bind, kw_geo, Option.bind_some, body_fwd hB]

/-! ### durations -/
def durSign (r : Str) : Str × Str := match r with
  | '+' :: t => (['+'], t)
  | '-' :: t => (['-'], t)
  | _ => ([], r)
def durDate (r : Str) : Str × Str :=
  let y := durGroup E 'y' r
  let mo := durGroup E 'm' y.2
  let d := durGroup E 'd' mo.2
  (y.1 ++ mo.1 ++ d.1, d.2)
def durTime (r : Str) : Str × Str := match r with
  | c :: t =>
      if ciChar E 't' c then
        let h := durGroup E 'h' t
        let mi := durGroup E 'm' h.2
        let s := durSeconds E mi.2
        (c :: h.1 ++ mi.1 ++ s.1, s.2)
      else ([], r)
  | [] => ([], r)
def durInner (r : Str) : Option (Str × Str) :=
  match kw E ['p'] (durSign r).2 with
  | none => none
  | some (p, r1) => some ((durSign r).1 ++ p ++ (durDate r1).1 ++ (durTime (durDate r1).2).1, (durTime (durDate r1).2).2)

theorem scanDuration_eq (cs : Str) : scanDuration E cs =
    match kw E "duration'".toList cs with
    | none => none
    | some (_, r0) => match durInner r0 with
      | none => none
      | some (B, r) => match r with
        | '\'' :: r' => some (B.map durUpper, r')
        | _ => none := by
  unfold scanDuration
  simp only [Option.bind_eq_bind]
  cases hk : kw E "duration'".toList cs with
  | none => rfl
  | some x =>
    obtain ⟨m0, r0⟩ := x
    simp only [Option.bind_some]
    have key : ∀ (sg X : Str),
        ((kw E ['p'] X).bind fun __x =>
          match
            (match (durGroup E 'd' (durGroup E 'm' (durGroup E 'y' __x.snd).snd).snd).snd with
              | c :: t =>
                if ciChar E 't' c = true then
                  (c :: (durGroup E 'h' t).fst ++ (durGroup E 'm' (durGroup E 'h' t).snd).fst ++
                      (durSeconds E (durGroup E 'm' (durGroup E 'h' t).snd).snd).fst,
                    (durSeconds E (durGroup E 'm' (durGroup E 'h' t).snd).snd).snd)
                else ([], (durGroup E 'd' (durGroup E 'm' (durGroup E 'y' __x.snd).snd).snd).snd)
              | [] => ([], (durGroup E 'd' (durGroup E 'm' (durGroup E 'y' __x.snd).snd).snd).snd)).snd with
          | '\'' :: r' =>
            some
              (List.map durUpper
                  (sg ++ __x.fst ++ (durGroup E 'y' __x.snd).fst ++
                        (durGroup E 'm' (durGroup E 'y' __x.snd).snd).fst ++
                      (durGroup E 'd' (durGroup E 'm' (durGroup E 'y' __x.snd).snd).snd).fst ++
                    (match (durGroup E 'd' (durGroup E 'm' (durGroup E 'y' __x.snd).snd).snd).snd with
                      | c :: t =>
                        if ciChar E 't' c = true then
                          (c :: (durGroup E 'h' t).fst ++ (durGroup E 'm' (durGroup E 'h' t).snd).fst ++
                              (durSeconds E (durGroup E 'm' (durGroup E 'h' t).snd).snd).fst,
                            (durSeconds E (durGroup E 'm' (durGroup E 'h' t).snd).snd).snd)
                        else ([], (durGroup E 'd' (durGroup E 'm' (durGroup E 'y' __x.snd).snd).snd).snd)
                      | [] => ([], (durGroup E 'd' (durGroup E 'm' (durGroup E 'y' __x.snd).snd).snd).snd)).fst),
                r')
          | x => none) =
        (match (match kw E ['p'] X with
            | none => none
            | some (p, r1) => some (sg ++ p ++ (durDate r1).1 ++ (durTime (durDate r1).2).1, (durTime (durDate r1).2).2)) with
          | none => none
          | some (B, r) => match r with
            | '\'' :: r' => some (B.map durUpper, r')
            | _ => none) := by
      intro sg X
      cases kw E ['p'] X with
      | none => rfl
      | some y =>
        obtain ⟨p1, p2⟩ := y
        simp only [Option.bind_some, durDate, durTime, List.append_assoc]
        rfl
    cases r0 with
    | nil => exact key [] []
    | cons c r =>
      by_cases h1 : c = '+'
      · subst h1; exact key _ _
      · by_cases h2 : c = '-'
        · subst h2; exact key _ _
        · have hs : durSign (c :: r) = ([], c :: r) := by
            unfold durSign
            split
            · rename_i heq; simp at heq; exact absurd heq.1 h1
            · rename_i heq; simp at heq; exact absurd heq.1 h2
            · rfl
          have := key [] (c :: r)
          simp only [durInner, hs]
          simp only [List.nil_append] at this
          split
          · rename_i heq; simp at heq; exact absurd heq.1 h1
          · rename_i heq; simp at heq; exact absurd heq.1 h2
          · exact this

theorem quote_digit : E.isDigit '\'' = false := by decide +kernel
theorem quote_ci : ∀ p ∈ ['p', 'y', 'm', 'd', 't', 'h', 's'], ciChar E p '\'' = false := by decide +kernel

theorem durGroup_q (l : Char) (hl : ciChar E l '\'' = false) (w s : Str) :
    durGroup E l (s ++ '\'' :: w) = ((durGroup E l s).1, (durGroup E l s).2 ++ '\'' :: w) := by
  unfold durGroup
  rw [span1_ext _ _ _ quote_digit]
  cases h : span1 E.isDigit s with
  | none => simp
  | some x =>
    obtain ⟨ds, r⟩ := x
    cases r with
    | nil => simp [hl]
    | cons c r => simp; split <;> simp

theorem durSeconds_q (w s : Str) :
    durSeconds E (s ++ '\'' :: w) = ((durSeconds E s).1, (durSeconds E s).2 ++ '\'' :: w) := by
  have hs : ciChar E 's' '\'' = false := quote_ci 's' (by decide)
  unfold durSeconds
  rw [span1_ext _ _ _ quote_digit]
  cases h : span1 E.isDigit s with
  | none => simp
  | some x =>
    obtain ⟨ds, r⟩ := x
    cases r with
    | nil => simp [hs]
    | cons c r =>
      by_cases hc : c = '.'
      · subst hc
        simp only [ext_some, List.cons_append]
        rw [span1_ext _ _ _ quote_digit]
        cases h2 : span1 E.isDigit r with
        | none => simp
        | some y =>
          obtain ⟨fs, r'⟩ := y
          cases r' with
          | nil => simp [hs]
          | cons c' r' => simp; split <;> simp
      · simp [hc]; split <;> simp

theorem durDate_q (w s : Str) : durDate (s ++ '\'' :: w) = ((durDate s).1, (durDate s).2 ++ '\'' :: w) := by
  simp only [durDate]
  rw [durGroup_q 'y' (quote_ci _ (by decide))]
  simp only []
  rw [durGroup_q 'm' (quote_ci _ (by decide))]
  simp only []
  rw [durGroup_q 'd' (quote_ci _ (by decide))]

theorem durTime_q (w s : Str) : durTime (s ++ '\'' :: w) = ((durTime s).1, (durTime s).2 ++ '\'' :: w) := by
  cases s with
  | nil => simp [durTime, quote_ci 't' (by decide)]
  | cons c t =>
    simp only [List.cons_append, durTime]
    split
    · rw [durGroup_q 'h' (quote_ci _ (by decide))]
      simp only []
      rw [durGroup_q 'm' (quote_ci _ (by decide))]
      simp only []
      rw [durSeconds_q]
    · simp

theorem durSign_q (w s : Str) : durSign (s ++ '\'' :: w) = ((durSign s).1, (durSign s).2 ++ '\'' :: w) := by
  cases s with
  | nil => rfl
  | cons c t =>
    by_cases h1 : c = '+'
    · subst h1; rfl
    · by_cases h2 : c = '-'
      · subst h2; rfl
      · have e : ∀ x : Str, durSign (c :: x) = ([], c :: x) := by
          intro x
          unfold durSign
          split
          · rename_i heq; simp at heq; exact absurd heq.1 h1
          · rename_i heq; simp at heq; exact absurd heq.1 h2
          · rfl
        rw [List.cons_append, e, e]; rfl

theorem durInner_q (w s : Str) : durInner (s ++ '\'' :: w) = ext (durInner s) ('\'' :: w) := by
  simp only [durInner, durSign_q]
  rw [kw_ext E '\'' w _ _ (by intro p hp; simp at hp; subst hp; exact quote_ci 'p' (by decide))]
  cases kw E ['p'] (durSign s).2 with
  | none => rfl
  | some x =>
    obtain ⟨p, r1⟩ := x
    simp only [ext_some, durDate_q, durTime_q, List.append_assoc]

/-! decompositions -/
theorem durGroup_decomp (l : Char) (cs : Str) : cs = (durGroup E l cs).1 ++ (durGroup E l cs).2 := by
  unfold durGroup
  split
  · rename_i ds c r heq
    obtain ⟨e, -⟩ := span1_inv heq
    split
    · simp [e]
    · rfl
  · rfl

theorem durSeconds_decomp (cs : Str) : cs = (durSeconds E cs).1 ++ (durSeconds E cs).2 := by
  unfold durSeconds
  split
  · rename_i ds r heq
    obtain ⟨e, -⟩ := span1_inv heq
    split
    · rename_i fs c r' heq2
      obtain ⟨e2, -⟩ := span1_inv heq2
      split
      · simp [e, e2]
      · rfl
    · rfl
  · rename_i ds c r heq
    obtain ⟨e, -⟩ := span1_inv heq
    split
    · simp [e]
    · rfl
  · rfl

theorem durDate_decomp (cs : Str) : cs = (durDate cs).1 ++ (durDate cs).2 := by
  simp only [durDate, List.append_assoc]
  rw [← durGroup_decomp, ← durGroup_decomp, ← durGroup_decomp]

theorem durTime_decomp (cs : Str) : cs = (durTime cs).1 ++ (durTime cs).2 := by
  unfold durTime
  split
  · split
    · simp only [List.append_assoc, List.cons_append]
      rw [← durSeconds_decomp, ← durGroup_decomp, ← durGroup_decomp]
    · rfl
  · rfl

theorem durSign_decomp (cs : Str) : cs = (durSign cs).1 ++ (durSign cs).2 := by
  unfold durSign
  split <;> rfl

theorem durInner_decomp {cs B r : Str} (h : durInner cs = some (B, r)) : cs = B ++ r := by
  simp only [durInner] at h
  cases hk : kw E ['p'] (durSign cs).2 with
  | none => rw [hk] at h; cases h
  | some x =>
    obtain ⟨p, r1⟩ := x
    rw [hk] at h
    simp only [Option.some.injEq, Prod.mk.injEq] at h
    obtain ⟨rfl, rfl⟩ := h
    obtain ⟨e, -⟩ := kw_ps _ _ _ _ hk
    conv => lhs; rw [durSign_decomp cs, e, durDate_decomp r1, durTime_decomp (durDate r1).2]
    simp

theorem kw_dur (x : Str) : kw E "duration'".toList ("duration'".toList ++ x) = some ("duration'".toList, x) :=
  LitLex.kw_self _ _ (by decide +kernel)

theorem durUpper_ascii (c : Char) (h : LexImage.isAscii c = true) : durUpper c = asciiUpper c := by
  have := LexImage.ascii_forall (fun c => durUpper c == asciiUpper c) (by decide +kernel) c h
  simpa using this

/-- the DURATION rule reads its own (upper-cased) value, re-wrapped, as that value -/
theorem scanDuration_trim {cs v r : Str} (ha : cs.all LexImage.isAscii = true) (h : scanDuration E cs = some (v, r)) :
    scanDuration E ("duration'".toList ++ v ++ ['\'']) = some (v, []) := by
  rw [scanDuration_eq] at h
  cases hk : kw E "duration'".toList cs with
  | none => rw [hk] at h; cases h
  | some x =>
    obtain ⟨m0, r0⟩ := x
    rw [hk] at h
    simp only at h
    cases hi : durInner r0 with
    | none => rw [hi] at h; cases h
    | some y =>
      obtain ⟨B, r1⟩ := y
      rw [hi] at h
      simp only at h
      split at h
      · rename_i r' 
        simp only [Option.some.injEq, Prod.mk.injEq] at h
        obtain ⟨rfl, rfl⟩ := h
        have hd := durInner_decomp hi
        obtain ⟨hcs, -⟩ := kw_ps _ _ _ _ hk
        -- the inner scanner reads `B` alone completely
        have h1 : durInner B = some (B, []) := by
          have := durInner_q r' B
          rw [← hd, hi] at this
          cases hB : durInner B with
          | none => rw [hB] at this; cases this
          | some z =>
            obtain ⟨B2, r2⟩ := z
            rw [hB] at this
            simp only [ext_some, Option.some.injEq, Prod.mk.injEq] at this
            obtain ⟨rfl, e⟩ := this
            have : r2 = [] := List.append_left_eq_self.1 e.symm
            rw [this]
        have h2 : durInner (B ++ ['\'']) = some (B, ['\'']) := by
          rw [durInner_q [] B, h1]; rfl
        -- ASCII: `durUpper` is `asciiUpper` on `B`
        have hBa : B.all LexImage.isAscii = true := by
          rw [hcs, hd] at ha
          simp only [List.all_append, Bool.and_eq_true] at ha
          exact ha.2.1
        have hup : B.map durUpper = B.map asciiUpper := by
          apply List.map_congr_left
          intro c hc
          exact durUpper_ascii c (List.all_eq_true.1 hBa c hc)
        -- scan the upper-cased inner text
        have h3 : scanDuration E ("duration'".toList ++ (B ++ ['\''])) = some (B.map durUpper, []) := by
          rw [scanDuration_eq, kw_dur]
          simp only [h2]
        have h4 := scanDuration_map caseMap_upper ("duration'".toList ++ (B ++ ['\'']))
        rw [h3] at h4
        simp only [mapRest_some, List.map_nil, List.map_append, List.map_cons] at h4
        have e1 : asciiUpper '\'' = '\'' := by decide
        rw [e1, ← hup] at h4
        -- … and the prefix in lower case is read the same way
        have hkU : kw E "duration'".toList ("duration'".toList.map asciiUpper ++ (B.map durUpper ++ ['\'']))
            = some ("duration'".toList.map asciiUpper, B.map durUpper ++ ['\'']) := by
          have := kw_map caseMap_upper "duration'".toList ("duration'".toList ++ (B.map durUpper ++ ['\''])) (by decide)
          rw [kw_dur] at this
          simp only [mapBoth_some, List.map_append, List.map_cons, List.map_nil, e1] at this
          have e2 : (B.map durUpper).map asciiUpper = B.map durUpper := by
            rw [hup, List.map_map]
            apply List.map_congr_left
            intro c hc
            simp only [Function.comp]
            exact (caseMap_upper.up c)
          rw [e2] at this
          exact this
        rw [scanDuration_eq, hkU] at h4
        rw [List.append_assoc, scanDuration_eq, kw_dur]
        exact h4
      · cases h

end OQ.AcceptedLex
