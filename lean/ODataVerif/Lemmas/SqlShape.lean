/- Lemmas/SqlShape.lean — helper lemmas for Props/C07Shape.lean. -/
import ODataVerif.Model.SqlPieces
namespace OQ.SqlShape
open Spec

/-! ### the skeleton relation, as an inductive predicate

`Skel e e'` is the propositional form of `C07.sameSkel e e' = true` (slightly weaker on the nodes the SQL
visitors reject outright: attribute paths, named parameters, collection lambdas). -/
mutual
inductive Skel : Expr → Expr → Prop
  | ident (i i') : Skel (.ident i) (.ident i')
  | attr (o n o' n') : Skel (.attr o n) (.attr o' n')
  | str (a b) : (likeEscape a != a) = (likeEscape b != b) → Skel (.lit .str a) (.lit .str b)
  | lit (k v) : Skel (.lit k v) (.lit k v)
  | list {xs ys} : SkelList xs ys → Skel (.list xs) (.list ys)
  | binop (o) {l l' r r'} : Skel l l' → Skel r r' → Skel (.binop o l r) (.binop o l' r')
  | compare (o) {l l' r r'} : Skel l l' → Skel r r' → Skel (.compare o l r) (.compare o l' r')
  | boolop (o) {l l' r r'} : Skel l l' → Skel r r' → Skel (.boolop o l r) (.boolop o l' r')
  | unary (o) {e e'} : Skel e e' → Skel (.unary o e) (.unary o e')
  | named (n e n' e') : Skel (.named n e) (.named n' e')
  | call (f) {a a'} : SkelList a a' → Skel (.call f a) (.call f a')
  | coll (o op l o' op' l') : Skel (.coll o op l) (.coll o' op' l')
inductive SkelList : Exprs → Exprs → Prop
  | nil : SkelList .nil .nil
  | cons {h h' t t'} : Skel h h' → SkelList t t' → SkelList (.cons h t) (.cons h' t')
end


/-! ### shapes -/
/-- erase what the filter chose (same function as `C07.shapeP`) -/
def shP : Piece → Piece
  | .tok t => .tok t.shape
  | .dq _ => .dq []
  | p => p

/-- piece lists of identical shape -/
abbrev SameSh (a b : List Piece) : Prop := a.map shP = b.map shP

@[simp] theorem shP_tok (t) : shP (.tok t) = .tok t.shape := rfl
@[simp] theorem shP_dq (s) : shP (.dq s) = .dq [] := rfl
@[simp] theorem shP_sq (s) : shP (.sq s) = .sq s := rfl
@[simp] theorem shP_raw (s) : shP (.raw s) = .raw s := rfl
@[simp] theorem shP_ws (s) : shP (.ws s) = .ws s := rfl
@[simp] theorem shP_w (s) : shP (w s) = w s := rfl
@[simp] theorem shP_o (s) : shP (o s) = o s := rfl
@[simp] theorem shP_sp : shP sp = sp := rfl
@[simp] theorem shP_lp : shP lp = lp := rfl
@[simp] theorem shP_rp : shP rp = rp := rfl
@[simp] theorem shP_comma : shP comma = comma := rfl
@[simp] theorem shape_str (s) : SqlTok.shape (.str s) = .str [] := rfl
@[simp] theorem shape_qid (s) : SqlTok.shape (.qid s) = .qid [] := rfl

theorem map_parenP (ps) : (parenP ps).map shP = parenP (ps.map shP) := by simp [parenP]

theorem same_parenP {a b} (h : SameSh a b) : SameSh (parenP a) (parenP b) := by
  simp only [SameSh, map_parenP, h]

theorem same_append {a b c d} (h1 : SameSh a b) (h2 : SameSh c d) : SameSh (a ++ c) (b ++ d) := by
  simp only [SameSh, List.map_append, h1, h2]

theorem same_cons (p) {a b} (h : SameSh a b) : SameSh (p :: a) (p :: b) := by
  simp only [SameSh, List.map_cons, h]

theorem same_refl (a) : SameSh a a := rfl

/-- lists of piece lists of identical shapes -/
abbrev SameShL (a b : List (List Piece)) : Prop := a.map (List.map shP) = b.map (List.map shP)

theorem same_joinComma : ∀ (xs ys : List (List Piece)), SameShL xs ys → SameSh (joinComma xs) (joinComma ys)
  | [], [], _ => rfl
  | [], _ :: _, h => by simp [SameShL] at h
  | _ :: _, [], h => by simp [SameShL] at h
  | [x], [y], h => by simpa [SameShL, joinComma] using h
  | [x], y :: z :: r, h => by simp [SameShL] at h
  | x :: z :: r, [y], h => by simp [SameShL] at h
  | x :: x2 :: r, y :: y2 :: r', h => by
      have h' : SameSh x y ∧ SameShL (x2 :: r) (y2 :: r') := by
        simp only [SameShL, List.map_cons, List.cons.injEq] at h ⊢
        exact ⟨h.1, h.2.1, h.2.2⟩
      have ih := same_joinComma (x2 :: r) (y2 :: r') h'.2
      simp only [joinComma]
      exact same_append h'.1 (same_cons _ (same_cons _ ih))

theorem same_getD {xs ys : List (List Piece)} (h : SameShL xs ys) (i : Nat) :
    SameSh (xs.getD i []) (ys.getD i []) := by
  have key : ∀ zs : List (List Piece), (zs.getD i []).map shP = (zs.map (List.map shP)).getD i [] := by
    intro zs
    simp only [List.getD_eq_getElem?_getD, List.getElem?_map]
    cases zs[i]? <;> simp
  simp only [SameSh, key, h]


/-! ### what the skeleton determines -/
theorem sqlPrec_skel {e e'} (h : Skel e e') : sqlPrec e = sqlPrec e' := by
  cases h <;> first | rfl | (rename_i o _ _ _ _ _ _; cases o <;> rfl) | (rename_i o _ _ _; cases o <;> rfl)

theorem isNullLit_skel {e e'} (h : Skel e e') : isNullLit e = isNullLit e' := by
  cases h <;> rfl

theorem isBoolOp_skel {e e'} (h : Skel e e') : isBoolOp e = isBoolOp e' := by
  cases h <;> rfl

theorem length_skel : ∀ (xs ys : Exprs), SkelList xs ys → xs.length = ys.length
  | .nil, _, h => by cases h; rfl
  | .cons a t, _, h => by
      cases h with
      | cons h1 h2 => simp only [Exprs.length, length_skel t _ h2]

mutual
theorem inferType_skel : ∀ (e e' : Expr), Skel e e' → inferType e = inferType e'
  | .ident _, _, h => by cases h; rfl
  | .attr _ _, _, h => by cases h; rfl
  | .lit _ _, _, h => by cases h <;> rfl
  | .list _, _, h => by cases h; simp only [inferType]
  | .binop _ _ _, _, h => by cases h; simp only [inferType]
  | .compare _ _ _, _, h => by cases h; simp only [inferType]
  | .boolop _ _ _, _, h => by cases h; simp only [inferType]
  | .unary _ _, _, h => by cases h; simp only [inferType]
  | .named _ _, _, h => by cases h; simp only [inferType]
  | .coll _ _ _, _, h => by cases h; simp only [inferType]
  | .call f a, _, h => by
      cases h with
      | call _ ha =>
        simp only [inferType]
        rw [inferFirst_skel a _ ha, inferFirst2_skel a _ ha]
theorem inferFirst_skel : ∀ (xs ys : Exprs), SkelList xs ys → inferFirst xs = inferFirst ys
  | .nil, _, h => by cases h; rfl
  | .cons a _, _, h => by
      cases h with
      | cons h1 h2 => simp only [inferFirst]; exact inferType_skel a _ h1
theorem inferFirst2_skel : ∀ (xs ys : Exprs), SkelList xs ys → inferFirst2 xs = inferFirst2 ys
  | .nil, _, h => by cases h; rfl
  | .cons a .nil, _, h => by
      cases h with
      | cons h1 h2 => cases h2; simp only [inferFirst2]; exact inferType_skel a _ h1
  | .cons a (.cons b _), _, h => by
      cases h with
      | cons h1 h2 =>
        cases h2 with
        | cons h3 h4 =>
          simp only [inferFirst2]
          rw [inferType_skel a _ h1, inferType_skel b _ h3]
end

theorem inferTypes_skel : ∀ (xs ys : Exprs), SkelList xs ys →
    xs.toList.map inferType = ys.toList.map inferType
  | .nil, _, h => by cases h; rfl
  | .cons a t, _, h => by
      cases h with
      | cons h1 h2 =>
        simp only [Exprs.toList, List.map_cons, inferType_skel a _ h1, inferTypes_skel t _ h2]

theorem skel_dummy : Skel dummyExpr dummyExpr := .lit _ _

theorem getD_skel : ∀ (xs ys : Exprs), SkelList xs ys → ∀ i,
    Skel (xs.toList.getD i dummyExpr) (ys.toList.getD i dummyExpr)
  | .nil, _, h, i => by cases h; simpa [Exprs.toList] using skel_dummy
  | .cons a t, _, h, i => by
      cases h with
      | cons h1 h2 =>
        cases i with
        | zero => simpa [Exprs.toList] using h1
        | succ j => simpa [Exprs.toList] using getD_skel t _ h2 j

/-! ### parenthesisation -/
theorem same_wrapOperand {e e'} (h : Skel e e') (p oe) {a b} (hs : SameSh a b) :
    SameSh (wrapOperand e p oe a) (wrapOperand e' p oe b) := by
  unfold wrapOperand
  rw [sqlPrec_skel h]
  split
  · exact same_parenP hs
  · exact hs

theorem same_boolWrapL {e e'} (h : Skel e e') (op) {a b} (hs : SameSh a b) :
    SameSh (boolWrapL op e a) (boolWrapL op e' b) := by
  unfold boolWrapL
  rw [isBoolOp_skel h]
  split
  · split
    · exact same_parenP hs
    · exact hs
  · exact hs

theorem same_boolWrapR {e e'} (h : Skel e e') {a b} (hs : SameSh a b) :
    SameSh (boolWrapR e a) (boolWrapR e' b) := by
  unfold boolWrapR
  rw [isBoolOp_skel h]
  split
  · exact same_parenP hs
  · exact hs

theorem cmpPieces_skel {e e'} (h : Skel e e') (op) : cmpPieces op e = cmpPieces op e' := by
  unfold cmpPieces
  rw [isNullLit_skel h]


/-! ### LIKE patterns and templates -/
/-- the expression branch of `_to_pattern` -/
def patExpr (arg : Expr) (argPs : List Piece) (pre suf : Str) : List Piece :=
  let res := wrapOperand arg 5 true argPs
  let res := if pre.isEmpty then res else .tok (.str pre) :: sp :: o "||" :: sp :: res
  if suf.isEmpty then res else res ++ [sp, o "||", sp, .tok (.str suf)]

theorem same_patExpr {e e'} (h : Skel e e') {a b} (hs : SameSh a b) (pre suf) :
    SameSh (patExpr e a pre suf) (patExpr e' b pre suf) := by
  have hw := same_wrapOperand h 5 true hs
  unfold patExpr
  dsimp only
  split <;> split <;>
    first
    | exact hw
    | exact same_append hw (same_refl _)
    | exact same_cons _ (same_cons _ (same_cons _ (same_cons _ hw)))
    | exact same_append (same_cons _ (same_cons _ (same_cons _ (same_cons _ hw)))) (same_refl _)

theorem sqlPattern_nonstr (arg ps pre suf) (h : ∀ r, arg ≠ .lit .str r) :
    sqlPattern arg ps pre suf = patExpr arg ps pre suf := by
  unfold sqlPattern
  split
  · exact absurd rfl (h _)
  · rfl

theorem same_sqlPattern {e e'} (h : Skel e e') {a b} (hs : SameSh a b) (pre suf) :
    SameSh (sqlPattern e a pre suf) (sqlPattern e' b pre suf) := by
  cases h with
  | str x y hw =>
    simp only [sqlPattern]
    rw [hw]
    split <;> simp [SameSh]
  | lit k v =>
    by_cases hk : k = .str
    · subst hk; simp only [sqlPattern, SameSh]
    · have hn : ∀ r, Expr.lit k v ≠ .lit .str r := by
        intro r hr; injection hr with h1 h2; exact hk h1
      rw [sqlPattern_nonstr _ _ _ _ hn, sqlPattern_nonstr _ _ _ _ hn]
      exact same_patExpr (.lit k v) hs pre suf
  | ident i i' =>
    rw [sqlPattern_nonstr _ _ _ _ (by intro r hr; cases hr), sqlPattern_nonstr _ _ _ _ (by intro r hr; cases hr)]
    exact same_patExpr (.ident i i') hs pre suf
  | attr x1 x2 x3 x4 =>
    rw [sqlPattern_nonstr _ _ _ _ (by intro r hr; cases hr), sqlPattern_nonstr _ _ _ _ (by intro r hr; cases hr)]
    exact same_patExpr (.attr x1 x2 x3 x4) hs pre suf
  | list h1 =>
    rw [sqlPattern_nonstr _ _ _ _ (by intro r hr; cases hr), sqlPattern_nonstr _ _ _ _ (by intro r hr; cases hr)]
    exact same_patExpr (.list h1) hs pre suf
  | binop op h1 h2 =>
    rw [sqlPattern_nonstr _ _ _ _ (by intro r hr; cases hr), sqlPattern_nonstr _ _ _ _ (by intro r hr; cases hr)]
    exact same_patExpr (.binop op h1 h2) hs pre suf
  | compare op h1 h2 =>
    rw [sqlPattern_nonstr _ _ _ _ (by intro r hr; cases hr), sqlPattern_nonstr _ _ _ _ (by intro r hr; cases hr)]
    exact same_patExpr (.compare op h1 h2) hs pre suf
  | boolop op h1 h2 =>
    rw [sqlPattern_nonstr _ _ _ _ (by intro r hr; cases hr), sqlPattern_nonstr _ _ _ _ (by intro r hr; cases hr)]
    exact same_patExpr (.boolop op h1 h2) hs pre suf
  | unary op h1 =>
    rw [sqlPattern_nonstr _ _ _ _ (by intro r hr; cases hr), sqlPattern_nonstr _ _ _ _ (by intro r hr; cases hr)]
    exact same_patExpr (.unary op h1) hs pre suf
  | named x1 x2 x3 x4 =>
    rw [sqlPattern_nonstr _ _ _ _ (by intro r hr; cases hr), sqlPattern_nonstr _ _ _ _ (by intro r hr; cases hr)]
    exact same_patExpr (.named x1 x2 x3 x4) hs pre suf
  | call f h1 =>
    rw [sqlPattern_nonstr _ _ _ _ (by intro r hr; cases hr), sqlPattern_nonstr _ _ _ _ (by intro r hr; cases hr)]
    exact same_patExpr (.call f h1) hs pre suf
  | coll x1 x2 x3 x4 x5 x6 =>
    rw [sqlPattern_nonstr _ _ _ _ (by intro r hr; cases hr), sqlPattern_nonstr _ _ _ _ (by intro r hr; cases hr)]
    exact same_patExpr (.coll x1 x2 x3 x4 x5 x6) hs pre suf

theorem same_instItem {xs ys : Exprs} (ha : SkelList xs ys) {is js : List (List Piece)} (hi : SameShL is js)
    (it : TItem) : SameSh (instItem xs.toList is it) (instItem ys.toList js it) := by
  cases it with
  | p x => exact same_refl _
  | arg i => exact same_getD hi i
  | argW i pr oe => exact same_wrapOperand (getD_skel _ _ ha i) pr oe (same_getD hi i)
  | pat i pre suf => exact same_sqlPattern (getD_skel _ _ ha i) (same_getD hi i) pre suf

theorem same_instantiate {xs ys : Exprs} (ha : SkelList xs ys) {is js : List (List Piece)} (hi : SameShL is js) :
    ∀ tpl : List TItem, SameSh (instantiate tpl xs.toList is) (instantiate tpl ys.toList js)
  | [] => rfl
  | it :: rest => by
      have ih := same_instantiate ha hi rest
      simp only [instantiate, List.flatMap_cons] at ih ⊢
      exact same_append (same_instItem ha hi it) ih

/-! ### leaves -/
theorem same_identPieces (d al n n') : SameSh (identPieces d al n) (identPieces d al n') := by
  unfold identPieces
  cases al with
  | none => simp [SameSh]
  | some a => dsimp only; split <;> simp [SameSh]


/-! ### outcomes related component-wise -/
def OEq {α} (R : α → α → Prop) : Outcome α → Outcome α → Prop
  | .ok a, .ok b => R a b
  | .lib e, .lib e' => e = e'
  | .notImplemented, .notImplemented => True
  | .foreign c, .foreign c' => c = c'
  | _, _ => False

theorem OEq.refl {α} {R : α → α → Prop} (hR : ∀ a, R a a) (x : Outcome α) : OEq R x x := by
  cases x <;> simp [OEq, hR]

theorem OEq.bind {α β} {R : α → α → Prop} {S : β → β → Prop} {x x' : Outcome α} {f f' : α → Outcome β}
    (hx : OEq R x x') (hf : ∀ a a', R a a' → OEq S (f a) (f' a')) : OEq S (x >>= f) (x' >>= f') := by
  cases x <;> cases x' <;> simp only [OEq] at hx <;>
    first
    | exact hf _ _ hx
    | exact hx
    | trivial

theorem OEq.pure {β} {S : β → β → Prop} {a a' : β} (h : S a a') :
    OEq S (Pure.pure a : Outcome β) (Pure.pure a') := h


/-! ### the main induction -/
section
variable (isD : Char → Bool) (d : Dialect) (al : Option Str)

mutual
theorem skel_visit : (e e' : Expr) → Skel e e' →
    OEq SameSh (sqlVisit isD d al e) (sqlVisit isD d al e')
  | .ident i, _, h => by
      cases h
      rw [sqlVisit, sqlVisit]
      exact same_identPieces _ _ _ _
  | .attr _ _, _, h => by cases h; rw [sqlVisit, sqlVisit]; exact rfl
  | .named _ _, _, h => by cases h; rw [sqlVisit, sqlVisit]; exact rfl
  | .coll _ _ _, _, h => by cases h; rw [sqlVisit, sqlVisit]; exact rfl
  | .lit k v, _, h => by
      cases h with
      | str a b hw => rw [sqlVisit, sqlVisit]; simp [litPieces, OEq, SameSh]
      | lit => exact OEq.refl same_refl _
  | .list xs, _, h => by
      cases h with
      | list hx =>
        rw [sqlVisit, sqlVisit]
        exact OEq.bind (skel_visitList xs _ hx) (fun a a' ha => OEq.pure (same_parenP (same_joinComma _ _ ha)))
  | .binop op l r, _, h => by
      cases h with
      | binop _ hl hr =>
        rw [sqlVisit, sqlVisit]
        refine OEq.bind (skel_visit l _ hl) (fun a a' ha => OEq.bind (skel_visit r _ hr) (fun b b' hb => OEq.pure ?_))
        rw [sqlPrec_skel (.binop op hl hr)]
        exact same_append (same_wrapOperand hl _ _ ha)
          (same_cons _ (same_cons _ (same_cons _ (same_wrapOperand hr _ _ hb))))
  | .compare op l r, _, h => by
      cases h with
      | compare _ hl hr =>
        rw [sqlVisit, sqlVisit]
        refine OEq.bind (skel_visit l _ hl) (fun a a' ha => OEq.bind (skel_visit r _ hr) (fun b b' hb => ?_))
        rw [isNullLit_skel hl]
        split
        · refine OEq.pure ?_
          rw [cmpPieces_skel hl]
          exact same_append (same_append (same_wrapOperand hr _ _ hb) (same_refl _))
            (same_cons _ (same_wrapOperand hl _ _ ha))
        · refine OEq.pure ?_
          rw [cmpPieces_skel hr]
          exact same_append (same_append (same_wrapOperand hl _ _ ha) (same_refl _))
            (same_cons _ (same_wrapOperand hr _ _ hb))
  | .boolop op l r, _, h => by
      cases h with
      | boolop _ hl hr =>
        rw [sqlVisit, sqlVisit]
        refine OEq.bind (skel_visit l _ hl) (fun a a' ha => OEq.bind (skel_visit r _ hr) (fun b b' hb => OEq.pure ?_))
        exact same_append (same_boolWrapL hl _ ha)
          (same_cons _ (same_cons _ (same_cons _ (same_boolWrapR hr hb))))
  | .unary op e, _, h => by
      cases h with
      | unary _ he =>
        rw [sqlVisit, sqlVisit]
        refine OEq.bind (skel_visit e _ he) (fun a a' ha => OEq.pure ?_)
        rw [sqlPrec_skel (.unary op he)]
        exact same_cons _ (same_cons _ (same_wrapOperand he _ _ ha))
  | .call f args, _, h => by
      cases h with
      | call _ hargs =>
        rw [sqlVisit, sqlVisit]
        rw [← length_skel _ _ hargs, ← inferTypes_skel _ _ hargs]
        split
        · exact rfl
        · split
          · exact OEq.refl same_refl _
          · refine OEq.bind (skel_visitList args _ hargs) (fun is js hi => ?_)
            refine OEq.bind (OEq.refl (R := Eq) (fun _ => rfl) _) (fun t t' ht => ?_)
            subst ht
            exact OEq.pure (same_instantiate hargs hi t)
theorem skel_visitList : (xs ys : Exprs) → SkelList xs ys →
    OEq SameShL (sqlVisitList isD d al xs) (sqlVisitList isD d al ys)
  | .nil, _, h => by cases h; rw [sqlVisitList]; exact rfl
  | .cons a t, _, h => by
      cases h with
      | cons h1 h2 =>
        rw [sqlVisitList, sqlVisitList]
        refine OEq.bind (skel_visit a _ h1) (fun x x' hx => OEq.bind (skel_visitList t _ h2) (fun y y' hy => OEq.pure ?_))
        simp only [SameShL, List.map_cons, List.cons.injEq]
        exact ⟨hx, hy⟩
end
end


/-! ### from piece shapes to token shapes -/
theorem toks_shP (p : Piece) : (shP p).toks.map SqlTok.shape = p.toks.map SqlTok.shape := by
  cases p with
  | tok t => cases t <;> rfl
  | _ => rfl

theorem pieceToks_shP : ∀ ps : List Piece,
    (pieceToks (ps.map shP)).map SqlTok.shape = (pieceToks ps).map SqlTok.shape
  | [] => rfl
  | p :: r => by
      simp only [List.map_cons, pieceToks, List.map_append, toks_shP, pieceToks_shP r]

/-- the token shapes depend only on the piece shapes -/
theorem pieceToks_shape_congr {ps ps' : List Piece} (h : SameSh ps ps') :
    (pieceToks ps).map SqlTok.shape = (pieceToks ps').map SqlTok.shape := by
  rw [← pieceToks_shP ps, ← pieceToks_shP ps', h]

end OQ.SqlShape
