/-
  Lemmas/TypedShape.lean — shape facts about the image of the typed grammar (Spec/ODataSem.lean) in the parser's
  AST, used by Props/C01.lean: the printers' side condition `sqlSafe`, inferred types, and totality of the SQLite
  visitor on that image.
-/
import ODataVerif.Spec.ODataElab
import ODataVerif.Spec.SqlMirror
import ODataVerif.Model.SqlPieces
namespace OQ.TypedShape
open OQ OQ.Spec

/-- the inferred type of a string term is unknown or `String` -/
def StrTy (e : Expr) : Prop := inferType e = none ∨ inferType e = some (.lit .str)

structure StrShape (d : Dialect) (e : Expr) : Prop where
  safe : sqlSafe d e = true
  prec : 5 ≤ sqlPrec e
  notArith : isArithE e = false
  notMul : isMulE e = false
  ty : StrTy e

structure IntShape (d : Dialect) (e : Expr) : Prop where
  safe : sqlSafe d e = true
  prec : 5 ≤ sqlPrec e
  notConcat : isConcatE e = false

theorem StrTy.notList {e} (h : StrTy e) : isListTy (inferType e) = false := by
  rcases h with h | h <;> rw [h] <;> rfl

variable (d : Dialect)

theorem str_lit (s : Str) : StrShape d (.lit .str s) :=
  ⟨by simp [sqlSafe], by simp [sqlPrec], rfl, rfl, .inr (by simp [inferType])⟩
theorem str_col (c : Str) : StrShape d (idE c) :=
  ⟨by simp [idE, sqlSafe], by simp [idE, sqlPrec], rfl, rfl, .inl (by simp [idE, inferType])⟩

theorem rr_concat : inferReturnRule (String.ofList (Ident.fullName ⟨"concat".toList, []⟩)) = .arg0or1 := by decide
theorem rr_substring : inferReturnRule (String.ofList (Ident.fullName ⟨"substring".toList, []⟩)) = .arg0 := by decide
theorem rr_tolower : inferReturnRule (String.ofList (Ident.fullName ⟨"tolower".toList, []⟩)) = .fixed (.lit .str) := by decide
theorem rr_toupper : inferReturnRule (String.ofList (Ident.fullName ⟨"toupper".toList, []⟩)) = .fixed (.lit .str) := by decide
theorem rr_trim : inferReturnRule (String.ofList (Ident.fullName ⟨"trim".toList, []⟩)) = .fixed (.lit .str) := by decide

theorem prec_call (n : Str) (x : Exprs) : sqlPrec (.call ⟨n, []⟩ x) = funcPrec (pyLower n) := rfl

theorem str_concat {a b : Expr} (ha : StrShape d a) (hb : StrShape d b) :
    StrShape d (.call ⟨"concat".toList, []⟩ (.cons a (.cons b .nil))) := by
  refine ⟨?_, by rw [prec_call]; decide, ?_, rfl, ?_⟩
  · simp [sqlSafe, sqlSafeList, ha.safe, hb.safe, ha.notArith, hb.notMul]
  · simp [isArithE, isBinopE, isBuiltin]
  · unfold StrTy
    rw [inferType, rr_concat]; simp only [inferFirst2]
    rcases ha.ty with h | h <;> rw [h]
    · exact hb.ty
    · exact .inr rfl

theorem str_substring {s i : Expr} (hs : StrShape d s) (hi : IntShape d i) :
    StrShape d (.call ⟨"substring".toList, []⟩ (.cons s (.cons i .nil))) := by
  refine ⟨?_, by rw [prec_call]; decide, ?_, rfl, ?_⟩
  · simp [sqlSafe, sqlSafeList, hs.safe, hi.safe, hs.ty.notList, hi.prec, hi.notConcat, hs.prec]
  · simp [isArithE, isBinopE, isBuiltin]
  · unfold StrTy
    rw [inferType, rr_substring]; simp only [inferFirst]
    exact hs.ty

theorem str_substring3 {s i n : Expr} (hs : StrShape d s) (hi : IntShape d i) (hn : IntShape d n) :
    StrShape d (.call ⟨"substring".toList, []⟩ (.cons s (.cons i (.cons n .nil)))) := by
  refine ⟨?_, by rw [prec_call]; decide, ?_, rfl, ?_⟩
  · simp [sqlSafe, sqlSafeList, hs.safe, hi.safe, hn.safe, hs.ty.notList, hi.prec, hi.notConcat, hs.prec, hn.prec]
  · simp [isArithE, isBinopE, isBuiltin]
  · unfold StrTy
    rw [inferType, rr_substring]; simp only [inferFirst]
    exact hs.ty



theorem str_tolower {s : Expr} (hs : StrShape d s) : StrShape d (.call ⟨"tolower".toList, []⟩ (.cons s .nil)) := by
  refine ⟨?_, by rw [prec_call]; decide, ?_, rfl, ?_⟩
  · simp [sqlSafe, sqlSafeList, hs.safe]
  · simp [isArithE, isBinopE, isBuiltin]
  · unfold StrTy
    rw [inferType, rr_tolower]; exact .inr rfl
theorem str_toupper {s : Expr} (hs : StrShape d s) : StrShape d (.call ⟨"toupper".toList, []⟩ (.cons s .nil)) := by
  refine ⟨?_, by rw [prec_call]; decide, ?_, rfl, ?_⟩
  · simp [sqlSafe, sqlSafeList, hs.safe]
  · simp [isArithE, isBinopE, isBuiltin]
  · unfold StrTy
    rw [inferType, rr_toupper]; exact .inr rfl
theorem str_trim {s : Expr} (hs : StrShape d s) : StrShape d (.call ⟨"trim".toList, []⟩ (.cons s .nil)) := by
  refine ⟨?_, by rw [prec_call]; decide, ?_, rfl, ?_⟩
  · simp [sqlSafe, sqlSafeList, hs.safe]
  · simp [isArithE, isBinopE, isBuiltin]
  · unfold StrTy
    rw [inferType, rr_trim]; exact .inr rfl

theorem int_lit (v : Str) : IntShape d (.lit .int v) :=
  ⟨by simp [sqlSafe], by simp [sqlPrec], rfl⟩
theorem int_col (c : Str) : IntShape d (idE c) :=
  ⟨by simp [idE, sqlSafe], by simp [idE, sqlPrec], rfl⟩
theorem int_neg {e : Expr} (he : IntShape d e) : IntShape d (.unary .neg e) :=
  ⟨by simp [sqlSafe, he.safe], by simp [sqlPrec], rfl⟩
theorem int_arith (k : ArK) {l r : Expr} (hl : IntShape d l) (hr : IntShape d r) : IntShape d (.binop k.toOp l r) :=
  ⟨by simp [sqlSafe, hl.safe, hr.safe, hl.notConcat], by cases k <;> simp [ArK.toOp, sqlPrec], rfl⟩
theorem int_length {s : Expr} (hs : StrShape d s) : IntShape d (.call ⟨"length".toList, []⟩ (.cons s .nil)) := by
  refine ⟨?_, by rw [prec_call]; decide, ?_⟩
  · simp [sqlSafe, sqlSafeList, hs.safe]
  · simp [isConcatE, isBuiltin]
theorem int_indexof {a b : Expr} (ha : StrShape d a) (hb : StrShape d b) :
    IntShape d (.call ⟨"indexof".toList, []⟩ (.cons a (.cons b .nil))) := by
  refine ⟨?_, by rw [prec_call]; decide, ?_⟩
  · simp [sqlSafe, sqlSafeList, ha.safe, hb.safe, ha.prec, hb.prec]
  · simp [isConcatE, isBuiltin]

mutual
theorem intShape : (e : IntE) → IntShape d e.toExpr
  | .lit _ _ => by rw [IntE.toExpr]; exact int_lit d _
  | .col c => by rw [IntE.toExpr]; exact int_col d c
  | .neg e => by rw [IntE.toExpr]; exact int_neg d (intShape e)
  | .arith k l r => by rw [IntE.toExpr]; exact int_arith d k (intShape l) (intShape r)
  | .length s => by rw [IntE.toExpr]; exact int_length d (strShape s)
  | .indexof a b => by rw [IntE.toExpr]; exact int_indexof d (strShape a) (strShape b)
theorem strShape : (s : StrE) → StrShape d s.toExpr
  | .lit s => by rw [StrE.toExpr]; exact str_lit d s
  | .col c => by rw [StrE.toExpr]; exact str_col d c
  | .concat a b => by rw [StrE.toExpr]; exact str_concat d (strShape a) (strShape b)
  | .substring s i => by rw [StrE.toExpr]; exact str_substring d (strShape s) (intShape i)
  | .substring3 s i n => by rw [StrE.toExpr]; exact str_substring3 d (strShape s) (intShape i) (intShape n)
  | .tolower s => by rw [StrE.toExpr]; exact str_tolower d (strShape s)
  | .toupper s => by rw [StrE.toExpr]; exact str_toupper d (strShape s)
  | .trim s => by rw [StrE.toExpr]; exact str_trim d (strShape s)
end

theorem ints_safe : (xs : List IntE) → sqlSafeList d (intsToExprs xs) = true
  | [] => by simp [intsToExprs, sqlSafeList]
  | e :: t => by simp [intsToExprs, sqlSafeList, (intShape d e).safe, ints_safe t]
theorem strs_safe : (xs : List StrE) → sqlSafeList d (strsToExprs xs) = true
  | [] => by simp [strsToExprs, sqlSafeList]
  | e :: t => by simp [strsToExprs, sqlSafeList, (strShape d e).safe, strs_safe t]

theorem like_safe (k : LikeK) {a b : Expr} (ha : StrShape d a) (hb : StrShape d b) :
    sqlSafe d (.call ⟨k.name.toList, []⟩ (.cons a (.cons b .nil))) = true := by
  cases k <;> simp [LikeK.name, sqlSafe, sqlSafeList, ha.safe, hb.safe, ha.prec, hb.notMul]

theorem bool_safe : (b : BoolE) → sqlSafe d b.toExpr = true
  | .cmpI _ l r => by simp [BoolE.toExpr, sqlSafe, (intShape d l).safe, (intShape d r).safe]
  | .cmpS _ l r => by simp [BoolE.toExpr, sqlSafe, (strShape d l).safe, (strShape d r).safe]
  | .cmpB _ l r => by simp [BoolE.toExpr, sqlSafe, bool_safe l, bool_safe r]
  | .isNull _ c n => by simp [BoolE.toExpr, sqlSafe, idE]
  | .inI e xs => by simp [BoolE.toExpr, sqlSafe, (intShape d e).safe, ints_safe d xs]
  | .inS e xs => by simp [BoolE.toExpr, sqlSafe, (strShape d e).safe, strs_safe d xs]
  | .and l r => by simp [BoolE.toExpr, sqlSafe, bool_safe l, bool_safe r]
  | .or l r => by simp [BoolE.toExpr, sqlSafe, bool_safe l, bool_safe r]
  | .not e => by simp [BoolE.toExpr, sqlSafe, bool_safe e]
  | .like k a b => by rw [BoolE.toExpr]; exact like_safe d k (strShape d a) (strShape d b)
  | .col c => by simp [BoolE.toExpr, sqlSafe, idE]
  | .lit b => by simp [BoolE.toExpr, sqlSafe]

/-! ### literal shapes (`litOk`) -/
theorem takeWhile_all {α} (p : α → Bool) : (l : List α) → l.all p = true → l.takeWhile p = l
  | [], _ => rfl
  | a :: t, h => by
      simp only [List.all_cons, Bool.and_eq_true] at h
      simp [h.1, takeWhile_all p t h.2]

theorem isNumBody_digits {ds : Str} (h : asciiDigits ds = true) : isNumBody ds = true := by
  unfold asciiDigits at h
  simp only [Bool.and_eq_true] at h
  have htw : ds.takeWhile isDig = ds := takeWhile_all _ _ h.2
  unfold isNumBody
  simp only [htw, List.drop_length, h.1]
  rfl

theorem isNumText_digits {ds : Str} (h : asciiDigits ds = true) : isNumText ds = true := by
  have hb := isNumBody_digits h
  unfold isNumText
  split
  · simp [asciiDigits, isDig] at h
  · simp [asciiDigits, isDig] at h
  · exact hb

theorem isNumText_neg {ds : Str} (h : asciiDigits ds = true) : isNumText ('-' :: ds) = true := by
  unfold isNumText; exact isNumBody_digits h

theorem boolText_true : boolText "true".toList = true := by decide
theorem boolText_false : boolText "false".toList = true := by decide

theorem athenaClean_noquote (c : Str) : '"' ∉ athenaClean c := by
  unfold athenaClean
  rw [List.mem_flatMap]
  rintro ⟨x, _, hx⟩
  dsimp only at hx
  split at hx
  · simp at hx
  · split at hx
    · rename_i hw
      simp only [List.mem_singleton] at hx
      rw [← hx] at hw
      exact absurd hw (by decide)
    · simp at hx

theorem nameOk_of (d : Dialect) {c : Str} (h : (!c.contains '"') = true) : nameOk d c = true := by
  unfold nameOk
  split
  · simpa using athenaClean_noquote c
  · exact h

/-! ### the SQLite visitor is total on the typed grammar -/
section
variable (isD : Char → Bool) (al : Option Str)

/-- the SQLite visitor accepts the tree -/
def Vis (e : Expr) : Prop := ∃ ps, sqlVisit isD .sqlite al e = .ok ps
def VisL (xs : Exprs) : Prop := ∃ items, sqlVisitList isD .sqlite al xs = .ok items

theorem visL_nil : VisL isD al .nil := ⟨_, by rw [sqlVisitList]⟩
theorem visL_cons {h : Expr} {t : Exprs} (hh : Vis isD al h) (ht : VisL isD al t) : VisL isD al (.cons h t) := by
  obtain ⟨a, ha⟩ := hh
  obtain ⟨b, hb⟩ := ht
  rw [VisL, sqlVisitList, ha, hb]; exact ⟨_, rfl⟩

theorem vis_lit_int (v : Str) : Vis isD al (.lit .int v) := by rw [Vis, sqlVisit]; exact ⟨_, rfl⟩
theorem vis_lit_str (v : Str) : Vis isD al (.lit .str v) := by rw [Vis, sqlVisit]; exact ⟨_, rfl⟩
theorem vis_lit_bool (v : Str) : Vis isD al (.lit .bool v) := by rw [Vis, sqlVisit]; exact ⟨_, rfl⟩
theorem vis_lit_null (v : Str) : Vis isD al (.lit .null v) := by rw [Vis, sqlVisit]; exact ⟨_, rfl⟩
theorem vis_id (c : Str) : Vis isD al (idE c) := by rw [Vis, idE, sqlVisit]; exact ⟨_, rfl⟩
theorem vis_list {xs : Exprs} (h : VisL isD al xs) : Vis isD al (.list xs) := by
  obtain ⟨a, ha⟩ := h
  rw [Vis, sqlVisit, ha]; exact ⟨_, rfl⟩
theorem vis_unary (op : UnOp) {e : Expr} (h : Vis isD al e) : Vis isD al (.unary op e) := by
  obtain ⟨a, ha⟩ := h
  rw [Vis, sqlVisit, ha]; exact ⟨_, rfl⟩
theorem vis_binop (op : ArithOp) {l r : Expr} (hl : Vis isD al l) (hr : Vis isD al r) : Vis isD al (.binop op l r) := by
  obtain ⟨a, ha⟩ := hl
  obtain ⟨b, hb⟩ := hr
  rw [Vis, sqlVisit, ha, hb]; exact ⟨_, rfl⟩
theorem vis_compare (op : CmpOp) {l r : Expr} (hl : Vis isD al l) (hr : Vis isD al r) : Vis isD al (.compare op l r) := by
  obtain ⟨a, ha⟩ := hl
  obtain ⟨b, hb⟩ := hr
  rw [Vis, sqlVisit, ha, hb]
  by_cases hc : (isNullLit l && (op == CmpOp.eq || op == CmpOp.ne)) = true
  · exact ⟨_, by simp only [Outcome.bind_ok, if_pos hc]; rfl⟩
  · exact ⟨_, by simp only [Outcome.bind_ok, if_neg hc]; rfl⟩
theorem vis_boolop (op : BoolOp) {l r : Expr} (hl : Vis isD al l) (hr : Vis isD al r) : Vis isD al (.boolop op l r) := by
  obtain ⟨a, ha⟩ := hl
  obtain ⟨b, hb⟩ := hr
  rw [Vis, sqlVisit, ha, hb]; exact ⟨_, rfl⟩

theorem vis_call (name : Str) (key : String) (n : Nat) (args : Exprs)
    (hk : String.ofList (pyLower (funcKey ⟨name, []⟩)) = key)
    (hh : sqlHandlers.contains key = true)
    (hn : args.length = n)
    (hp : preCheck .sqlite key n = none)
    (hl : VisL isD al args)
    (hs : ∃ tpl, selectTpl .sqlite key (args.toList.map inferType) = .ok tpl) :
    Vis isD al (.call ⟨name, []⟩ args) := by
  obtain ⟨items, hi⟩ := hl
  obtain ⟨tpl, ht⟩ := hs
  rw [Vis, sqlVisit]
  simp only [hk, hh, hn, hp, hi, ht]
  exact ⟨_, rfl⟩

theorem overload_str {a b : Expr} (ha : StrTy a) (hb : StrTy b) : overloadOf [inferType a, inferType b] = .str := by
  rcases ha with h | h <;> rcases hb with h' | h' <;> rw [h, h'] <;> decide

theorem vis_concat {a b : Expr} (ha : Vis isD al a) (hb : Vis isD al b) :
    Vis isD al (.call ⟨"concat".toList, []⟩ (.cons a (.cons b .nil))) :=
  vis_call isD al _ "concat" 2 _ (by decide) (by decide) rfl (by decide) (visL_cons isD al ha (visL_cons isD al hb (visL_nil isD al)))
    ⟨_, rfl⟩

theorem vis_un (name : Str) (key : String) {a : Expr}
    (hk : String.ofList (pyLower (funcKey ⟨name, []⟩)) = key) (hh : sqlHandlers.contains key = true)
    (hp : preCheck .sqlite key 1 = none) (hs : ∀ t, ∃ tpl, selectTpl .sqlite key [t] = .ok tpl)
    (ha : Vis isD al a) : Vis isD al (.call ⟨name, []⟩ (.cons a .nil)) :=
  vis_call isD al _ key 1 _ hk hh rfl hp (visL_cons isD al ha (visL_nil isD al)) (hs _)

theorem vis_tolower {a : Expr} (ha : Vis isD al a) : Vis isD al (.call ⟨"tolower".toList, []⟩ (.cons a .nil)) :=
  vis_un isD al _ "tolower" (by decide) (by decide) (by decide) (fun _ => ⟨_, rfl⟩) ha
theorem vis_toupper {a : Expr} (ha : Vis isD al a) : Vis isD al (.call ⟨"toupper".toList, []⟩ (.cons a .nil)) :=
  vis_un isD al _ "toupper" (by decide) (by decide) (by decide) (fun _ => ⟨_, rfl⟩) ha
theorem vis_trim {a : Expr} (ha : Vis isD al a) : Vis isD al (.call ⟨"trim".toList, []⟩ (.cons a .nil)) :=
  vis_un isD al _ "trim" (by decide) (by decide) (by decide) (fun _ => ⟨_, rfl⟩) ha
theorem vis_length {a : Expr} (ha : Vis isD al a) : Vis isD al (.call ⟨"length".toList, []⟩ (.cons a .nil)) :=
  vis_un isD al _ "length" (by decide) (by decide) (by decide) (fun _ => ⟨_, rfl⟩) ha

theorem vis_indexof {a b : Expr} (ha : Vis isD al a) (hb : Vis isD al b) (ta : StrTy a) (tb : StrTy b) :
    Vis isD al (.call ⟨"indexof".toList, []⟩ (.cons a (.cons b .nil))) :=
  vis_call isD al _ "indexof" 2 _ (by decide) (by decide) rfl (by decide) (visL_cons isD al ha (visL_cons isD al hb (visL_nil isD al)))
    (by
      show ∃ tpl, selectTpl .sqlite "indexof" [inferType a, inferType b] = .ok tpl
      simp only [selectTpl, overload_str ta tb]; exact ⟨_, rfl⟩)

theorem vis_like (k : LikeK) {a b : Expr} (ha : Vis isD al a) (hb : Vis isD al b) (ta : StrTy a) (tb : StrTy b) :
    Vis isD al (.call ⟨k.name.toList, []⟩ (.cons a (.cons b .nil))) := by
  have hl := visL_cons isD al ha (visL_cons isD al hb (visL_nil isD al))
  cases k
  · exact vis_call isD al _ "contains" 2 _ (by decide) (by decide) rfl (by decide) hl
      (by show ∃ tpl, selectTpl .sqlite "contains" [inferType a, inferType b] = .ok tpl
          simp only [selectTpl, likeTpl, overload_str ta tb]; exact ⟨_, rfl⟩)
  · exact vis_call isD al _ "startswith" 2 _ (by decide) (by decide) rfl (by decide) hl
      (by show ∃ tpl, selectTpl .sqlite "startswith" [inferType a, inferType b] = .ok tpl
          simp only [selectTpl, likeTpl, overload_str ta tb]; exact ⟨_, rfl⟩)
  · exact vis_call isD al _ "endswith" 2 _ (by decide) (by decide) rfl (by decide) hl
      (by show ∃ tpl, selectTpl .sqlite "endswith" [inferType a, inferType b] = .ok tpl
          simp only [selectTpl, likeTpl, overload_str ta tb]; exact ⟨_, rfl⟩)

theorem strTy_ok {a : Expr} (ta : StrTy a) : (tyIsStr (inferType a) || inferType a == none) = true := by
  rcases ta with h | h <;> rw [h] <;> decide

theorem vis_substring {s i : Expr} (hs : Vis isD al s) (hi : Vis isD al i) (ts : StrTy s) :
    Vis isD al (.call ⟨"substring".toList, []⟩ (.cons s (.cons i .nil))) :=
  vis_call isD al _ "substring" 2 _ (by decide) (by decide) rfl (by decide) (visL_cons isD al hs (visL_cons isD al hi (visL_nil isD al)))
    (by
      show ∃ tpl, selectTpl .sqlite "substring" [inferType s, inferType i] = .ok tpl
      have h : ((tyIsStr ([inferType s, inferType i].getD 0 none) || [inferType s, inferType i].getD 0 none == none) &&
          [inferType s, inferType i].length == 2) = true := by
        show ((tyIsStr (inferType s) || inferType s == none) && true) = true
        rw [strTy_ok ts]; rfl
      simp only [selectTpl]
      rw [if_pos h]; exact ⟨_, rfl⟩)

theorem vis_substring3 {s i n : Expr} (hs : Vis isD al s) (hi : Vis isD al i) (hn : Vis isD al n) (ts : StrTy s) :
    Vis isD al (.call ⟨"substring".toList, []⟩ (.cons s (.cons i (.cons n .nil)))) :=
  vis_call isD al _ "substring" 3 _ (by decide) (by decide) rfl (by decide)
    (visL_cons isD al hs (visL_cons isD al hi (visL_cons isD al hn (visL_nil isD al))))
    (by
      show ∃ tpl, selectTpl .sqlite "substring" [inferType s, inferType i, inferType n] = .ok tpl
      have h1 : ¬ ((tyIsStr ([inferType s, inferType i, inferType n].getD 0 none) || [inferType s, inferType i, inferType n].getD 0 none == none) &&
          [inferType s, inferType i, inferType n].length == 2) = true := by
        show ¬ ((tyIsStr (inferType s) || inferType s == none) && false) = true
        simp
      have h2 : ((tyIsStr ([inferType s, inferType i, inferType n].getD 0 none) || [inferType s, inferType i, inferType n].getD 0 none == none) &&
          [inferType s, inferType i, inferType n].length == 3) = true := by
        show ((tyIsStr (inferType s) || inferType s == none) && true) = true
        rw [strTy_ok ts]; rfl
      simp only [selectTpl]
      rw [if_neg h1, if_pos h2]; exact ⟨_, rfl⟩)

mutual
theorem visI : (e : IntE) → Vis isD al e.toExpr
  | .lit _ _ => by rw [IntE.toExpr]; exact vis_lit_int isD al _
  | .col c => by rw [IntE.toExpr]; exact vis_id isD al c
  | .neg e => by rw [IntE.toExpr]; exact vis_unary isD al _ (visI e)
  | .arith k l r => by rw [IntE.toExpr]; exact vis_binop isD al _ (visI l) (visI r)
  | .length s => by rw [IntE.toExpr]; exact vis_length isD al (visS s)
  | .indexof a b => by
      rw [IntE.toExpr]
      exact vis_indexof isD al (visS a) (visS b) (strShape .sqlite a).ty (strShape .sqlite b).ty
theorem visS : (s : StrE) → Vis isD al s.toExpr
  | .lit s => by rw [StrE.toExpr]; exact vis_lit_str isD al s
  | .col c => by rw [StrE.toExpr]; exact vis_id isD al c
  | .concat a b => by rw [StrE.toExpr]; exact vis_concat isD al (visS a) (visS b)
  | .substring s i => by rw [StrE.toExpr]; exact vis_substring isD al (visS s) (visI i) (strShape .sqlite s).ty
  | .substring3 s i n => by
      rw [StrE.toExpr]; exact vis_substring3 isD al (visS s) (visI i) (visI n) (strShape .sqlite s).ty
  | .tolower s => by rw [StrE.toExpr]; exact vis_tolower isD al (visS s)
  | .toupper s => by rw [StrE.toExpr]; exact vis_toupper isD al (visS s)
  | .trim s => by rw [StrE.toExpr]; exact vis_trim isD al (visS s)
end

theorem visIs : (xs : List IntE) → VisL isD al (intsToExprs xs)
  | [] => by rw [intsToExprs]; exact visL_nil isD al
  | e :: t => by rw [intsToExprs]; exact visL_cons isD al (visI isD al e) (visIs t)
theorem visSs : (xs : List StrE) → VisL isD al (strsToExprs xs)
  | [] => by rw [strsToExprs]; exact visL_nil isD al
  | e :: t => by rw [strsToExprs]; exact visL_cons isD al (visS isD al e) (visSs t)

theorem visB : (b : BoolE) → Vis isD al b.toExpr
  | .cmpI _ l r => by rw [BoolE.toExpr]; exact vis_compare isD al _ (visI isD al l) (visI isD al r)
  | .cmpS _ l r => by rw [BoolE.toExpr]; exact vis_compare isD al _ (visS isD al l) (visS isD al r)
  | .cmpB _ l r => by rw [BoolE.toExpr]; exact vis_compare isD al _ (visB l) (visB r)
  | .isNull _ c _ => by rw [BoolE.toExpr]; exact vis_compare isD al _ (vis_id isD al c) (vis_lit_null isD al _)
  | .inI e xs => by
      rw [BoolE.toExpr]; exact vis_compare isD al _ (visI isD al e) (vis_list isD al (visIs isD al xs))
  | .inS e xs => by
      rw [BoolE.toExpr]; exact vis_compare isD al _ (visS isD al e) (vis_list isD al (visSs isD al xs))
  | .and l r => by rw [BoolE.toExpr]; exact vis_boolop isD al _ (visB l) (visB r)
  | .or l r => by rw [BoolE.toExpr]; exact vis_boolop isD al _ (visB l) (visB r)
  | .not e => by rw [BoolE.toExpr]; exact vis_unary isD al _ (visB e)
  | .like k a b => by
      rw [BoolE.toExpr]
      exact vis_like isD al k (visS isD al a) (visS isD al b) (strShape .sqlite a).ty (strShape .sqlite b).ty
  | .col c => by rw [BoolE.toExpr]; exact vis_id isD al c
  | .lit b => by rw [BoolE.toExpr]; exact vis_lit_bool isD al _
end

end OQ.TypedShape
