/- Lemmas/LexTok.lean — `lexOne pyCharEnv` on the spelling of each token followed by what the printer puts after it
   (for Props/C13Text.lean). -/
import ODataVerif.Lemmas.LexOne
namespace OQ.LexRender
open Spec
set_option linter.unusedSimpArgs false
set_option linter.unusedVariables false

/-! ### concrete heads -/
theorem hf_quote : HeadFacts E '\'' := by constructor <;> decide +kernel
theorem hf_blank : HeadFacts E ' ' := by constructor <;> decide +kernel
theorem hf_lp : HeadFacts E '(' := by constructor <;> decide +kernel
theorem hf_rp : HeadFacts E ')' := by constructor <;> decide +kernel
theorem hf_comma : HeadFacts E ',' := by constructor <;> decide +kernel
theorem hf_slash : HeadFacts E '/' := by constructor <;> decide +kernel
theorem hf_colon : HeadFacts E ':' := by constructor <;> decide +kernel
theorem hf_eqs : HeadFacts E '=' := by constructor <;> decide +kernel
theorem hf_minus : HeadFacts E '-' := by constructor <;> decide +kernel

theorem lexOne_single {c : Char} {tok : Tok} (tl : List Char) (hf : HeadFacts E c) (hs : E.isSpace c = false)
    (hq : c ≠ '\'') (hp : c ≠ '+') (hm : c ≠ '-')
    (hr : rSingle (c :: tl) = some (tok, tl)) : lexOne E (c :: tl) = some (tok, tl) := by
  rw [lexOne_eq, rules, firstSome_append, litRules_head _ hf hq hp hm]
  have h1 : scanWord E "any".toList (c :: tl) = none := scanWord_head (p := 'a') (ps := ['n', 'y']) hf.a
  have h2 : scanWord E "all".toList (c :: tl) = none := scanWord_head (p := 'a') (ps := ['l', 'l']) hf.a
  simp only [restRules, firstSome, rOp, scanOp_head hs, rMinus_cons, hm, scanNot_head hf.n, rKw, h1, h2,
    rIdent, scanIdent_head hf.ident, rWs, span1_head hs, hr, Option.map_none, if_false]

theorem lexOne_lp (tl : List Char) : lexOne E ('(' :: tl) = some (.lp, tl) :=
  lexOne_single tl hf_lp (by decide +kernel) (by decide) (by decide) (by decide) (by simp [rSingle_cons])
theorem lexOne_rp (tl : List Char) : lexOne E (')' :: tl) = some (.rp, tl) :=
  lexOne_single tl hf_rp (by decide +kernel) (by decide) (by decide) (by decide) (by simp [rSingle_cons])
theorem lexOne_comma (tl : List Char) : lexOne E (',' :: tl) = some (.comma, tl) :=
  lexOne_single tl hf_comma (by decide +kernel) (by decide) (by decide) (by decide) (by simp [rSingle_cons])
theorem lexOne_slash (tl : List Char) : lexOne E ('/' :: tl) = some (.slash, tl) :=
  lexOne_single tl hf_slash (by decide +kernel) (by decide) (by decide) (by decide) (by simp [rSingle_cons])
theorem lexOne_colon (tl : List Char) : lexOne E (':' :: tl) = some (.colon, tl) :=
  lexOne_single tl hf_colon (by decide +kernel) (by decide) (by decide) (by decide) (by simp [rSingle_cons])
theorem lexOne_eqs (tl : List Char) : lexOne E ('=' :: tl) = some (.eqs, tl) :=
  lexOne_single tl hf_eqs (by decide +kernel) (by decide) (by decide) (by decide) (by simp [rSingle_cons])

/-- unary minus: the next character is not a digit (else the signed-number rules win) -/
theorem lexOne_minus (tl : List Char) (h : span1 E.isDigit tl = none) : lexOne E ('-' :: tl) = some (.uminus, tl) := by
  have hs : E.isSpace '-' = false := by decide +kernel
  rw [lexOne_eq, rules, firstSome_append]
  have hl : firstSome (litRules E) ('-' :: tl) = none := by
    have hf := hf_minus
    simp [litRules, firstSome, rLit, rBool, rNull, scanDuration_head hf.d, scanString_head, scanGeography_head hf.g,
      scanGuid_head hf.hex, scanDateTime_head hf.digit, scanDatePart_head hf.digit, scanTime_head hf.r01 hf.ne2,
      scanWord_head hf.t, scanWord_head hf.f, scanWord_head hf.n, scanDecimal, scanInteger, h]
  rw [hl]
  simp only [restRules, firstSome, rOp, scanOp_head hs, rMinus_cons, Option.map_none, if_true]


/-! ### whitespace, operators -/

/-- `x` is empty or starts with a non-space character -/
def headNS (x : List Char) : Prop := ∀ c t, x = c :: t → E.isSpace c = false

theorem headNS_nil : headNS [] := by intro c t h; cases h
theorem headNS_cons {c : Char} {t : List Char} (h : E.isSpace c = false) : headNS (c :: t) := by
  intro c' t' h'; cases h'; exact h

theorem span_headNS {x : List Char} (h : headNS x) : span E.isSpace x = ([], x) := by
  cases x with
  | nil => rfl
  | cons c t => simp [span, h c t rfl]

theorem span1_blank {x : List Char} (h : headNS x) : span1 E.isSpace (' ' :: x) = some ([' '], x) := by
  simp [span1, span, space_blank, span_headNS h]

theorem span1_headNS {x : List Char} (h : headNS x) : span1 E.isSpace x = none := by
  simp [span1, span_headNS h]

theorem scanOp_blank (w : List Char) {x : List Char} (h : headNS x) :
    scanOp E w (' ' :: x) = (kw E w x).bind fun p => (span1 E.isSpace p.2).map (·.2) := by
  simp only [scanOp, Option.bind_eq_bind, span1_blank h, Option.bind_some]
  cases kw E w x with
  | none => rfl
  | some p => simp only [Option.bind_some]; cases span1 E.isSpace p.2 <;> rfl

theorem delim_blank : Delim E ' ' := delim_of (by decide)

/-- an operator rule on ` w' ` followed by a non-space: it matches iff its word is `w'` -/
theorem scanOp_word (w w' tl : List Char) (hw' : headNS w') (hne : w' ≠ []) (htl : headNS tl)
    (hw : ∀ p ∈ w, p ∈ patChars := by decide)
    (hk : kw E w w' = none ∨ ∃ m, kw E w w' = some (m, [])) :
    scanOp E w (' ' :: w' ++ ' ' :: tl) = if (kw E w w').isSome then some tl else none := by
  have hx : headNS (w' ++ ' ' :: tl) := by
    cases w' with
    | nil => exact absurd rfl hne
    | cons c t => exact headNS_cons (hw' c t rfl)
  rw [List.cons_append, scanOp_blank w hx, kw_ext E ' ' tl w w' (delim_blank.kwl w hw)]
  rcases hk with hk | ⟨m, hk⟩
  · simp [hk]
  · simp [hk, span1_blank htl]


def opRule (e : Tok × List Char) : Rule := rOp e.1 (scanOp E e.2)
def ops1 : List (Tok × List Char) :=
  [(.arith .add, "add".toList), (.arith .sub, "sub".toList), (.arith .mul, "mul".toList), (.arith .div, "div".toList),
   (.arith .mod, "mod".toList)]
def ops2 : List (Tok × List Char) := [(.bool .and_, "and".toList), (.bool .or_, "or".toList)]
def ops3 : List (Tok × List Char) :=
  [(.cmp .eq, "eq".toList), (.cmp .ne, "ne".toList), (.cmp .lt, "lt".toList), (.cmp .le, "le".toList),
   (.cmp .gt, "gt".toList), (.cmp .ge, "ge".toList), (.cmp .in_, "in".toList)]
def tailRules : List Rule := [rKw .any (scanWord E "any".toList), rKw .all (scanWord E "all".toList), rIdent E, rWs E, rSingle]

theorem restRules_eq : restRules E =
    ops1.map opRule ++ (rMinus :: (ops2.map opRule ++ (rOp .not_ (scanNot E) :: (ops3.map opRule ++ tailRules)))) := rfl

def findOp (L : List (Tok × List Char)) (w' : List Char) : Option (Tok × List Char) :=
  L.find? (fun e => (kw E e.2 w').isSome)

theorem firstSome_opRules (L : List (Tok × List Char)) (more : List Rule) (w' tl : List Char)
    (hw' : headNS w') (hne : w' ≠ []) (htl : headNS tl)
    (hL : ∀ e ∈ L, (∀ p ∈ e.2, p ∈ patChars) ∧ (kw E e.2 w' = none ∨ ∃ m, kw E e.2 w' = some (m, []))) :
    firstSome (L.map opRule ++ more) (' ' :: w' ++ ' ' :: tl) =
      match findOp L w' with
      | some e => some (e.1, tl)
      | none => firstSome more (' ' :: w' ++ ' ' :: tl) := by
  induction L with
  | nil => rfl
  | cons e L ih =>
    have he := hL e List.mem_cons_self
    have hs := scanOp_word e.2 w' tl hw' hne htl he.1 he.2
    simp only [List.map_cons, List.cons_append, firstSome, opRule, rOp, findOp, List.find?_cons]
    simp only [List.cons_append] at hs
    rw [hs]
    cases hk : (kw E e.2 w').isSome with
    | true => simp
    | false =>
      simp only [Bool.false_eq_true, if_false, Option.map_none]
      exact ih (fun e' he' => hL e' (List.mem_cons_of_mem _ he'))


def allOps : List (Tok × List Char) := ops1 ++ ops2 ++ ops3

def opSide (w' : List Char) (L : List (Tok × List Char)) : Bool :=
  L.all fun e => e.2.all (fun p => patChars.contains p) &&
    (match kw E e.2 w' with | none => true | some (_, r) => r.isEmpty)

theorem opSide_spec {w' : List Char} {L : List (Tok × List Char)} (h : opSide w' L = true) :
    ∀ e ∈ L, (∀ p ∈ e.2, p ∈ patChars) ∧ (kw E e.2 w' = none ∨ ∃ m, kw E e.2 w' = some (m, [])) := by
  intro e he
  simp only [opSide, List.all_eq_true, Bool.and_eq_true] at h
  obtain ⟨h1, h2⟩ := h e he
  refine ⟨fun p hp => by simpa using h1 p hp, ?_⟩
  cases hk : kw E e.2 w' with
  | none => exact Or.inl rfl
  | some x =>
    obtain ⟨m, r⟩ := x
    rw [hk] at h2
    simp at h2
    exact Or.inr ⟨m, by rw [h2]⟩

def opRow (e : Tok × List Char) : Bool :=
  (match e.2 with | c :: _ => !E.isSpace c | [] => false) &&
  opSide e.2 ops1 && opSide e.2 ops2 && opSide e.2 ops3 &&
  (match findOp ops1 e.2 with
   | some e' => e' == e
   | none => match findOp ops2 e.2 with
     | some e' => e' == e
     | none => findOp ops3 e.2 == some e)

theorem ops_table : allOps.all opRow = true := by decide +kernel

theorem lexOne_op {tok : Tok} {w' : List Char} (h : (tok, w') ∈ allOps) (tl : List Char) (htl : headNS tl) :
    lexOne E (' ' :: w' ++ ' ' :: tl) = some (tok, tl) := by
  have hrow := (List.all_eq_true.1 ops_table) _ h
  simp only [opRow, Bool.and_eq_true] at hrow
  obtain ⟨⟨⟨⟨hh, s1⟩, s2⟩, s3⟩, hfind⟩ := hrow
  have hne : w' ≠ [] := by rintro rfl; simp at hh
  have hw' : headNS w' := by
    intro c t hc; subst hc; simpa using hh
  have hl : firstSome (litRules E) (' ' :: w' ++ ' ' :: tl) = none :=
    litRules_head _ hf_blank (by decide) (by decide) (by decide)
  rw [lexOne_eq, rules, firstSome_append, hl, restRules_eq,
    firstSome_opRules ops1 _ w' tl hw' hne htl (opSide_spec s1)]
  cases h1 : findOp ops1 w' with
  | some e' => rw [h1] at hfind; simp at hfind; simp [hfind]
  | none =>
    rw [h1] at hfind
    have hmin : rMinus (' ' :: w' ++ ' ' :: tl) = none := by
      rw [List.cons_append, rMinus_cons]; exact if_neg (by decide)
    have hnot : scanNot E (' ' :: w' ++ ' ' :: tl) = none := scanNot_head hf_blank.n
    simp only [firstSome, hmin]
    rw [firstSome_opRules ops2 _ w' tl hw' hne htl (opSide_spec s2)]
    cases h2 : findOp ops2 w' with
    | some e' => rw [h2] at hfind; simp at hfind; simp [hfind]
    | none =>
      rw [h2] at hfind
      simp only [firstSome, rOp, hnot, Option.map_none]
      rw [firstSome_opRules ops3 _ w' tl hw' hne htl (opSide_spec s3)]
      simp at hfind
      simp [hfind]

theorem firstSome_skip (pre more : List Rule) (cs : List Char) (h : ∀ f ∈ pre, f cs = none) :
    firstSome (pre ++ more) cs = firstSome more cs := by
  induction pre with
  | nil => rfl
  | cons f fs ih =>
    simp only [List.cons_append, firstSome, h f List.mem_cons_self]
    exact ih (fun g hg => h g (List.mem_cons_of_mem _ hg))

theorem opRules_head (L : List (Tok × List Char)) {c : Char} (x : List Char) (h : E.isSpace c = false) :
    ∀ f ∈ L.map opRule, f (c :: x) = none := by
  intro f hf
  obtain ⟨e, -, rfl⟩ := List.mem_map.1 hf
  simp [opRule, rOp, scanOp_head h]

theorem tailRules_ws (tl : List Char) (htl : headNS tl) : firstSome tailRules (' ' :: tl) = some (.ws, tl) := by
  have h1 : scanWord E "any".toList (' ' :: tl) = none := scanWord_head (p := 'a') (ps := ['n', 'y']) hf_blank.a
  have h2 : scanWord E "all".toList (' ' :: tl) = none := scanWord_head (p := 'a') (ps := ['l', 'l']) hf_blank.a
  simp only [tailRules, firstSome, rKw, h1, h2, rIdent, scanIdent_head hf_blank.ident, rWs, span1_blank htl,
    Option.map_none, Option.map_some]

/-- a blank in front of a non-space where no operator rule matches is a WS token -/
theorem lexOne_ws (tl : List Char) (htl : headNS tl) (hops : ∀ e ∈ allOps, scanOp E e.2 (' ' :: tl) = none) :
    lexOne E (' ' :: tl) = some (.ws, tl) := by
  have hL : ∀ L : List (Tok × List Char), (∀ e ∈ L, e ∈ allOps) → ∀ f ∈ L.map opRule, f (' ' :: tl) = none := by
    intro L hsub f hf
    obtain ⟨e, he, rfl⟩ := List.mem_map.1 hf
    simp [opRule, rOp, hops e (hsub e he)]
  have hmin : rMinus (' ' :: tl) = none := by rw [rMinus_cons]; exact if_neg (by decide)
  rw [lexOne_eq, rules, firstSome_append, litRules_head _ hf_blank (by decide) (by decide) (by decide), restRules_eq]
  simp only []
  rw [firstSome_skip _ _ _ (hL ops1 (fun e he => by simp [allOps, he]))]
  simp only [firstSome, hmin]
  rw [firstSome_skip _ _ _ (hL ops2 (fun e he => by simp [allOps, he]))]
  simp only [firstSome, rOp, scanNot_head hf_blank.n, Option.map_none]
  rw [firstSome_skip _ _ _ (hL ops3 (fun e he => by simp [allOps, he]))]
  exact tailRules_ws tl htl


theorem lexOne_not (tl : List Char) (htl : headNS tl) :
    lexOne E ('n' :: 'o' :: 't' :: ' ' :: tl) = some (.not_, tl) := by
  have hsp : E.isSpace 'n' = false := by decide +kernel
  have hlit0 : firstSome (litRules E) ['n', 'o', 't'] = none := by decide +kernel
  have hlit : firstSome (litRules E) (['n', 'o', 't'] ++ ' ' :: tl) = none :=
    firstSome_transfer_none _ _ (' ' :: tl) .not_ _
      (litRules_ext word_dot delim_blank (Or.inl (by decide)) (by decide)
        (kw_head (p := 'g') (by decide +kernel))) hlit0
  have hmin : rMinus ('n' :: 'o' :: 't' :: ' ' :: tl) = none := by rw [rMinus_cons]; exact if_neg (by decide)
  have hkw : kw E "not".toList ['n', 'o', 't'] = some (['n', 'o', 't'], []) := by decide +kernel
  have hnot : scanNot E (['n', 'o', 't'] ++ ' ' :: tl) = some tl := by
    simp only [scanNot, Option.bind_eq_bind]
    rw [kw_ext E ' ' tl _ _ (delim_blank.kwl _), hkw]
    simp [span1_blank htl]
  rw [lexOne_eq, rules, firstSome_append]
  simp only [List.cons_append, List.nil_append] at hlit hnot
  rw [hlit, restRules_eq]
  simp only []
  rw [firstSome_skip _ _ _ (opRules_head ops1 _ hsp)]
  simp only [firstSome, hmin]
  rw [firstSome_skip _ _ _ (opRules_head ops2 _ hsp)]
  simp only [firstSome, rOp, hnot, Option.map_some]


/-! ### literals followed by a delimiter -/

def notLit : Tok → Prop
  | .lit _ _ => False
  | _ => True

theorem restRules_tok {env : CharEnv} {cs r : List Char} {t : Tok} {f : Rule} (hf : f ∈ restRules env)
    (h : f cs = some (t, r)) : notLit t := by
  simp only [restRules, List.mem_cons, List.not_mem_nil, or_false] at hf
  rcases hf with rfl | rfl | rfl | rfl | rfl | rfl | rfl | rfl | rfl | rfl | rfl | rfl | rfl | rfl | rfl | rfl | rfl | rfl | rfl | rfl | rfl
  all_goals
    first
    | (simp only [rOp, rKw, rIdent, rWs, Option.map_eq_some_iff, Prod.mk.injEq] at h
       obtain ⟨a, ha, rfl, rfl⟩ := h
       trivial)
    | (cases cs with
       | nil => simp [rMinus, rSingle] at h
       | cons c x =>
         simp only [rMinus_cons, rSingle_cons] at h
         repeat' split at h
         all_goals first | (simp at h; obtain ⟨rfl, rfl⟩ := h; trivial) | simp at h)

theorem lexOne_lit_inv {env : CharEnv} {cs r : List Char} {k : LitKind} {v : Str}
    (h : lexOne env cs = some (.lit k v, r)) : firstSome (litRules env) cs = some (.lit k v, r) := by
  rw [lexOne_eq, rules, firstSome_append] at h
  cases hl : firstSome (litRules env) cs with
  | some x => rw [hl] at h; exact h
  | none =>
    rw [hl] at h
    obtain ⟨f, hf, hx⟩ := firstSome_mem _ _ _ h
    exact (restRules_tok hf hx).elim

theorem lexOne_of_lit {env : CharEnv} {cs : List Char} {x : Tok × List Char}
    (h : firstSome (litRules env) cs = some x) : lexOne env cs = some x := by
  rw [lexOne_eq, rules, firstSome_append, h]

theorem g_cases {c : Char} (h : ciChar E 'g' c = true) : c = 'g' ∨ c = 'G' := by
  simp [ciChar, isAsciiLower, asciiUpper, pyCharEnv, CharTables.ciExtras] at h
  rcases h with rfl | rfl
  · exact Or.inl rfl
  · exact Or.inr (by decide)

theorem scanString_ext {d : Char} (hd : d ≠ '\'') (rest s v : List Char) (h : scanString s = some (v, [])) :
    scanString (s ++ d :: rest) = some (v, d :: rest) := by
  cases s with
  | nil => simp [scanString] at h
  | cons c t =>
    by_cases hc : c = '\''
    · subst hc
      simp only [scanString, Option.bind_eq_bind, Option.bind_eq_some_iff, List.cons_append] at h ⊢
      obtain ⟨⟨b, r⟩, hb, hr⟩ := h
      simp at hr
      obtain ⟨rfl, rfl⟩ := hr
      exact ⟨(b, d :: rest), strBody_ext d hd rest t b hb, rfl⟩
    · simp [scanString, hc] at h

theorem scanGeography_ext {d : Char} (hd : Delim E d) (rest s v : List Char) (h : scanGeography E s = some (v, [])) :
    scanGeography E (s ++ d :: rest) = some (v, d :: rest) := by
  simp only [scanGeography, Option.bind_eq_bind, Option.bind_eq_some_iff] at h ⊢
  obtain ⟨⟨m, r⟩, hk, hb⟩ := h
  refine ⟨(m, r ++ d :: rest), ?_, strBody_ext d hd.ne_quote rest r v hb⟩
  rw [kw_ext E d rest _ s (hd.kwl _), hk]; rfl


theorem litRules_quote (x : List Char) : firstSome (litRules E) ('\'' :: x) = rLit .str scanString ('\'' :: x) := by
  have hf := hf_quote
  have hw1 : scanWord E "true".toList ('\'' :: x) = none := scanWord_head (p := 't') (ps := ['r', 'u', 'e']) hf.t
  have hw2 : scanWord E "false".toList ('\'' :: x) = none := scanWord_head (p := 'f') (ps := ['a', 'l', 's', 'e']) hf.f
  have hw3 : scanWord E "null".toList ('\'' :: x) = none := scanWord_head (p := 'n') (ps := ['u', 'l', 'l']) hf.n
  simp only [litRules, firstSome, rLit, rBool, rNull, scanDuration_head hf.d, scanGeography_head hf.g,
    scanGuid_head hf.hex, scanDateTime_head hf.digit, scanDatePart_head hf.digit, scanTime_head hf.r01 hf.ne2,
    scanDecimal_head (c := '\'') (by decide) (by decide) hf.digit,
    scanInteger_head (c := '\'') (by decide) (by decide) hf.digit, hw1, hw2, hw3, Option.map_none]
  cases scanString ('\'' :: x) <;> rfl

theorem litRules_g {c : Char} (hc : c = 'g' ∨ c = 'G') (x : List Char) :
    firstSome (litRules E) (c :: x) = rLit .geo (scanGeography E) (c :: x) := by
  have hd : ciChar E 'd' c = false := by rcases hc with rfl | rfl <;> decide +kernel
  have ht : ciChar E 't' c = false := by rcases hc with rfl | rfl <;> decide +kernel
  have hf : ciChar E 'f' c = false := by rcases hc with rfl | rfl <;> decide +kernel
  have hn : ciChar E 'n' c = false := by rcases hc with rfl | rfl <;> decide +kernel
  have hhex : isHex E c = false := by rcases hc with rfl | rfl <;> decide +kernel
  have h01 : inCharRange '0' '1' c = false := by rcases hc with rfl | rfl <;> decide +kernel
  have h2 : c ≠ '2' := by rcases hc with rfl | rfl <;> decide +kernel
  have hq : c ≠ '\'' := by rcases hc with rfl | rfl <;> decide +kernel
  have hp : c ≠ '+' := by rcases hc with rfl | rfl <;> decide +kernel
  have hm : c ≠ '-' := by rcases hc with rfl | rfl <;> decide +kernel
  have hdg : E.isDigit c = false := by rcases hc with rfl | rfl <;> decide +kernel
  have hw1 : scanWord E "true".toList (c :: x) = none := scanWord_head (p := 't') (ps := ['r', 'u', 'e']) ht
  have hw2 : scanWord E "false".toList (c :: x) = none := scanWord_head (p := 'f') (ps := ['a', 'l', 's', 'e']) hf
  have hw3 : scanWord E "null".toList (c :: x) = none := scanWord_head (p := 'n') (ps := ['u', 'l', 'l']) hn
  simp only [litRules, firstSome, rLit, rBool, rNull, scanDuration_head hd, scanString_head hq,
    scanGuid_head hhex, scanDateTime_head hdg, scanDatePart_head hdg, scanTime_head h01 h2,
    scanDecimal_head hp hm hdg, scanInteger_head hp hm hdg, hw1, hw2, hw3, Option.map_none]
  cases scanGeography E (c :: x) <;> rfl

/-- a literal that lexes alone still lexes, to the same token, in front of a delimiter other than `:` -/
theorem lexOne_ext_lit {s : List Char} {k : LitKind} {v : Str} {d : Char} (rest : List Char)
    (h : lexOne E s = some (.lit k v, [])) (hd : isDelim d = true) (hc : d ≠ ':') :
    lexOne E (s ++ d :: rest) = some (.lit k v, d :: rest) := by
  have hD := delim_of hd
  have hl := lexOne_lit_inv h
  apply lexOne_of_lit
  cases s with
  | nil =>
    have : firstSome (litRules E) [] = none := by decide +kernel
    rw [this] at hl; cases hl
  | cons c s0 =>
    by_cases hq : c = '\''
    · subst hq
      rw [litRules_quote] at hl
      simp only [List.cons_append]
      rw [litRules_quote]
      simp only [rLit, Option.map_eq_some_iff, Prod.mk.injEq, Tok.lit.injEq] at hl ⊢
      obtain ⟨⟨v', r'⟩, hs, ⟨rfl, rfl⟩, rfl⟩ := hl
      exact ⟨(_, d :: rest), scanString_ext hD.ne_quote rest _ _ hs, ⟨rfl, rfl⟩, rfl⟩
    · by_cases hg : ciChar E 'g' c = true
      · have hgc := g_cases hg
        rw [litRules_g hgc] at hl
        simp only [List.cons_append]
        rw [litRules_g hgc]
        simp only [rLit, Option.map_eq_some_iff, Prod.mk.injEq, Tok.lit.injEq] at hl ⊢
        obtain ⟨⟨v', r'⟩, hs, ⟨rfl, rfl⟩, rfl⟩ := hl
        exact ⟨(_, d :: rest), scanGeography_ext hD rest _ _ hs, ⟨rfl, rfl⟩, rfl⟩
      · exact firstSome_transfer _ _ _ _ _
          (litRules_ext word_dot hD (Or.inl hc) hq (kw_head (p := 'g') (by simpa using hg))) hl


/-! ### identifiers, `any`, `all` followed by a delimiter -/

theorem identTail_chars {env : CharEnv} (n : Nat) (t a : List Char) (h : identTail env n t = (a, [])) :
    ∀ x ∈ t, env.isWord x = true ∨ x = '.' := by
  fun_induction identTail env n t generalizing a with
  | case1 cs => simp at h; obtain ⟨rfl, rfl⟩ := h; simp
  | case2 n c t hw a' b heq ih =>
      simp [heq] at h
      obtain ⟨rfl, rfl⟩ := h
      intro x hx
      simp only [List.mem_cons] at hx
      rcases hx with rfl | rfl | hx
      · exact Or.inr rfl
      · exact Or.inl hw
      · exact ih _ heq x hx
  | case3 n c t hw => simp at h
  | case4 n c t hne hw a' b heq ih =>
      simp [heq] at h
      obtain ⟨rfl, rfl⟩ := h
      intro x hx
      simp only [List.mem_cons] at hx
      rcases hx with rfl | hx
      · exact Or.inl hw
      · exact ih _ heq x hx
  | case5 n c t hne hw => simp at h
  | case6 n => simp

theorem kw_mem {env : CharEnv} : ∀ (w s m r : List Char), kw env w s = some (m, r) → ∀ p ∈ w, ∃ x ∈ s, ciChar env p x = true
  | [], _, _, _, _, p, hp => by simp at hp
  | _ :: _, [], _, _, h, _, _ => by simp [kw] at h
  | q :: w, c :: s, m, r, h, p, hp => by
      simp only [kw] at h
      split at h
      · rename_i hc
        cases hk : kw env w s with
        | none => simp [hk] at h
        | some y =>
          rcases List.mem_cons.1 hp with rfl | hp
          · exact ⟨c, List.mem_cons_self, hc⟩
          · obtain ⟨x, hx, hpx⟩ := kw_mem w s y.1 y.2 hk p hp
            exact ⟨x, List.mem_cons_of_mem _ hx, hpx⟩
      · simp at h

theorem scanIdent_inv {env : CharEnv} {c : Char} {s0 : List Char} {i : Ident} (h : scanIdent env (c :: s0) = some (i, [])) :
    isIdentStart env c = true ∧ ∀ x ∈ s0, env.isWord x = true ∨ x = '.' := by
  simp only [scanIdent] at h
  split at h
  · rename_i hc
    refine ⟨hc, ?_⟩
    simp at h
    exact identTail_chars 127 s0 _ (Prod.ext rfl h.2)
  · simp at h

theorem letter_ranges {c : Char} (h : letterNat c.toNat ∨ c.toNat = 95) :
    E.isDigit c = false ∧ inCharRange '0' '1' c = false ∧ c ≠ '2' := by
  refine ⟨(letter_imp c h).1, ?_, ?_⟩
  · simp only [inCharRange, le_char_iff, letterNat] at h ⊢
    have : '1'.toNat = 49 := rfl
    simp; omega
  · rintro rfl; simp [letterNat] at h

theorem lexOne_nil0 : lexOne E [] = none := by decide +kernel

theorem scanWord_head_inv0 {env : CharEnv} {p c : Char} {ps x : List Char} {y} (h : scanWord env (p :: ps) (c :: x) = some y) :
    ciChar env p c = true := by
  cases hc : ciChar env p c with
  | true => rfl
  | false => rw [scanWord_head hc] at h; cases h

theorem t_cases {c : Char} (h : ciChar E 't' c = true) : c = 't' ∨ c = 'T' := by
  simp [ciChar, isAsciiLower, asciiUpper, pyCharEnv, CharTables.ciExtras] at h
  rcases h with rfl | rfl
  · exact Or.inl rfl
  · exact Or.inr (by decide)

theorem f_cases {c : Char} (h : ciChar E 'f' c = true) : c = 'f' ∨ c = 'F' := by
  simp [ciChar, isAsciiLower, asciiUpper, pyCharEnv, CharTables.ciExtras] at h
  rcases h with rfl | rfl
  · exact Or.inl rfl
  · exact Or.inr (by decide)

/-- the first character of a match of one of the two BOOLEAN rules -/
theorem bool_head {cs : List Char} {y : Str × List Char}
    (h : scanWord E "true".toList cs = some y ∨ scanWord E "false".toList cs = some y) :
    ∃ c x, cs = c :: x ∧ (c = 't' ∨ c = 'T' ∨ c = 'f' ∨ c = 'F') := by
  cases cs with
  | nil => rcases h with h | h <;> simp [scanWord, kw] at h
  | cons c x =>
    refine ⟨c, x, rfl, ?_⟩
    rcases h with h | h
    · rcases t_cases (scanWord_head_inv0 (p := 't') (ps := ['r', 'u', 'e']) h) with e | e
      · exact Or.inl e
      · exact Or.inr (Or.inl e)
    · rcases f_cases (scanWord_head_inv0 (p := 'f') (ps := ['a', 'l', 's', 'e']) h) with e | e
      · exact Or.inr (Or.inr (Or.inl e))
      · exact Or.inr (Or.inr (Or.inr e))

theorem bool_not_clash {cs : List Char} {y : Str × List Char}
    (h : scanWord E "true".toList cs = some y ∨ scanWord E "false".toList cs = some y) : scanNot E cs = none := by
  obtain ⟨c, x, rfl, hc⟩ := bool_head h
  apply scanNot_head
  rcases hc with rfl | rfl | rfl | rfl <;> decide +kernel

theorem boolOrIdent_cases (v : Str) : boolOrIdent v = .lit .bool v ∨ boolOrIdent v = .ident ⟨v, []⟩ := by
  unfold boolOrIdent; split
  · exact Or.inl rfl
  · exact Or.inr rfl

theorem boolOrIdent_ne_ws (v : Str) : boolOrIdent v ≠ .ws := by
  rcases boolOrIdent_cases v with h | h <;> rw [h] <;> simp

/-- the first character of an identifier token is a letter or `_` — whichever rule produced it -/
theorem src_ident_letter {c : Char} {s0 r : List Char} {i : Ident} (h : Src E (c :: s0) r (.ident i)) :
    letterNat c.toNat ∨ c.toNat = 95 := by
  rcases h with h | ⟨-, h⟩
  · simp only [scanIdent] at h
    split at h
    · rename_i hc; exact isIdentStart_imp c hc
    · simp at h
  · obtain ⟨c', x, e, hc⟩ := bool_head h
    simp only [List.cons.injEq] at e
    obtain ⟨rfl, rfl⟩ := e
    rcases hc with rfl | rfl | rfl | rfl <;> (left; simp [letterNat])

/-- the text of an identifier token does not start like a geography literal -/
theorem src_ident_geo {c : Char} {s0 : List Char} {i : Ident} (h : Src E (c :: s0) [] (.ident i)) :
    kw E "geography'".toList (c :: s0) = none := by
  rcases h with hsrc | ⟨-, h⟩
  · obtain ⟨hstart, htail⟩ := scanIdent_inv hsrc
    have hq := (letter_imp c (isIdentStart_imp c hstart)).2.2.1
    cases hk : kw E "geography'".toList (c :: s0) with
    | none => rfl
    | some y =>
      obtain ⟨x, hx, hxq⟩ := kw_mem _ _ y.1 y.2 hk '\'' (by decide)
      have hxe : x = '\'' := by simpa [ciChar, isAsciiLower] using hxq
      subst hxe
      rcases List.mem_cons.1 hx with hx | hx
      · exact absurd hx.symm hq
      · rcases htail _ hx with hw | hw
        · exact absurd hw (by decide +kernel)
        · exact absurd hw (by decide)
  · obtain ⟨c', x, e, hc⟩ := bool_head h
    simp only [List.cons.injEq] at e
    obtain ⟨rfl, rfl⟩ := e
    apply kw_head (p := 'g')
    rcases hc with rfl | rfl | rfl | rfl <;> decide +kernel

theorem lexOne_ext_ident {s : List Char} {i : Ident} {d : Char} (rest : List Char)
    (h : lexOne E s = some (.ident i, [])) (hd : isDelim d = true)
    (hnot : d = ' ' → scanNot E (s ++ ' ' :: rest) = none) :
    lexOne E (s ++ d :: rest) = some (.ident i, d :: rest) := by
  have hD := delim_of hd
  have hsrc : Src E s [] (.ident i) := lexOne_src h
  cases s with
  | nil => rw [lexOne_nil0] at h; cases h
  | cons c s0 =>
    have hl := src_ident_letter hsrc
    obtain ⟨hdg, hsp, hq, hp, hm⟩ := letter_imp c hl
    have hg := src_ident_geo hsrc
    refine lexOne_ext_other word_dot hD (delim_identStart hd) (Or.inr (letter_ranges hl)) hq hg hsp ?_ (by simp) h
    intro hn
    by_cases hds : d = ' '
    · subst hds; exact hnot rfl
    · rw [scanNot_ext hD (delim_space hd hds), hn]; rfl

theorem lexOne_any (tl : List Char) : lexOne E ('a' :: 'n' :: 'y' :: '(' :: tl) = some (.any, '(' :: tl) := by
  have h0 : lexOne E ['a', 'n', 'y'] = some (.any, []) := by decide +kernel
  have hD : Delim E '(' := delim_of (by decide)
  exact lexOne_ext_other (c := 'a') (s0 := ['n', 'y']) (rest := tl) word_dot hD (delim_identStart (by decide))
    (Or.inl (by decide)) (by decide) (kw_head (p := 'g') (by decide +kernel)) (by decide +kernel)
    (fun hn => by rw [scanNot_ext hD (by decide +kernel), hn]; rfl) (by simp) h0

theorem lexOne_all (tl : List Char) : lexOne E ('a' :: 'l' :: 'l' :: '(' :: tl) = some (.all, '(' :: tl) := by
  have h0 : lexOne E ['a', 'l', 'l'] = some (.all, []) := by decide +kernel
  have hD : Delim E '(' := delim_of (by decide)
  exact lexOne_ext_other (c := 'a') (s0 := ['l', 'l']) (rest := tl) word_dot hD (delim_identStart (by decide))
    (Or.inl (by decide)) (by decide) (kw_head (p := 'g') (by decide +kernel)) (by decide +kernel)
    (fun hn => by rw [scanNot_ext hD (by decide +kernel), hn]; rfl) (by simp) h0

theorem lexOne_ident_scanNot {cs r : List Char} {i : Ident} (h : lexOne E cs = some (.ident i, r)) :
    scanNot E cs = none := by
  cases hn : scanNot E cs with
  | none => rfl
  | some r' =>
    exfalso
    unfold lexOne at h
    iterate 9 (split at h; · simp at h)
    split at h
    · rename_i v r1 heq
      rw [bool_not_clash (Or.inl heq)] at hn; cases hn
    split at h
    · rename_i v r1 heq
      rw [bool_not_clash (Or.inr heq)] at hn; cases hn
    iterate 9 (split at h; · simp at h)
    split at h
    · simp at h
    · rename_i hne; exact hne _ hn


theorem lexOne_ws_ops {env : CharEnv} {cs r : List Char} (h : lexOne env cs = some (.ws, r)) :
    ∀ e ∈ allOps, scanOp env e.2 cs = none := by
  unfold lexOne at h
  split at h
  · simp at h <;> exact absurd h.1 (boolOrIdent_ne_ws _)
  rename_i h1
  split at h
  · simp at h <;> exact absurd h.1 (boolOrIdent_ne_ws _)
  rename_i h2
  split at h
  · simp at h <;> exact absurd h.1 (boolOrIdent_ne_ws _)
  rename_i h3
  split at h
  · simp at h <;> exact absurd h.1 (boolOrIdent_ne_ws _)
  rename_i h4
  split at h
  · simp at h <;> exact absurd h.1 (boolOrIdent_ne_ws _)
  rename_i h5
  split at h
  · simp at h <;> exact absurd h.1 (boolOrIdent_ne_ws _)
  rename_i h6
  split at h
  · simp at h <;> exact absurd h.1 (boolOrIdent_ne_ws _)
  rename_i h7
  split at h
  · simp at h <;> exact absurd h.1 (boolOrIdent_ne_ws _)
  rename_i h8
  split at h
  · simp at h <;> exact absurd h.1 (boolOrIdent_ne_ws _)
  rename_i h9
  split at h
  · simp at h <;> exact absurd h.1 (boolOrIdent_ne_ws _)
  rename_i h10
  split at h
  · simp at h <;> exact absurd h.1 (boolOrIdent_ne_ws _)
  rename_i h11
  split at h
  · simp at h <;> exact absurd h.1 (boolOrIdent_ne_ws _)
  rename_i h12
  split at h
  · simp at h <;> exact absurd h.1 (boolOrIdent_ne_ws _)
  rename_i h13
  split at h
  · simp at h <;> exact absurd h.1 (boolOrIdent_ne_ws _)
  rename_i h14
  split at h
  · simp at h <;> exact absurd h.1 (boolOrIdent_ne_ws _)
  rename_i h15
  split at h
  · simp at h <;> exact absurd h.1 (boolOrIdent_ne_ws _)
  rename_i h16
  split at h
  · simp at h <;> exact absurd h.1 (boolOrIdent_ne_ws _)
  rename_i h17
  split at h
  · simp at h <;> exact absurd h.1 (boolOrIdent_ne_ws _)
  rename_i h18
  split at h
  · simp at h <;> exact absurd h.1 (boolOrIdent_ne_ws _)
  rename_i h19
  split at h
  · simp at h <;> exact absurd h.1 (boolOrIdent_ne_ws _)
  rename_i h20
  split at h
  · simp at h <;> exact absurd h.1 (boolOrIdent_ne_ws _)
  rename_i h21
  split at h
  · simp at h <;> exact absurd h.1 (boolOrIdent_ne_ws _)
  rename_i h22
  split at h
  · simp at h <;> exact absurd h.1 (boolOrIdent_ne_ws _)
  rename_i h23
  split at h
  · simp at h <;> exact absurd h.1 (boolOrIdent_ne_ws _)
  rename_i h24
  split at h
  · simp at h <;> exact absurd h.1 (boolOrIdent_ne_ws _)
  rename_i h25
  split at h
  · simp at h <;> exact absurd h.1 (boolOrIdent_ne_ws _)
  rename_i h26
  split at h
  · simp at h <;> exact absurd h.1 (boolOrIdent_ne_ws _)
  rename_i h27
  split at h
  · simp at h <;> exact absurd h.1 (boolOrIdent_ne_ws _)
  rename_i h28
  split at h
  · simp at h <;> exact absurd h.1 (boolOrIdent_ne_ws _)
  rename_i h29
  split at h
  · simp at h <;> exact absurd h.1 (boolOrIdent_ne_ws _)
  rename_i h30
  split at h
  · simp at h <;> exact absurd h.1 (boolOrIdent_ne_ws _)
  rename_i h31
  intro e he
  simp only [allOps, ops1, ops2, ops3, List.cons_append, List.nil_append, List.mem_cons, List.not_mem_nil, or_false] at he
  cases hs : scanOp env e.2 cs with
  | none => rfl
  | some r' =>
    exfalso
    rcases he with rfl | rfl | rfl | rfl | rfl | rfl | rfl | rfl | rfl | rfl | rfl | rfl | rfl | rfl
    · exact h13 _ hs
    · exact h14 _ hs
    · exact h15 _ hs
    · exact h16 _ hs
    · exact h17 _ hs
    · exact h19 _ hs
    · exact h20 _ hs
    · exact h22 _ hs
    · exact h23 _ hs
    · exact h24 _ hs
    · exact h25 _ hs
    · exact h26 _ hs
    · exact h27 _ hs
    · exact h28 _ hs


end OQ.LexRender
